"""Static analyser for semiexp/cspuz (stdlib only).  See /verif/DESIGN.md."""
