"""What each check claims; MANIFEST.json is generated from this table by tools/gen_manifest.py."""

CLAIMS = {
    "C01": dict(
        text=(
            "Decides structural/necessary clauses of C01 for every operator and arity the DSL can build, not the "
            "behavioural biconditional: (OPC-1/2/3) the set of producible operators and their arities is computed "
            "from all construction sites; for each non-native one the z3 handler is evaluated over a finite abstract "
            "domain that is a complete quotient for its vocabulary and must return a term equal to the operator's "
            "reference meaning, consuming every operand; (OPC-6/7) BoolExpr/IntExpr dunders, then/cond and "
            "count_true/fold_or/fold_and/alldifferent build trees whose reference denotation equals the Python "
            "meaning of the call; (Z3M) both integer bounds are asserted for every IntVar, the model is read back "
            "into sol for every variable, False only on unsat; find_answer hands every variable and constraint to a fresh backend and returns its verdict for 0/1/2 variables x 0/1/3 constraints; (VID) variable ids equal list positions in every "
            "history (VID-4) expression trees are immutable: op/operands stored only by Expr.__init__, no in-place mutation of an operands list anywhere, no in-place operator dunder returning self. Every arity an operator's meaning allows is translated (up to 3), and 13 nested trees are translated and compared with their meaning. Every scalar dunder is also applied to compound receivers and operands built with the library's own operators (comparisons, &, |, ^, ==, ~, x - y, x + y, -x). Constraints that convert to Python constants are driven through add_constraint and solve(): a False must reach z3 or the answer be False. (Z3M-5) alldifferent over constants only is decided by the translation itself (z3.Distinct refuses a list without a z3 term). (VID-6) Solver.int_var / bool_array / int_array declare exactly the variables, domains, order, array class and shape the call names."
        ),
        note="Trusted: z3 itself and its coercion of Python literals; the E8 evaluator and the reference table REF in sa/rules/exprmodel.py.",
        technique="static analysis: construction-site enumeration + finite-domain abstract evaluation of translator handlers (ast)",
        ref="DESIGN.md §3 C01",
    ),
    "C13": dict(
        text=(
            "Decides C13 for the array classes as far as the structure of the code determines it: (SLC-V) the slice "
            "normaliser only compares start/stop/size with unit coefficients, so it is piecewise linear with a known "
            "finite breakpoint family; (SLC-G) __getitem__ of the four array classes, flatten and reshape are "
            "evaluated by the checker's own abstract evaluator on symbolic element tags for every key of a grid "
            "that covers every region of that breakpoint family (all ints and all start/stop in [-n-2, n+2] and "
            "None, steps None,+-1,+-2,+-3, for axis lengths 0..4, plus coordinate lists) and must select exactly "
            "what Python's list-of-lists indexing selects, with the same shape and the same IndexError/ValueError "
            "behaviour; (SLC-2) _range_size is proved to be ceil(distance/|step|) symbolically for every step, zero "
            "step rejected; (SLC-3) the gather offset is row * shape[1] + col (local aliases read through). When _range_size is not written as the catalogued sign split it is decided on a grid against len(range()) instead (weaker, said in the evidence). Arrays built from nested lists have the inferred shape and row-major order, len() counts rows, ragged/empty input raises ValueError. Every scalar pair in [-n-2, n+1]^2 and scalar x slice pairs are evaluated through each class's own __getitem__ wrapper (the wrappers are not shared even where _getitem_impl is)."
        ),
        note="Trusted: the abstract evaluator (sa/core/fde.py, classworld.py); Python's own slicing as the specification; the small-model argument in DESIGN.md C13 (steps beyond +-3 are covered by SLC-2/SLC-3 only).",
        technique="static analysis: vocabulary check + finite-domain abstract evaluation of __getitem__ + symbolic ceiling-division identity (ast)",
        ref="DESIGN.md §3 C13",
    ),
    "C12": dict(
        text=(
            "Decides C12 operator-by-operator by finite-domain abstract evaluation of the source: (OPC-6/6A) every "
            "operator dunder, then and cond of BoolExpr, IntExpr and the four array classes is evaluated on abstract "
            "leaves for (array, array), (array, scalar), (array, literal) operands; the result must be an array of the "
            "same shape whose element i has the reference denotation A[i] op B[i] with operand order preserved, for all "
            "truth assignments / all order patterns / symbolic integers; (TYP) wrong-kind expressions, arrays and Python "
            "literals and mis-shaped arrays must be rejected (NotImplemented from dunders, an exception elsewhere); "
            "(OPC-5) is_bool_op, is_int_op, _make_bool_expr, _make_int_expr and _elementwise accept exactly each operator's "
            "reference signature (all kind vectors up to arity 3); (OPC-7/AGG) count_true, fold_or, fold_and, alldifferent "
            "on every mix of literals, expressions, arrays and nestings up to 3 items incl. empty forms, and over arrays of every shape with axis lengths 0..3 (function and method forms); conv2d windows and "
            "shapes; then / cond with the array in every operand position of the function forms and scalar-receiver methods; four_neighbors = in-bounds orthogonal neighbours with sibling order agreement, also after the caller edited the list it got (no result object shared between calls; functools.lru_cache is modelled). OPC-6A also passes operands whose elements are compound expressions of the same family built with the library's own operators (A op (B - C), A op (B + C), A op (B & C), A op (B | C))."
        ),
        note="Trusted: the abstract evaluator and the reference table REF; the element kernel is uniform in the element index (two-element arrays) and conv2d/four_neighbors are judged on arrays up to 3x3/2x4.",
        technique="static analysis: finite-domain abstract evaluation of operator methods against a reference denotation (ast)",
        ref="DESIGN.md §3 C12",
    ),
    "C03": dict(
        text=(
            "Decides the writer/reader agreement clauses of the text protocol: the println templates of both modes are "
            "extracted from the Java reference wrapper and instantiated into replies; SugarLikeBackend's writers and "
            "readers are evaluated abstractly against them: (SGR-1) one distinct name per (sort, id) shared by declaration, "
            "reference and key writers, domains printed lo hi; (OPC-4) every producible operator, natives included, prints "
            "as (<Sugar grammar name> operands...) with all operands for every producible arity, literals/constants as "
            "atoms; (SGR-2/3) SAT/UNSAT lines and assignment lines of both modes are parsed into the right variables with "
            "bool/int types, undecided keys stay None, and replies sent in sequence to one backend (facts, fewer facts, unsat) each replace what the one before left in sol; (SGR-4/5) description = declarations, constraints, key line naming "
            "exactly the registered keys in the syntax the wrapper parses; (SGR-6) native operators' operand layout and "
            "length guards; (SGR-7) name -> class -> external entry point. Conversions run in sequence under a model of id() in which the addresses of a finished conversion's temporaries are reused; 16 nested trees are printed and the text, read back with the Sugar grammar (n-ary +, left-associated -), must mean what the tree means. Constraints are posted one at a time and in batches in any interleaving (single, batch, literal, batch): all stay posted, in order; a backend over variables whose list order differs from their ids names the keys by position. Not decided: the external solvers."
        ),
        note="Trusted: CspuzSugarInterface.java as the definition of the wire format; the Sugar grammar name table in sa/rules/c03.py; pycsugar/enigma_csp/cspuz_core share that format.",
        technique="static analysis: Java println-template extraction + abstract evaluation of printer/parsers (ast, regex)",
        ref="DESIGN.md §3 C03",
    ),
    "C02": dict(
        text=(
            "(REF-E, the deciding rule) Solver.solve - with whatever private helpers or helper classes of solver.py it calls - is "
            "interpreted by the analyser against a scripted backend that enumerates a chosen finite model set in a chosen order "
            "(the posted constraints are the DSL's own trees, evaluated with C01's reference meanings): every model set of size 0..3 "
            "over (bool, int[, bool]) variables x every enumeration order x every answer-key mask, with non-models first in the "
            "enumeration, fresh integer objects, falsy values, a backend that keeps and one that clears `sol` on UNSAT; demotion chains "
            "whose length comes from the integer literals of the code (iteration caps); native-route pass-through. The verdict and "
            "every key's sol must be exactly the common value or None; a deterministic non-terminating round is a violation too. "
            "The step from these scenarios to all programs rests on the code inspecting values one index at a time through != and "
            "`is None`, established by the catalogued loop shape (REF-1..5, guard facts and def-use) or, for a differently written "
            "loop, by a uniformity vocabulary over all reachable code (REF-V); neither alone can raise a violation. (REF-6) the "
            "native/fallback partition of the six backends through the class hierarchy equals the property's; (REF-7 = SGR-2..5) "
            "deduction-mode replies built from the Java wrapper's templates are parsed correctly; REF-E also covers programs with no variable or one variable; (VID-5) every form of add_answer_key's argument (nestings, one-shot iterables, whole arrays and array views: strided and reversed slices, columns, sub-rectangles, elements, two successive calls) registers every variable. Not decided: that "
            "refute-and-resolve computes the intersection of all models (the idea itself), the external solvers."
        ),
        note="Trusted: the refute-and-resolve idea; the Java wrapper as format definition; the uniformity argument that carries the finite scenarios to all programs. A loop that is neither in the catalogued shape nor inside the REF-V vocabulary makes the check exit 2, not pass.",
        technique="static analysis: abstract interpretation of Solver.solve against scripted backend models; typestate/shape rules and a vocabulary rule over guard facts and def-use; class-hierarchy resolution (ast)",
        ref="DESIGN.md §3 C02",
    ),
    "C20": dict(
        text=(
            "All clauses of C20 are finite and are enumerated exhaustively by abstract evaluation of the configuration, "
            "dispatch and gating code: (CFG-3) _detect_backend on all 16 subsets of importable modules; (CFG-6) _strtobool "
            "accepts exactly true/1/false/0 up to case, ValueError otherwise; (CFG-5) Config() for ~1000 combinations of "
            "CSPUZ_DEFAULT_BACKEND, both primitive flags (unset/valid/invalid), importable-module sets and infer_from_env: "
            "default backend, both defaults on exactly for supporting backends, strict overrides; (CFG-1) _get_backend: "
            "explicit argument wins, None reads config.default_backend at call time, all six names resolve to their classes, "
            "unknown names raise ValueError, find_answer/solve pass their own argument; (CFG-4) every graph function with a "
            "native route emits native operators exactly when argument-else-config (set after import) says so, never for "
            "acyclic connectivity, division variant governed by its own flag, path form raises when off. CFG-3 also covers modules that are installed but fail to import (absent / broken / importable: 81 combinations): only importable ones count. find_answer/solve are run with natively deducing backends and with backends that fall back to the refinement loop (NotImplementedError, then sat, then unsat): exactly one backend object, of the class the call names. (REF-6) the class each name resolves to takes its own deduction route (native / refute-and-resolve), not one inherited from a sibling class."
        ),
        note="Trusted: the abstract evaluator; importability modelled as ImportError from the import statement.",
        technique="static analysis: exhaustive finite-domain abstract evaluation of configuration/dispatch/gating code (ast)",
        ref="DESIGN.md §3 C20",
    ),
    "C14": dict(
        text=(
            "Decides the accessor geometry of C14 against an independent lattice model (h(r,c) joins points (r,c)-(r,c+1), "
            "v(r,c) joins (r,c)-(r+1,c)): (ALG-V) the guards of __getitem__, cell_neighbors, vertex_neighbors and "
            "_from_grid_frame are affine comparisons with small integer coefficients plus parity tests, so behaviour is "
            "piecewise affine in (coordinate, height, width); (ALG-1..5) each accessor is evaluated abstractly on symbolic "
            "edge variables for all frame sizes 0..3 x 0..3 and all coordinates in a margin of 2 around the frame: the edge "
            "returned / the IndexError raised must be exactly what the model gives; cell_neighbors = the 4 bounding edges, "
            "vertex_neighbors = the incident edges, all_edges/iteration/dual iteration share one order, the lattice graph "
            "attaches each variable to the segment it sits on, dual swaps the arrays, dual(dual) is the original frame, default "
            "shapes agree, inner-frame borders land between the cells they separate."
        ),
        note="Trusted: the abstract evaluator; the small-model argument (affine guards with breakpoints within the evaluated margin).",
        technique="static analysis: guard-vocabulary check + finite-domain abstract evaluation of the accessors against a lattice model (ast)",
        ref="DESIGN.md §3 C14",
    ),
    "C15": dict(
        text=(
            "Decides round-trip clauses of C15 by abstract evaluation of the combinators' own serialize/deserialize code "
            "on boundary-value grids that are computed from the code: the integer grid of HexInt is the set of constants its "
            "branches compare against +-1, run-length grids come from each Spaces/IntSpaces instance's own limits (max-1, max, "
            "max+1, 2max, 2max+1), MultiDigit sequences include every partial trailing group, boards include 1x1, 1xN, Nx1 and "
            "5x9 (runs beyond one character), Grid with environment and explicit (incl. zero) sizes; every produced text is "
            "followed by junk so that exact consumption is decided. Rooms/ValuedRooms: every connected partition of the boards "
            "1x1..3x2 (enumerated), in three room/cell orderings, must come back as the same partition in canonical order with "
            "each value attached to the same room. Every round trip is repeated with the text behind other characters and with the value at "
            "position 1 of its value list, and one Grid / Rooms / ValuedRooms object is re-used for boards of seven sizes in sequence. (CDC-2) Optional[int] combinator attributes are never tested by truthiness. "
            "Not decided: values far from any breakpoint in compositions not exercised here."
        ),
        note="Trusted: the abstract evaluator; Python's hex/int/str; the boundary-value small-model argument (branch selection only depends on comparisons with the extracted constants).",
        technique="static analysis: constant/breakpoint extraction + finite-domain abstract evaluation of serialize/deserialize pairs (ast)",
        ref="DESIGN.md §3 C15",
    ),
    "C16": dict(
        text=(
            "Decides C16 per module by abstract evaluation of the codec functions: (URL-RT) for nurikabe, masyu, slitherlink, "
            "sudoku, nurimisaki, yajilin (all clue kinds incl. '??'), heyawake, lits, norinori and compass (to_/parse_), "
            "decode(encode(p)) == p with dimensions on non-square boards (2x3, 3x2, 1x4, 4x5, 3x7...) over value families at "
            "the codecs' breakpoints and over enumerated room partitions in two orderings; wrong puzzle names rejected; "
            "(URL-HDR) every produced URL, incl. aquarium and star_battle, is name/width/height/body; (URL-REF) an independent "
            "reference decoder of the pzpr encodings (number16, 4-cell, base-3 circles, border bits, arrow numbers) written in "
            "the checker reads each body back as the same problem; (URL-LEG) util.encode_array / encode_grid_segmentation and "
            "the combinator codecs give identical text; (DK-5/6) writer format strings put width first, the regex reader binds "
            "group 2 to width and group 3 to height; (URL-W) the URL writers the module list omits (problem_to_pzv_url of nanro, nurimaze, slalom) "
            "raise nothing on non-square boards in both orientations, exchange no height/width role (row/column kind analysis incl. a row "
            "position bounded by the width) and are read back by reference decoders (border bits + number16; wall bits + S/G/circle/triangle "
            "cells; slalom cell kinds, gate-end black cells, clue section, origin). Not decided: problems outside the evaluated families."
        ),
        note="Trusted: the abstract evaluator; the reference decoders in sa/rules/pzpr_ref.py as a rendering of the published pzpr conventions.",
        technique="static analysis: abstract evaluation of codec pairs + independent reference decoder + format-order scan (ast)",
        ref="DESIGN.md §3 C16",
    ),
    "C17": dict(
        text=(
            "Decides C17 with a static may-raise analysis of every function on the decode path (all Combinator.deserialize "
            "methods of problem_serializer and puzzle modules, deserialize_problem[_as_url], get_puzzle_info_from_url, every "
            "deserialize_*, compass.parse_puzz_link_url) plus a finite-quotient evaluation: (EXC-1) each non-slice subscript of "
            "the input text is proved in bounds by Fourier-Motzkin from the dominating guards and the entry contract "
            "0 <= idx <= len(data); (EXC-2) literal-dict subscripts have their key set proved inside the keys; (EXC-3) every "
            "assert is entailed by guards or is one of three listed internal invariants; (EXC-4) no direct recursion; (EXC-5) "
            "no division by an unguarded URL integer; (EXC-6) int() of a multi-character input slice only after "
            "character-class validation; (EXC-7) each leaf combinator, each bundled puzzle combinator, Rooms/heyawake on five "
            "boards, the URL entry points and the compass parser are evaluated on all short strings over one representative "
            "per character class: every outcome must be None, ValueError, or a value that serializes and decodes back to "
            "itself; each decoder is judged again as the second part of Tupl(FixStr('0'), .) and inside Seq(., 2) compositions. Same-module helpers that receive the input are analysed under an entry contract computed from their call sites; cursor-advancing helpers and one-line predicate helpers are summarised. (EXC-6V) the character-class validators the rules rely on are evaluated on all strings of length <= 2 over the character classes. A proof rule that fails without an EXC-7 witness makes the check exit 2, not 1. (compass.parse_puzz_link_url was repaired; no known findings remain.)"
        ),
        note="Trusted: the guard-fact walker and Fourier-Motzkin prover; the abstract evaluator; the character-class alphabet. Non-termination and memory are not decided.",
        technique="static analysis: may-raise analysis over guard facts with linear entailment + finite-quotient abstract evaluation (ast)",
        ref="DESIGN.md §3 C17",
    ),
    "C19": dict(
        text=(
            "Decides the structural clauses of C19: (RNG-1) import/name scan: inside cspuz/generator only srandom.py uses "
            "random/numpy.random/secrets/time/os.urandom and only deterministic_random.py touches its generator; (RNG-2) each "
            "srandom function forwards unchanged to the right backend for both flag values; (RNG-4) a bit-width abstract "
            "interpretation of XorShift.next proves inductively that all state words and the output stay below 2**32, and the "
            "domain constant equals that bound; (RNG-3) randint evaluated with a scripted generator at the block boundaries of "
            "seven intervals: accepted draws are exactly those below the largest multiple of the width, result a + x % w, "
            "empty/oversized intervals rejected; (RNG-6) shuffle maps the draw scripts of 0..4 items bijectively onto the "
            "permutations, choice indexes with randint(0, len-1); (RNG-7) random() = next()/2**32; equal seeds, equal streams; "
            "(GEN-1) generate_problem under all 3^4 x 2 x 2 scripted callback behaviours returns None or a problem whose own "
            "solver call was SAT and whose answer passed uniqueness; (GEN-2, PUR-2) every update ArrayBuilder2D proposes on 4 "
            "boards x 8 option sets keeps range, choice set, point symmetry and adjacency, and copy_with_update/neighbour "
            "generation never mutate or share rows with the previous problem. If a state word is not bounded for arbitrary seeds, XorShift(seed).next() is evaluated for seeds around 2**32 and an output outside [0, 2**32) is reported. The adjacency option is evaluated as a flag and as explicit offset lists (king moves, the 5x5 square). (RNG-10) seed(s) / draws / seed(t) / draws / seed(s) / draws over random, randint, choice, shuffle: the two seed-s sequences are equal (default arguments are computed once per function, as Python does); (RNG-9) the puzzle generators whose output bench/generator.py pins under the deterministic PRNG reach no use of Python's random / numpy.random / secrets (call graph inside the puzzle module). Not decided: xorshift's statistical quality."
        ),
        note="Trusted: the abstract evaluator; uniformity is argued from whole-block acceptance + a + x % w + the proven generator range.",
        technique="static analysis: import/name confinement scan, bit-width abstract interpretation, abstract evaluation with scripted generators/callbacks (ast)",
        ref="DESIGN.md §3 C19",
    ),
    "C18": dict(
        text=(
            "Decides C18 in two layers: (SEG-G, all board sizes) guard facts at each update site of candidates() entail the "
            "post-update bounds by linear entailment: merge needs num_blocks > min_num_blocks and len(i)+len(j) <= max_block_size, "
            "split needs num_blocks < max_num_blocks and both halves >= min_block_size, each of the four move forms needs donor "
            "> min, receiver < max, the connectivity test applied to the donor without exactly the moved cell, and the cell added "
            "is the cell removed; (SEG-E) abstract evaluation on 9 board/bound configurations x 3 draw scripts plus given initial_blocks (non-convex, out-of-order, one bound tight, and starts that break the upper count bound or the lower size bound, which initial() must walk into the bounds): from initial(), "
            "all proposed updates are applied breadth-first over the reachable values (state budget): every value is a partition "
            "of the board into orthogonally connected blocks within all bounds, and neither candidates() nor copy_with_update "
            "modifies the value it was applied to; (RNG-1) segmentation.py uses no ambient randomness; (SEG-S) split_block, for every connected block of at most 5 (thorough: 6) cells in a 3x3 board and every ordered pair of distinct seeds, returns two non-empty orthogonally connected parts that partition the block; (SEG-C) the donor-connectivity helper answers, for every connected block inside 3x3 / 2x4 / 1x4 boards, every removed cell and both listing orders, exactly whether the rest is orthogonally connected. Unmeetable bounds: initial() may give up by raising, never by returning a partition outside the bounds."
        ),
        note="Trusted: abstract evaluator, guard walker and Fourier-Motzkin prover. Boards up to 3x3 and three draw scripts stand for all boards/seeds in SEG-E; allow_unmet_constraints_first is the caller's choice and not evaluated.",
        technique="static analysis: guard-fact linear entailment at update sites + bounded abstract evaluation of update histories (ast)",
        ref="DESIGN.md §3 C18",
    ),
    "C11": dict(
        text=(
            "Decides structural necessary conditions of C11 for all 26 anchored solve_<puzzle> functions and the five solver modules the anchor list omits (firefly, magnets, nanro, nurimaze, slalom), not agreement with the "
            "published rules: each solver is evaluated abstractly (constraints are built as trees, Solver.solve replaced by a "
            "token) on non-square boards in both orientations (2x3, 3x2, 3x4, 4x3; n=2..4 for square-only puzzles) with clues in "
            "every corner and on the last row/column and with zero-valued clues: (AKR) the returned flag is this function's "
            "solver.solve() result (or a literal False), every returned container consists solely of this solver's variables that "
            "were registered as answer keys before solve(), derived expressions are never returned; (IDX-1) no computed index or "
            "slice bound is negative at any subscript (a silent wrap to the far edge: the 'clue in the first row/column' failure); "
            "(IDX-2 / DK) nothing raises: out-of-range subscripts and shape mismatches from exchanged height/width roles surface "
            "on at least one orientation. (PZ-X) For all thirty-one puzzles (firefly, simpleloop on instances whose pivot entry is consistent, magnets, nanro, nurimaze, slalom, heyawake, akari, "
            "nurikabe, norinori, yinyang, creek, star_battle, slitherlink, masyu, gokigen, aquarium, yajilin, putteria, fillomino, lits, building, doppelblock, compass, geradeweg, view, fivecells, nurimisaki, castle_wall, shakashaka; "
            "sudoku of order 2 and 3 through constraint-wise soundness plus pairwise refutation) the constraints the solver posts "
            "on tiny instances (three stacked rooms, clues on edges, 1xN boards, non-convex tanks, rooms whose cells are listed backwards) are decided for EVERY assignment "
            "of the answer variables (three-valued backtracking over the auxiliary variables; graph constraints posted as the native "
            "operators, whose meaning C04-C07 tie to the rank encodings) and the admitted answers must equal the grids that obey the "
            "rules as transcribed in sa/rules/pzx.py; with C02 this gives the property's statement on those instances."
        ),
        note="Trusted: the abstract evaluator; the fixture recipes in sa/rules/c11.py (problem formats read from each module); the rule transcriptions in sa/rules/pzx.py. For boards larger than 13 answer variables, what is constrained is not compared with the puzzle's rules. In the PZ-X world active_vertices_connected(acyclic=True) and the graph form of division_connected_variable_groups are replaced by definitional stand-ins (their rank encodings are what C04 / C07 decide).",
        technique="static analysis: abstract evaluation of constraint construction with strict index tracking and answer-key typestate (ast)",
        ref="DESIGN.md §3 C11",
    ),
    "C04": dict(
        text=(
            "Decides C04 relative to a reference schema: active_vertices_connected (acyclic off/on) is evaluated abstractly on eleven "
            "small graphs (single vertex, edge, edge plus isolated vertex, path, triangle, star with isolated vertex, square, two components, "
            "parallel edges, triangle plus isolated vertex, parallel edges plus isolated vertex), with the activity flags given as variables, "
            "with Python constants among them and as negated variables; every explicit Graph is looked at (all its properties and argument-less methods evaluated) before its last edge is added, so a value cached on the object would be stale; (ENC-H) seven calls (four graphs, three grid forms) alone and as a sequence repeated twice in one interpreter state post identical constraints - nothing is carried from call to call; "
            "the constraint trees it posts are canonicalised (commutativity, comparison direction, negation, count/threshold normal "
            "forms; rank domains compared by sufficiency >= n) and must equal the reference rank/root schema written in the checker "
            "(each active vertex has >=1 [==1 when acyclic, with distinct neighbour ranks] active strictly-lower neighbour or is "
            "the root; at most one root). A deviation is triaged by enumerating the projection onto is_active on the same graphs: "
            "a pattern wrongly admitted/rejected is reported as VIOLATION with that witness, otherwise the check is undecided "
            "(exit 2). Also: (ALG-6) _grid_graph and the BoolArray2D form = row-major orthogonal grid graph for seven shapes; "
            "(CFG-4) native operator exactly when configured, never when acyclic; (SGR-6) native operand layout and length guard."
        ),
        note="Trusted: the reference schema's exactness (argued in DESIGN.md C04) and uniformity of the encoding in the graph; the abstract evaluator; the external solver for the native operator. The projection enumeration is used only to triage a deviation, never to pass.",
        technique="static analysis: abstract evaluation + canonical-form comparison of the generated constraint schema against a reference schema (ast)",
        ref="DESIGN.md §3 C04",
    ),
    "C09": dict(
        text=(
            "Decides C09 relative to a reference schema (the design first declined this property; the schema-comparison engine "
            "built for C04 applies to it): active_edges_acyclic is evaluated abstractly on eight small multigraphs incl. parallel "
            "edges; the canonicalised constraint set must equal the reference (every vertex has at most one active edge to a "
            "strictly lower-ranked neighbour; adjacent ranks pairwise distinct; at least n rank values). A deviation is triaged by "
            "enumerating its projection onto the edge flags against the forests of the same graph: a wrongly admitted/rejected edge "
            "set is reported as VIOLATION with that witness, otherwise undecided (exit 2)."
            " (ENC-H) the function is evaluated on seven calls alone and as a sequence repeated twice in one interpreter state: identical constraints both times (nothing is carried from call to call)."
        ),
        note="Trusted: exactness of the reference schema (DESIGN.md C09) and uniformity of the encoding in the graph; the abstract evaluator.",
        technique="static analysis: abstract evaluation + canonical-form comparison of the generated constraint schema against a reference schema (ast)",
        ref="DESIGN.md §3 C09",
    ),
    "C05": dict(
        text=(
            "Decides C05 relative to reference schemas, for both routes and for division given as IntArray1D or as a plain list: "
            "division_connected is evaluated abstractly on the small graphs (<= 4 vertices) x {1, 2} regions x allow_empty_group x "
            "roots lists with None entries; the canonicalised constraint set must equal the spanning-forest schema (forest edges "
            "join equal labels with different ranks; each non-root has exactly one lower forest neighbour; exactly/at most one "
            "root per label; listed roots carry their label and are forest roots) resp. the primitive schema (one indicator array "
            "per label tied to label equality, native connectivity of each, non-emptiness unless allowed, root labels). Deviations "
            "are triaged by enumerating the projection onto the labels against the graph-theoretic definition (VIOLATION with a "
            "witness labelling, else undecided). (ALG-10) grid form: (y, x) roots become y*width+x on the row-major grid graph, "
            "integer roots rejected; root lists given as list, tuple and one-shot iterable (compass.py passes a map object)."
            " (ENC-H) the function is evaluated on seven calls alone and as a sequence repeated twice in one interpreter state: identical constraints both times (nothing is carried from call to call)."
        ),
        note="Trusted: exactness of the reference schemas (DESIGN.md C05), uniformity in the graph; abstract evaluator; documented meaning of the native operator.",
        technique="static analysis: abstract evaluation + canonical-form comparison of the generated constraint schema against a reference schema (ast)",
        ref="DESIGN.md §3 C05",
    ),
    "C06": dict(
        text=(
            "Decides C06 relative to reference schemas: active_edges_single_cycle (auxiliary and primitive route) and "
            "active_edges_single_path (primitive route) are evaluated abstractly on eight small multigraphs; the canonicalised "
            "constraint set must equal the reference (degree = passed ? 2 : 0 and the rank/root bound, exactly one root; resp. degree "
            "rules + native connectivity of the active edges in the line graph, whose vertex pairs are recomputed independently; for "
            "the path: degree in {1,2} iff passed, exactly two endpoints iff some edge is active) and the returned array must be the "
            "passed-vertex flags. Deviations are triaged by enumerating the projection onto (edge flags, passed flags) against "
            "'empty, or exactly one simple cycle/path with its visited vertices' (VIOLATION with witness, else undecided). (ALG-9) "
            "frame form on 1x1, 1x2, 2x1 frames: same schema on the lattice graph of _from_grid_frame, result reshaped to "
            "(height+1, width+1); plus the C14 accessor rules (ALG-1..5)."
            " (ENC-H) the function is evaluated on seven calls alone and as a sequence repeated twice in one interpreter state: identical constraints both times (nothing is carried from call to call)."
        ),
        note="Trusted: exactness of the reference schemas (DESIGN.md C06), uniformity in the graph; abstract evaluator; documented meaning of the native operator.",
        technique="static analysis: abstract evaluation + canonical-form comparison of the generated constraint schema against a reference schema (ast)",
        ref="DESIGN.md §3 C06",
    ),
    "C07": dict(
        text=(
            "Decides C07 relative to reference schemas: division_connected_variable_groups (group_size absent, constant, per-vertex "
            "list with None holes) and the _with_borders variant (auxiliary and primitive route) are evaluated abstractly on the "
            "small graphs (<= 4 vertices); the canonicalised constraint set must equal the reference (root <=> rank 0, a root's id is "
            "its own index, tree edges join different ranks / equal ids / equal totals, each non-root has exactly one lower tree "
            "neighbour, downstream-size accounting with +1, roots' downstream = total, totals pinned to the requested sizes; border "
            "flag <=> different ids; resp. one graph-division operator with the documented layout) and the group-id array must be "
            "the one returned. Deviations are triaged by enumerating the projection onto the group ids / border flags against the "
            "set of valid partitions (VIOLATION with witness, else undecided; on six-cell boards partition by partition). The grid forms (shape=, shape + constant size, 2-D size table) are compared with the reference schema on the row-major grid graph of 2x3, 3x2, 1x3 and 2x2 boards. (ALG-4D) grid form on four boards: each border "
            "variable of the inner frame is attached to the edge between the two cells it separates, sizes row-major; plus native "
            "gating (CFG-4) and operand layout/length guards (SGR-6)."
        ),
        note="Trusted: exactness of the reference schema (DESIGN.md C07), uniformity in the graph; abstract evaluator; documented meaning of graph-division.",
        technique="static analysis: abstract evaluation + canonical-form comparison of the generated constraint schema against a reference schema (ast)",
        ref="DESIGN.md §3 C07",
    ),
    "C08": dict(
        text=(
            "Decides C08 relative to reference schemas: (i) active_vertices_not_adjacent posts exactly one exclusion per edge on "
            "eight graphs, and on seven grid shapes (1x1, 1xN, Nx1, square and non-square) its shifted-slice form excludes exactly "
            "the pairs that are edges of the row-major grid graph; (ii) the graph form of ..._and_not_segmenting is not_adjacent "
            "plus the C04 connectivity schema applied to the negated flags on the same graph; (iii) the grid form posts the "
            "reference diagonal-rank schema (rank range sufficient, border cells forced roots, at most one strictly lower active "
            "diagonal neighbour, distinct diagonal ranks). Deviations are triaged by enumerating the projection onto the flags "
            "against 'no two adjacent active, inactive connected' on the same grid graph, which also decides agreement between "
            "the grid specialisation and the explicit-graph form (VIOLATION with witness, else undecided). (ALG-6) grid graph."
            " (ENC-H) the function is evaluated on seven calls alone and as a sequence repeated twice in one interpreter state: identical constraints both times (nothing is carried from call to call)."
        ),
        note="Trusted: exactness of the diagonal-rank reference schema (DESIGN.md C08); abstract evaluator.",
        technique="static analysis: abstract evaluation + canonical-form comparison of the generated constraint schema against a reference schema (ast)",
        ref="DESIGN.md §3 C08",
    ),
    "C10": dict(
        text=(
            "Decides C10 in three semantic parts on small frames: (FDT-1) for corner, edge and interior lattice points of a 2x2 "
            "frame the constraints that only mention that point are evaluated on all (segment flags, visited, crossing) "
            "assignments: the admitted (degree, visited, crossing) triples must be exactly {(0,F,F), (1|2,T,F) [2 only for a cycle], "
            "(4,T,T) interior only}; the function returns the (visited, crossing) arrays of the lattice's shape, also through "
            "active_edges_single_cycle_crossable; (SPLIT) the node list and the graph handed to active_vertices_connected are "
            "captured, the node flags are computed from their defining equivalences, and for every degree-admissible segment subset "
            "of the 1x1, 1x2 and 2x2 frames (about 4000) 'active nodes connected in the split graph' must equal 'all active segments "
            "lie on one strand with straight pass-through at 4-way points' (graph search on the captured structure, so a consistent "
            "swap of the two pass-through halves is accepted); the connectivity constraint itself is C04's schema; (ENC-S) the whole "
            "constraint set equals the reference schema (informational when FDT-1 and SPLIT decide); (CFG-4) native gating. SPLIT also evaluates the frames one after the other in ONE interpreter state (a frame, its transpose with the same node count, ...): the split graph must be the one a fresh state gives."
        ),
        note="Trusted: the abstract evaluator; C04's connectivity schema for the sub-call; frames up to 2x2 stand for all sizes (the construction is uniform per point/segment).",
        technique="static analysis: abstract evaluation, finite-domain table evaluation of local constraints, graph search on the captured split graph (ast)",
        ref="DESIGN.md §3 C10",
    ),
}

NOT_APPLICABLE = {
}

NOT_BUILT = "static rules designed in DESIGN.md §3 but not built yet; not claimed on the strength of the design"
