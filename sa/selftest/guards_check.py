"""Self-check of the guard-fact engine (sa/core/guards.py, linear.py), the engine behind C17's EXC-1/3/5, C18's SEG-G and C13's SLC-2.

1. translation: random Python conditions over integer names a, b, c (comparisons incl. chained ones, and/or/not, min/max, + - * // %
   with constants, len-free) are assumed true / false through `Facts.assume`; on every integer assignment of a grid on which Python
   evaluates the condition to that truth value, every recorded linear fact must hold (>= 0) and every recorded disequality be non-zero
   (opaque symbols such as `(a)//(2)` are given their Python value).  A violated fact means a guard is read as something it does not say.
2. entailment: random linear systems and goals; whenever `Prover.ge0` says the goal follows, no assignment of the grid may satisfy the
   facts and violate the goal.

A failure makes every proof of the engine worthless: the checks that rely on it refuse to give a verdict (AnalysisError -> exit 2)."""

from __future__ import annotations

import ast
import itertools
import random
from fractions import Fraction
from typing import Any, Dict, List, Optional

from ..core import guards as G
from ..core import linear as L

NAMES = ["a", "b", "c"]


def _term(rnd: random.Random, d: int) -> str:
    r = rnd.random()
    if d == 0 or r < 0.35:
        return rnd.choice(NAMES) if rnd.random() < 0.7 else str(rnd.randint(0, 3))
    if r < 0.6:
        return f"({_term(rnd, d - 1)} {rnd.choice(['+', '-'])} {_term(rnd, d - 1)})"
    if r < 0.7:
        return f"({rnd.randint(2, 3)} * {_term(rnd, d - 1)})"
    if r < 0.8:
        return f"({_term(rnd, d - 1)} {rnd.choice(['//', '%'])} {rnd.randint(2, 3)})"
    if r < 0.9:
        return f"{rnd.choice(['min', 'max'])}({_term(rnd, d - 1)}, {_term(rnd, d - 1)})"
    return f"(-{_term(rnd, d - 1)})"


def _cond(rnd: random.Random, d: int) -> str:
    r = rnd.random()
    ops = ["<", "<=", ">", ">=", "==", "!="]
    if d == 0 or r < 0.45:
        if rnd.random() < 0.2:
            return f"{_term(rnd, 1)} {rnd.choice(ops[:4])} {_term(rnd, 1)} {rnd.choice(ops[:4])} {_term(rnd, 1)}"
        return f"{_term(rnd, 2)} {rnd.choice(ops)} {_term(rnd, 2)}"
    if r < 0.6:
        return f"(not {_cond(rnd, d - 1)})"
    return f"({_cond(rnd, d - 1)} {rnd.choice(['and', 'or'])} {_cond(rnd, d - 1)})"


def _value(form: L.Form, env: Dict[str, int]) -> Optional[Fraction]:
    tot = Fraction(0)
    for k, v in form.items():
        if not isinstance(k, str):
            tot += v
            continue
        try:
            x = eval(k, {"min": min, "max": max, "len": len}, dict(env))  # symbols are normalised Python expressions over a, b, c
        except Exception:
            # canonical product / division symbols: "a*b", "(1*a+0)//(2)"
            try:
                x = eval(k.replace("1*", "1*"), {"min": min, "max": max}, dict(env))
            except Exception:
                return None
        tot += v * x
    return tot


def run(seed: int = 0, rounds: int = 300) -> Optional[str]:
    rnd = random.Random(seed)
    grid = [dict(zip(NAMES, vs)) for vs in itertools.product(range(-3, 5), repeat=3)]
    # ---- 1. translation of conditions -----------------------------------------------------------
    for _ in range(rounds):
        text = _cond(rnd, 2)
        tree = ast.parse(text, mode="eval").body
        for pol in (True, False):
            facts = G.Facts().assume(tree, pol)
            for env in grid:
                try:
                    truth = bool(eval(text, {"min": min, "max": max}, dict(env)))
                except ZeroDivisionError:
                    continue
                if truth != pol:
                    continue
                for f in facts.lin:
                    v = _value(f, env)
                    if v is not None and v < 0:
                        return f"assume({text!r}, {pol}) records the fact {L.show(f)} >= 0, which is false at {env} although the condition is {pol} there"
                for f in facts.neq:
                    v = _value(f, env)
                    if v is not None and v == 0:
                        return f"assume({text!r}, {pol}) records {L.show(f)} != 0, which is false at {env} although the condition is {pol} there"
    # ---- 2. entailment ------------------------------------------------------------------------
    def form() -> L.Form:
        f: L.Form = L.const(rnd.randint(-4, 4))
        for nm in rnd.sample(NAMES, rnd.randint(1, 3)):
            f = L.add(f, L.scale(L.sym(nm), rnd.choice([-2, -1, 1, 1, 2])))
        return f

    for _ in range(rounds):
        fs = [form() for _ in range(rnd.randint(1, 4))]
        goal = form()
        neqs = [form()] if rnd.random() < 0.3 else []
        pr = G.Prover(G.Facts(lin=fs, neq=neqs))
        if not pr.ge0(goal):
            continue
        for env in grid:
            if all((_value(f, env) or 0) >= 0 for f in fs) and all(_value(n, env) != 0 for n in neqs) and (_value(goal, env) or 0) < 0:
                return (f"Prover says {[L.show(f) for f in fs]} (>= 0){' and ' + L.show(neqs[0]) + ' != 0' if neqs else ''} entail {L.show(goal)} >= 0, "
                        f"but {env} satisfies the facts and not the goal")
    return None


def engine_selfcheck(rep: Any) -> None:
    from ..core.loader import AnalysisError

    msg = run(seed=getattr(rep, "seed", 0) or 0, rounds=30 if rep.tier != "thorough" else 300)
    if msg:
        raise AnalysisError(f"guard-fact engine self-check failed: {msg}")
    rep.extra["guard_engine_selfcheck"] = ("random conditions: every fact recorded by Facts.assume holds wherever Python gives the condition "
                                           "that truth value; random linear systems: Prover.ge0 never claims a goal that an integer point refutes")
