"""Self-check of the projection engine (encodings.K3 / Extender: three-valued + interval evaluation under partial assignments,
component splitting, backtracking over auxiliary variables) against the reference denotation of the operators (exprmodel.REF) by
brute force: random constraint sets over two caller variables and three auxiliary variables (booleans and small integer domains) are
built directly as operator trees; `Extender.sat(user assignment)` must say True exactly when some assignment of the auxiliary variables
makes every constraint denote True.  Nothing of the repository is consulted.  A difference makes every triage witness, ENC-X and PZ-X
verdict worthless: the checks refuse to give a verdict (AnalysisError -> exit 2)."""

from __future__ import annotations

import itertools
import random
from typing import Any, Dict, List, Optional

from ..core.fde import Obj, Tag
from ..rules import encodings as E
from ..rules import exprmodel as EM


def _var(kind: str, vid: int) -> Obj:
    if kind == "b":
        return Obj(["BoolVar", "BoolExpr", "Expr"], id=vid, op=Tag("Op.VAR"), operands=[])
    return Obj(["IntVar", "IntExpr", "Expr"], id=vid, op=Tag("Op.VAR"), operands=[])


def _node(kind: str, op: str, xs: List[Any]) -> Obj:
    return Obj(["BoolExpr" if kind == "b" else "IntExpr", "Expr"], op=Tag("Op." + op), operands=list(xs))


class _Inst:
    def __init__(self, doms: Dict[int, List[Any]], cons: List[Any]):
        self._d, self._c = doms, cons

    def domains(self) -> Dict[int, List[Any]]:
        return self._d

    def constraints(self) -> List[Any]:
        return self._c


def _denote(v: Any, val: Dict[int, Any]) -> Any:
    if isinstance(v, Obj) and v.attrs["op"].name.endswith("VAR"):
        return val[v.attrs["id"]]
    if isinstance(v, Obj):
        op = v.attrs["op"].name.split(".")[-1]
        xs = [_denote(o, val) for o in v.attrs["operands"]]
        return EM.REF[op]["f"](xs)
    return v


def run(seed: int = 0, rounds: int = 60) -> Optional[str]:
    rnd = random.Random(seed)
    for _ in range(rounds):
        doms: Dict[int, List[Any]] = {0: [False, True], 1: list(range(rnd.randint(-1, 0), rnd.randint(1, 2) + 1)),  # caller's
                                      2: [False, True], 3: [False, True], 4: list(range(0, rnd.randint(1, 3) + 1))}  # auxiliary
        bvars = [_var("b", i) for i in (0, 2, 3)]
        ivars = [_var("i", i) for i in (1, 4)]

        def gi(d: int) -> Any:
            r = rnd.random()
            if d == 0 or r < 0.35:
                return rnd.choice(ivars) if rnd.random() < 0.75 else rnd.randint(-1, 2)
            if r < 0.6:
                return _node("i", "ADD", [gi(d - 1) for _ in range(rnd.randint(2, 3))])
            if r < 0.75:
                return _node("i", "SUB", [gi(d - 1), gi(d - 1)])
            if r < 0.85:
                return _node("i", "NEG", [gi(d - 1)])
            return _node("i", "IF", [gb(d - 1), gi(d - 1), gi(d - 1)])

        def gb(d: int) -> Any:
            r = rnd.random()
            if d == 0 or r < 0.25:
                return rnd.choice(bvars) if rnd.random() < 0.85 else (rnd.random() < 0.5)
            if r < 0.5:
                return _node("b", rnd.choice(["EQ", "NE", "LE", "LT", "GE", "GT"]), [gi(d - 1), gi(d - 1)])
            if r < 0.6:
                return _node("b", "NOT", [gb(d - 1)])
            if r < 0.8:
                return _node("b", rnd.choice(["AND", "OR"]), [gb(d - 1) for _ in range(rnd.randint(1, 3))])
            if r < 0.9:
                return _node("b", rnd.choice(["IFF", "XOR", "IMP"]), [gb(d - 1), gb(d - 1)])
            return _node("b", "ALLDIFF", [gi(d - 1) for _ in range(rnd.randint(2, 3))])

        cons = [gb(2) for _ in range(rnd.randint(1, 4))]
        cons = [c for c in cons if isinstance(c, Obj)] or [bvars[0]]
        ext = E.Extender(_Inst(doms, cons), 1e9)  # type: ignore[arg-type]
        for u0, u1 in itertools.product(doms[0], doms[1]):
            try:
                got = ext.sat({0: u0, 1: u1})
            except Exception as ex:  # the engine must be able to decide everything it is given here
                return f"Extender.sat raises {type(ex).__name__}: {ex} on constraints {[E_show(c) for c in cons]}"
            want = any(all(_denote(c, {0: u0, 1: u1, 2: a, 3: b, 4: k}) is True for c in cons)
                       for a in doms[2] for b in doms[3] for k in doms[4])
            if got != want:
                return (f"Extender.sat says {got} for caller values ({u0}, {u1}) with domains {doms}, brute force over the auxiliary variables says {want}; "
                        f"constraints {[E_show(c) for c in cons]}")
    return None


def E_show(c: Any) -> str:
    if isinstance(c, Obj):
        op = c.attrs["op"].name.split(".")[-1]
        if op == "VAR":
            return f"v{c.attrs['id']}"
        return op + "(" + ", ".join(E_show(o) for o in c.attrs["operands"]) + ")"
    return repr(c)


def engine_selfcheck(rep: Any) -> None:
    from ..core.loader import AnalysisError

    msg = run(seed=getattr(rep, "seed", 0) or 0, rounds=40 if rep.tier != "thorough" else 400)
    if msg:
        raise AnalysisError(f"projection engine self-check failed: {msg}")
    rep.extra["projection_selfcheck"] = "Extender.sat == brute force over the auxiliary variables under the reference denotation, on random constraint sets"
