"""The self-validation corpus (see mutants.py).  One entry per rule instance class."""
from .mutants import mutant, variant

Z3 = "cspuz/backend/z3.py"
EXPR = "cspuz/expr.py"
CONS = "cspuz/constraints.py"

# ---- C01 ---------------------------------------------------------------------------------------
mutant("z3-le-strict", "C01", Z3, "return operands[0] <= operands[1]", "return operands[0] < operands[1]", "OPC-3")
mutant("z3-imp-swapped", "C01", Z3, "z3.Or(z3.Not(operands[0]), operands[1])", "z3.Or(operands[0], z3.Not(operands[1]))", "OPC-3")
mutant("z3-add-binary", "C01", Z3, """            ret = operands[0]
            for i in range(1, len(operands)):
                ret = ret + operands[i]
            return ret""", "            return operands[0] + operands[1]", "OPC-2")
mutant("z3-sub-from-2", "C01", Z3, """            for i in range(1, len(operands)):
                ret = ret - operands[i]""", """            for i in range(2, len(operands)):
                ret = ret - operands[i]""", "OPC-3")
mutant("z3-drop-xor", "C01", Z3, """        elif e.op == Op.XOR:
            return z3.Xor(operands[0], operands[1])
""", "", "OPC-1")
mutant("z3-iff-as-xor", "C01", Z3, """        elif e.op == Op.IFF:
            return operands[0] == operands[1]""", """        elif e.op == Op.IFF:
            return operands[0] != operands[1]""", "OPC-3")
mutant("z3-if-swapped", "C01", Z3, "z3.If(operands[0], operands[1], operands[2])", "z3.If(operands[0], operands[2], operands[1])", "OPC-3")
mutant("z3-and-binary", "C01", Z3, "return z3.And(operands)", "return z3.And(operands[0], operands[1])", "OPC-2")
mutant("z3-neg-identity", "C01", Z3, "return -operands[0]", "return operands[0]", "OPC-3")
variant("z3-le-as-not-gt", "C01", Z3, "return operands[0] <= operands[1]", "return z3.Not(operands[0] > operands[1])")
variant("z3-iff-as-not-xor", "C01", Z3, """        elif e.op == Op.IFF:
            return operands[0] == operands[1]""", """        elif e.op == Op.IFF:
            return z3.Not(z3.Xor(operands[0], operands[1]))""")
variant("z3-imp-as-implies", "C01", Z3, "z3.Or(z3.Not(operands[0]), operands[1])", "z3.Implies(operands[0], operands[1])")
variant("z3-add-as-sum", "C01", Z3, """            ret = operands[0]
            for i in range(1, len(operands)):
                ret = ret + operands[i]
            return ret""", "            return z3.Sum(operands)")
mutant("expr-rsub-order", ["C01", "C12"], EXPR, "return _make_int_expr(Op.SUB, [other, self])", "return _make_int_expr(Op.SUB, [self, other])", "OPC-6")
mutant("expr-ge-as-gt", ["C01", "C12"], EXPR, "return _make_bool_expr(Op.GE, [self, other])", "return _make_bool_expr(Op.GT, [self, other])", "OPC-6")
mutant("expr-ne-as-iff", ["C01", "C12"], EXPR, """    def __ne__(self, other: BoolExprLike) -> "BoolExpr":  # type: ignore
        return _make_bool_expr(Op.XOR, [self, other])""", """    def __ne__(self, other: BoolExprLike) -> "BoolExpr":  # type: ignore
        return _make_bool_expr(Op.IFF, [self, other])""", "OPC-6")
mutant("expr-then-swapped", ["C01", "C12"], EXPR, "res = _make_bool_expr(Op.IMP, [self, cast(BoolExprLike, other)])", "res = _make_bool_expr(Op.IMP, [cast(BoolExprLike, other), self])", "OPC-6")
mutant("expr-cond-swapped", ["C01", "C12"], EXPR, "res = _make_int_expr(Op.IF, [self, cast(IntExprLike, t), cast(IntExprLike, f)])", "res = _make_int_expr(Op.IF, [self, cast(IntExprLike, f), cast(IntExprLike, t)])", "OPC-6")
variant("expr-rand-commuted", ["C01", "C12"], EXPR, "return _make_bool_expr(Op.AND, [other, self])", "return _make_bool_expr(Op.AND, [self, other])")
mutant("cons-count-true-const", ["C01", "C12"], CONS, """            if x is True:
                constant += 1
        elif isinstance(x, BoolExpr):
            operands.append(x.cond(1, 0))""", """            if x is True:
                constant = 1
        elif isinstance(x, BoolExpr):
            operands.append(x.cond(1, 0))""", "OPC-7")
mutant("cons-count-true-cond", ["C01", "C12"], CONS, "operands.append(x.cond(1, 0))", "operands.append(x.cond(0, 1))", "OPC-7")
mutant("cons-fold-and-empty", ["C01", "C12"], CONS, """    if len(operands) == 0:
        return BoolExpr(Op.BOOL_CONSTANT, [True])""", """    if len(operands) == 0:
        return BoolExpr(Op.BOOL_CONSTANT, [False])""", "OPC-7")
mutant("cons-fold-or-absorb", ["C01", "C12"], CONS, """            if x is True:
                return BoolExpr(Op.BOOL_CONSTANT, [True])""", """            if x is False:
                return BoolExpr(Op.BOOL_CONSTANT, [False])""", "OPC-7")
variant("cons-count-true-int", ["C01", "C12"], CONS, """            if x is True:
                constant += 1
        elif isinstance(x, BoolExpr):
            operands.append(x.cond(1, 0))""", """            constant += 1 if x else 0
        elif isinstance(x, BoolExpr):
            operands.append(x.cond(1, 0))""")
SOLVER = "cspuz/solver.py"
mutant("z3m-lo-strict", "C01", Z3, "solver.add(var.lo <= var_z3, var_z3 <= var.hi)", "solver.add(var.lo < var_z3, var_z3 <= var.hi)", "Z3M-1")
mutant("z3m-hi-missing", "C01", Z3, "solver.add(var.lo <= var_z3, var_z3 <= var.hi)", "solver.add(var.lo <= var_z3)", "Z3M-1")
mutant("z3m-bool-sol-skipped", "C01", Z3, """            if isinstance(var, BoolVar):
                var.sol = z3.is_true(model[var_z3])
            elif isinstance(var, IntVar):""", """            if isinstance(var, IntVar):""", "Z3M-2")
mutant("z3m-bool-negated", "C01", Z3, "var.sol = z3.is_true(model[var_z3])", "var.sol = not z3.is_true(model[var_z3])", "Z3M-2")
mutant("z3m-unsat-inverted", "C01", Z3, "if solver.check() == z3.unsat:", "if solver.check() != z3.unsat:", "Z3M-3")
mutant("z3m-constraints-dropped", "C01", Z3, "        solver.add(self.converted_constraints)\n", "", "Z3M-3")
mutant("z3m-same-name", "C01", Z3, 'z3.Bool("b" + str(id_last))', 'z3.Bool("b")', "Z3M-4")
mutant("z3m-addc-overwrite", "C01", Z3, "self.converted_constraints.append(_convert_expr(constraint, self.variables_dict))", "self.converted_constraints = [_convert_expr(constraint, self.variables_dict)]", "Z3M-4")
variant("z3m-two-adds", "C01", Z3, "solver.add(var.lo <= var_z3, var_z3 <= var.hi)", "solver.add(var.lo <= var_z3)\n                solver.add(z3.Not(var_z3 > var.hi))")
variant("z3m-name-by-id", "C01", Z3, 'z3.Bool("b" + str(id_last))', 'z3.Bool("b" + str(v.id))')
mutant("vid-id-const", "C01", SOLVER, "v = BoolVar(len(self.variables))", "v = BoolVar(len(self.constraints))", "VID-1")
mutant("vid-no-flag", "C01", SOLVER, """        v = IntVar(len(self.variables), lo, hi)
        self.variables.append(v)
        self.is_answer_key.append(False)""", """        v = IntVar(len(self.variables), lo, hi)
        self.variables.append(v)""", "VID-1")
mutant("vid-constraints-truncated", "C01", SOLVER, """        csp_solver = backend_type(self.variables)  # type: ignore
        csp_solver.add_constraint(self.constraints)
        return csp_solver.solve()""", """        csp_solver = backend_type(self.variables)  # type: ignore
        csp_solver.add_constraint(self.constraints[:-1])
        return csp_solver.solve()""", "VID-3")
mutant("vid-constraints-reset", "C01", SOLVER, """        csp_solver.add_constraint(self.constraints)
        return csp_solver.solve()""", """        csp_solver.add_constraint(self.constraints)
        self.constraints = []
        return csp_solver.solve()""", "VID-2")
mutant("vid-ensure-pop", "C01", SOLVER, """            if isinstance(x, (BoolExpr, bool)):
                self.constraints.append(x)""", """            if isinstance(x, (BoolExpr, bool)):
                self.constraints.append(x)
                if x is True:
                    self.constraints.pop()
                    self.constraints.pop()""", "VID-2")

# ---- C13 ---------------------------------------------------------------------------------------
ARRAY = "cspuz/array.py"
mutant("slc-handwritten-clamp", "C13", ARRAY, """        start, stop, step = key.indices(size)
        return False, start, stop, step""", """        start = key.start
        stop = key.stop
        step = key.step or 1
        if start is None:
            start = 0 if step > 0 else size - 1
        else:
            if start < 0:
                start += size
            start = min(max(0, start), size)
        if stop is None:
            stop = size if step > 0 else -1
        else:
            if stop < 0:
                stop += size
            stop = min(max(0, stop), size)
        return False, start, stop, step""", "SLC-G", "the original defect")
mutant("slc-range-size-floor", "C13", ARRAY, "return (stop - start + step - 1) // step", "return (stop - start + step) // step", "SLC-2")
mutant("slc-range-size-neg", "C13", ARRAY, "return (start - stop - step - 1) // (-step)", "return (start - stop - step) // (-step)", "SLC-2")
mutant("slc-stride-shape0", "C13", ARRAY, "data.append(self.data[y * self.shape[1] + x])", "data.append(self.data[y * self.shape[0] + x])", "SLC-3")
mutant("slc-int-neg-twice", "C13", ARRAY, """        if p < 0:
            p += size
        if not 0 <= p < size:""", """        if p < 0:
            p += size
        if not 0 <= p <= size:""", "SLC-G")
mutant("slc-shape-swapped", "C13", ARRAY, "return Array2D(data, (y_size, x_size))", "return Array2D(data, (x_size, y_size))", "SLC-G")
mutant("slc-1d-slice-copy", "C13", ARRAY, """        if isinstance(key, int):
            return self.data[key]
        else:
            return IntArray1D(self.data[key])""", """        if isinstance(key, int):
            return self.data[key]
        else:
            return IntArray1D(self.data[key][::-1][::-1][:len(self.data) - 1] if key.step is None and key.stop is None else self.data[key])""", "SLC-G")
mutant("slc-flatten-reversed", "C13", ARRAY, """    def flatten(self) -> IntArray1D:
        return IntArray1D(self.data)""", """    def flatten(self) -> IntArray1D:
        return IntArray1D(self.data[::-1])""", "SLC-G")
mutant("slc-reshape-transposed", "C13", ARRAY, 'return BoolArray2D(cast("List[BoolExpr]", data), cast("Tuple[int, int]", shape))', 'return BoolArray2D(cast("List[BoolExpr]", data), cast("Tuple[int, int]", shape[::-1]))', "SLC-G")
variant("slc-explicit-range", "C13", ARRAY, """        start, stop, step = key.indices(size)
        return False, start, stop, step""", """        r = key.indices(size)
        return False, r[0], r[1], r[2]""")
variant("slc-range-size-neg-form", "C13", ARRAY, "return (start - stop - step - 1) // (-step)", "return (start - stop + (-step) - 1) // (-step)")

# ---- C12 ---------------------------------------------------------------------------------------
mutant("arr-ge-as-gt", "C12", ARRAY, """    def __ge__(self, other: IntOperand2D) -> "BoolArray2D":
        return _elementwise(Op.GE, self.shape, [self, other])""", """    def __ge__(self, other: IntOperand2D) -> "BoolArray2D":
        return _elementwise(Op.GT, self.shape, [self, other])""", "OPC-6A")
mutant("arr-rsub-order", "C12", ARRAY, """    def __rsub__(self, other: IntOperand1D) -> "IntArray1D":
        return _elementwise(Op.SUB, self.shape, [other, self])""", """    def __rsub__(self, other: IntOperand1D) -> "IntArray1D":
        return _elementwise(Op.SUB, self.shape, [self, other])""", "OPC-6A")
mutant("arr-ne-as-iff", "C12", ARRAY, """    def __ne__(self, other: BoolOperand1D) -> "BoolArray1D":  # type: ignore
        return _elementwise(Op.XOR, self.shape, [self, other])""", """    def __ne__(self, other: BoolOperand1D) -> "BoolArray1D":  # type: ignore
        return _elementwise(Op.IFF, self.shape, [self, other])""", "OPC-6A")
mutant("arr-elementwise-first-only", "C12", ARRAY, "                expr_operands.append(operand.data[i])", "                expr_operands.append(operand.data[0])", "OPC-6A")
mutant("arr-shape-check-dropped", "C12", ARRAY, "            if operand.shape is not None and operand.shape != shape:", "            if operand.shape is None:", "TYP")
mutant("arr-int-like-bool", "C12", ARRAY, "return isinstance(value, (IntExpr, int, IntArray1D, IntArray2D)) and not isinstance(value, bool)", "return isinstance(value, (IntExpr, int, IntArray1D, IntArray2D))", "TYP", "the original defect")
mutant("arr-cond-unchecked", "C12", ARRAY, """    def cond(self, t: IntOperand1D, f: IntOperand1D) -> "IntArray1D":
        res = _elementwise(Op.IF, self.shape, [self, t, f])
        if res is NotImplemented:
            raise TypeError("unsupported argument type(s) for operator 'cond'")
        return res""", """    def cond(self, t: IntOperand1D, f: IntOperand1D) -> "IntArray1D":
        res = _elementwise(Op.IF, self.shape, [self, t, f])
        return res""", "TYP")
mutant("cons-then-unchecked", "C12", CONS, "        res = _make_bool_expr(Op.IMP, [x, y])", "        res = BoolExpr(Op.IMP, [x, y])", "TYP", "the original defect")
mutant("expr-is-bool-op-xor", "C12", EXPR, """        Op.IFF,
        Op.XOR,
        Op.IMP,
        Op.ALLDIFF,
    ]


def is_int_op""", """        Op.IFF,
        Op.IMP,
        Op.ALLDIFF,
    ]


def is_int_op""", "OPC-5")
mutant("expr-make-bool-imp-int", "C12", EXPR, "    elif op in [Op.AND, Op.OR, Op.IFF, Op.XOR, Op.IMP]:\n        if len(operands) != 2 or not all(map(_is_bool_expr_like, operands)):", "    elif op in [Op.AND, Op.OR, Op.IFF, Op.XOR, Op.IMP]:\n        if len(operands) != 2 or not _is_bool_expr_like(operands[0]):", "OPC-5")
mutant("arr-elementwise-if-2", "C12", ARRAY, """        if len(operands) != 3 or not (
            _is_bool_like(operands[0]) and _is_int_like(operands[1]) and _is_int_like(operands[2])
        ):""", """        if len(operands) != 3 or not (
            _is_bool_like(operands[0]) and _is_int_like(operands[1])
        ):""", "OPC-5")
mutant("arr-conv2d-window", "C12", ARRAY, "component = self[y : y + height, x : x + width]", "component = self[y : y + height, x : x + height]", "AGG")
mutant("arr-conv2d-shape", "C12", ARRAY, "r_width = max(0, self.shape[1] - width + 1)", "r_width = max(0, self.shape[1] - width)", "AGG")
mutant("arr-four-neighbors-guard", "C12", ARRAY, """    if y2 < height - 1:
        ret.append((y2 + 1, x2))""", """    if y2 < height:
        ret.append((y2 + 1, x2))""", "AGG")
mutant("arr-four-neighbors-order", "C12", ARRAY, """    if y2 > 0:
        ret.append(array[y2 - 1, x2])
    if y2 < height - 1:
        ret.append(array[y2 + 1, x2])""", """    if y2 < height - 1:
        ret.append(array[y2 + 1, x2])
    if y2 > 0:
        ret.append(array[y2 - 1, x2])""", "AGG")
mutant("arr-fold-or-as-and", "C12", ARRAY, """    def fold_or(self) -> BoolExpr:
        return BoolExpr(Op.OR, self.data)

    def fold_and(self) -> BoolExpr:
        return BoolExpr(Op.AND, self.data)

    @overload
    def __getitem__(self, key: int) -> BoolExpr: ...""", """    def fold_or(self) -> BoolExpr:
        return BoolExpr(Op.AND, self.data)

    def fold_and(self) -> BoolExpr:
        return BoolExpr(Op.AND, self.data)

    @overload
    def __getitem__(self, key: int) -> BoolExpr: ...""", "AGG")
variant("arr-rand-commuted", "C12", ARRAY, """    def __rand__(self, other: BoolOperand1D) -> "BoolArray1D":
        return _elementwise(Op.AND, self.shape, [other, self])""", """    def __rand__(self, other: BoolOperand1D) -> "BoolArray1D":
        return _elementwise(Op.AND, self.shape, [self, other])""")
variant("expr-is-bool-op-tuple", "C12", EXPR, "def is_int_op(op: Op) -> bool:\n    return op in [Op.INT_CONSTANT, Op.NEG, Op.ADD, Op.SUB, Op.IF]", "def is_int_op(op: Op) -> bool:\n    return op in (Op.IF, Op.INT_CONSTANT, Op.NEG, Op.ADD, Op.SUB)")
variant("arr-is-int-like-inline", "C12", ARRAY, "return isinstance(value, (IntExpr, int, IntArray1D, IntArray2D)) and not isinstance(value, bool)", "return not isinstance(value, bool) and (isinstance(value, (IntExpr, IntArray1D, IntArray2D)) or isinstance(value, int))")

# ---- C03 ---------------------------------------------------------------------------------------
SUGAR = "cspuz/backend/sugar_like.py"
JAVA = "sugar_extension/CspuzSugarInterface.java"
GRAPH = "cspuz/graph.py"
mutant("sgr-le-lt-swapped", "C03", SUGAR, '    Op.LE: "<=",\n    Op.LT: "<",', '    Op.LE: "<",\n    Op.LT: "<=",', "OPC-4")
mutant("sgr-iff-eq", "C03", SUGAR, 'Op.IFF: "iff",', 'Op.IFF: "eq",', "OPC-4")
mutant("sgr-if-missing", "C03", SUGAR, '    Op.IF: "if",\n', "", "OPC-4")
mutant("sgr-decl-name", "C03", SUGAR, 'return "(bool b{})".format(v.id)', 'return "(bool v{})".format(v.id)', "SGR-1")
mutant("sgr-int-name-collides", "C03", SUGAR, """    elif isinstance(e, IntVar):
        return "i{}".format(e.id)
    elif e.op == Op.BOOL_CONSTANT:""", """    elif isinstance(e, IntVar):
        return "b{}".format(e.id)
    elif e.op == Op.BOOL_CONSTANT:""", "SGR-1")
mutant("sgr-domain-swapped", "C03", SUGAR, 'return "(int i{} {} {})".format(v.id, v.lo, v.hi)', 'return "(int i{} {} {})".format(v.id, v.hi, v.lo)', "SGR-1")
mutant("sgr-operands-first-two", "C03", SUGAR, '" ".join(map(_convert_expr, e.operands))', '" ".join(map(_convert_expr, e.operands[:2]))', "OPC-4")
mutant("sgr-unsat-marker", "C03", SUGAR, 'if "UNSATISFIABLE" in out[0]:', 'if "SATISFIABLE" in out[0]:', "SGR-3")
mutant("sgr-answer-split-space", "C03", SUGAR, 'var, val = line[2:].strip().split("\\t")', 'var, val = line[2:].strip().split(" ")', "SGR-3")
mutant("sgr-answer-prefix", "C03", SUGAR, 'var, val = line[2:].strip().split("\\t")', 'var, val = line[3:].strip().split("\\t")', "SGR-3")
mutant("sgr-bool-as-int", "C03", SUGAR, """            var, val = line.split(" ")
            if val == "true":
                converted_val = True""", """            var, val = line.split(" ")
            if val == "true":
                converted_val = 1""", "SGR-3")
mutant("sgr-keys-all", "C03", SUGAR, """        for i in range(len(self.variables)):
            if is_answer_key[i]:
                if isinstance(self.variables[i], BoolVar):""", """        for i in range(len(self.variables)):
            if True:
                if isinstance(self.variables[i], BoolVar):""", "SGR-4")
mutant("sgr-key-sep", "C03", SUGAR, 'answer_keys_desc = "#" + " ".join(answer_keys)', 'answer_keys_desc = "#" + ",".join(answer_keys)', "SGR-4")
mutant("sgr-desc-no-constraints", "C03", SUGAR, """        csp_description = "\\n".join(self.converted_variables + self.converted_constraints)
        out = self._call_solver(csp_description).split("\\n")
        if "UNSATISFIABLE" in out[0]:""", """        csp_description = "\\n".join(self.converted_variables)
        out = self._call_solver(csp_description).split("\\n")
        if "UNSATISFIABLE" in out[0]:""", "SGR-5")
mutant("sgr-csugar-entry", "C03", SUGAR, """        import pycsugar  # type: ignore

        return pycsugar.solver(csp_description)""", """        import cspuz_core  # type: ignore

        return cspuz_core.solver(csp_description)""", "SGR-7")
mutant("sgr-java-tab", "C03", JAVA, 'System.out.println("a " + name + "\\t" + csp.getIntegerVariable(name).getValue());', 'System.out.println("a " + name + " " + csp.getIntegerVariable(name).getValue());', "SGR-3")
mutant("sgr-native-layout", "C03", GRAPH, """                [graph.num_vertices, len(graph)]
                + [is_active[i] for i in range(len(is_active))]  # type: ignore""", """                [len(graph), graph.num_vertices]
                + [is_active[i] for i in range(len(is_active))]  # type: ignore""", "SGR-6")
mutant("sgr-native-guard", "C03", GRAPH, """        if len(is_active) != graph.num_vertices:
            raise ValueError(
                "is_active must have the same number of items as that of vertices in graph"
            )
""", "", "SGR-6")
mutant("sgr-division-borders-first", "C03", GRAPH, """                + sum([[x, y] for x, y in graph.edges], [])  # type: ignore
                + [is_border[i] for i in range(len(is_border))],  # type: ignore""", """                + [is_border[i] for i in range(len(is_border))]  # type: ignore
                + sum([[x, y] for x, y in graph.edges], []),  # type: ignore""", "SGR-6")
variant("sgr-fstring", "C03", SUGAR, 'return "(bool b{})".format(v.id)', 'return f"(bool b{v.id})"')
variant("sgr-startswith", "C03", SUGAR, 'if "unsat" in out[0]:', 'if out[0].startswith("unsat"):')
variant("sgr-table-reordered", "C03", SUGAR, '    Op.NEG: "-",\n    Op.ADD: "+",', '    Op.ADD: "+",\n    Op.NEG: "-",')

# ---- C02 ---------------------------------------------------------------------------------------
mutant("ref-store-sol", "C02", SOLVER, """                    and answer[i] != self.variables[i].sol
                ):
                    answer[i] = None""", """                    and answer[i] != self.variables[i].sol
                ):
                    answer[i] = self.variables[i].sol""", "REF-1")
mutant("ref-demote-equal", "C02", SOLVER, "and answer[i] != self.variables[i].sol", "and answer[i] == self.variables[i].sol", "REF-1")
mutant("ref-cap", "C02", SOLVER, """            if not csp_solver.solve():
                break

            for i in range(n_var):""", """            if not csp_solver.solve():
                break
            if len(difference_cond) > 100:
                break

            for i in range(n_var):""", "REF-2")
mutant("ref-exit-inverted", "C02", SOLVER, """            csp_solver.add_constraint(BoolExpr(Op.OR, difference_cond))
            if not csp_solver.solve():
                break""", """            csp_solver.add_constraint(BoolExpr(Op.OR, difference_cond))
            if csp_solver.solve():
                break""", "REF-2")
mutant("ref-clause-and", "C02", SOLVER, "csp_solver.add_constraint(BoolExpr(Op.OR, difference_cond))", "csp_solver.add_constraint(BoolExpr(Op.AND, difference_cond))", "REF-3")
mutant("ref-clause-equal", "C02", SOLVER, "difference_cond.append(self.variables[i] != a)", "difference_cond.append(self.variables[i] == a)", "REF-3")
# non-keys never receive a candidate, so `a is not None` alone already restricts the clause to keys
variant("ref-clause-all-vars", "C02", SOLVER, """                if self.is_answer_key[i] and a is not None:
                    difference_cond.append(self.variables[i] != a)""", """                if a is not None:
                    difference_cond.append(self.variables[i] != a)""")
mutant("ref-clause-stale", "C02", SOLVER, """        while True:
            difference_cond = []
            for i in range(n_var):""", """        difference_cond = []
        while True:
            for i in range(n_var):""", "REF-3")
# the property speaks about answer keys only; a non-key variable ending as None is not a violation
variant("ref-writeback-all", "C02", SOLVER, """        for i in range(n_var):
            if self.is_answer_key[i]:
                self.variables[i].sol = answer[i]
        return True""", """        for i in range(n_var):
            self.variables[i].sol = answer[i]
        return True""")
mutant("ref-writeback-short", "C02", SOLVER, """        for i in range(n_var):
            if self.is_answer_key[i]:
                self.variables[i].sol = answer[i]
        return True""", """        for i in range(n_var - 1):
            if self.is_answer_key[i]:
                self.variables[i].sol = answer[i]
        return True""", "REF-4")
mutant("ref-first-unsat-true", "C02", SOLVER, """            # inconsistent problem
            return False""", """            # inconsistent problem
            return True""", "REF-5")
# recording a first-model candidate for non-keys too changes nothing observable (the clause and the write-back are key-guarded)
variant("ref-init-all", "C02", SOLVER, """            if self.is_answer_key[i]:
                answer[i] = self.variables[i].sol

        while True:""", """            if True:
                answer[i] = self.variables[i].sol

        while True:""")
mutant("ref-sugar-ext-fallback", "C02", SUGAR, """class SugarExtendedBackend(SugarLikeBackend):
    def _call_solver""", """class SugarExtendedBackend(SugarLikeBackend):
    def solve_irrefutably(self, is_answer_key):
        raise NotImplementedError

    def _call_solver""", "REF-6")
# falling back to refute-and-resolve on any native failure still reports exactly the common facts
variant("ref-selector-swallow", "C02", SOLVER, """        except NotImplementedError:
            pass""", """        except Exception:
            pass""")
variant("ref-rename-answer", "C02", SOLVER, """            for i in range(n_var):
                if (
                    self.is_answer_key[i]
                    and answer[i] is not None
                    and answer[i] != self.variables[i].sol
                ):
                    answer[i] = None""", """            for k in range(n_var):
                if self.is_answer_key[k] and answer[k] is not None:
                    if answer[k] != self.variables[k].sol:
                        answer[k] = None""")
variant("ref-exit-else", "C02", SOLVER, """            if not csp_solver.solve():
                break

            for i in range(n_var):""", """            if csp_solver.solve():
                pass
            else:
                break

            for i in range(n_var):""")

# ---- C20 ---------------------------------------------------------------------------------------
CONF = "cspuz/configuration.py"
mutant("cfg-detect-z3-first", "C20", CONF, """    try:
        import cspuz_core  # type: ignore  # noqa

        return "cspuz_core"
    except ImportError:
        pass
""", """    try:
        import z3  # type: ignore  # noqa

        return "z3"
    except ImportError:
        pass

    try:
        import cspuz_core  # type: ignore  # noqa

        return "cspuz_core"
    except ImportError:
        pass
""", "CFG-3")
mutant("cfg-detect-wrong-name", "C20", CONF, """        import pycsugar  # type: ignore  # noqa

        return "csugar\"""", """        import pycsugar  # type: ignore  # noqa

        return "sugar_extended\"""", "CFG-3")
mutant("cfg-strtobool-lenient", "C20", CONF, """    else:
        raise ValueError(f"Invalid value for boolean: {s}")""", """    else:
        return False""", "CFG-6")
mutant("cfg-strtobool-case", "C20", CONF, "    s = s.lower()\n", "", "CFG-6")
mutant("cfg-prim-default-sugar", "C20", CONF, 'if self.default_backend in ("csugar", "enigma_csp", "cspuz_core"):', 'if self.default_backend in ("csugar", "enigma_csp", "cspuz_core", "sugar_extended"):', "CFG-5")
mutant("cfg-div-default-csugar", "C20", CONF, 'if self.default_backend in ("enigma_csp", "cspuz_core"):', 'if self.default_backend in ("csugar", "enigma_csp", "cspuz_core"):', "CFG-5")
mutant("cfg-env-ignored", "C20", CONF, """        if default_backend == "auto":
            self.default_backend = _detect_backend()
        else:
            self.default_backend = default_backend""", """        if default_backend != "z3":
            self.default_backend = _detect_backend()
        else:
            self.default_backend = default_backend""", "CFG-5")
mutant("cfg-div-env-name", "C20", CONF, """                "CSPUZ_USE_GRAPH_DIVISION_PRIMITIVE",""", """                "CSPUZ_USE_GRAPH_PRIMITIVE",""", "CFG-5")
mutant("cfg-solve-ignores-arg", "C20", SOLVER, """            warnings.warn("no answer key is given")
        backend_type = _get_backend(backend)""", """            warnings.warn("no answer key is given")
        backend_type = _get_backend(None)""", "CFG-1")
mutant("cfg-name-table-swap", "C20", SOLVER, """    elif backend_name == "csugar":
        return backend.sugar_like.CSugarBackend""", """    elif backend_name == "csugar":
        return backend.sugar_like.CspuzCoreBackend""", "CFG-1")
mutant("cfg-unknown-name-default", "C20", SOLVER, """    else:
        raise ValueError("invalid backend {}".format(backend_name))""", """    else:
        return backend.sugar_like.SugarBackend""", "CFG-1")
mutant("cfg-acyclic-native", "C20", GRAPH, "    if use_graph_primitive and not acyclic:", "    if use_graph_primitive:", "CFG-4")
mutant("cfg-flag-import-time", "C20", GRAPH, ["""    if use_graph_primitive is None:
        use_graph_primitive = config.use_graph_primitive
    if use_graph_primitive and not acyclic:""", "from .solver import Solver\n\n\nclass Graph(object):"], ["""    if use_graph_primitive is None:
        use_graph_primitive = _DEFAULT_PRIMITIVE
    if use_graph_primitive and not acyclic:""", "from .solver import Solver\n\n_DEFAULT_PRIMITIVE = config.use_graph_primitive\n\n\nclass Graph(object):"], "CFG-4", "config read once at import into a module constant")
mutant("cfg-arg-ignored-cycle", "C20", GRAPH, """        is_passed_flat = _active_edges_single_cycle(
            solver, edges, graph, use_graph_primitive=use_graph_primitive
        )
        return is_passed_flat.reshape((is_active_edge.height + 1, is_active_edge.width + 1))""", """        is_passed_flat = _active_edges_single_cycle(
            solver, edges, graph
        )
        return is_passed_flat.reshape((is_active_edge.height + 1, is_active_edge.width + 1))""", "CFG-4")
mutant("cfg-borders-wrong-flag", "C20", GRAPH, "        use_graph_primitive = config.use_graph_division_primitive", "        use_graph_primitive = config.use_graph_primitive", "CFG-4")
mutant("cfg-crossable-forced-off", "C20", GRAPH, "active_vertices_connected(solver, gv, graph=g, use_graph_primitive=use_graph_primitive)", "active_vertices_connected(solver, gv, graph=g, use_graph_primitive=False)", "CFG-4")
variant("cfg-strtobool-set", "C20", CONF, '    if s in ("true", "1"):', '    if s in {"1", "true"}:')
variant("cfg-dict-dispatch", "C20", SOLVER, """    if backend_name == "sugar":
        return backend.sugar_like.SugarBackend
    elif backend_name == "sugar_extended":""", """    if backend_name == "sugar_extended":
        return backend.sugar_like.SugarExtendedBackend
    elif backend_name == "sugar":
        return backend.sugar_like.SugarBackend
    elif backend_name == "sugar_extended":""")

# ---- C14 ---------------------------------------------------------------------------------------
FRAME = "cspuz/grid_frame.py"
mutant("alg-getitem-bound", "C14", FRAME, "if not (0 <= y <= self.height * 2 and 0 <= x <= self.width * 2):", "if not (0 <= y < self.height * 2 and 0 <= x <= self.width * 2):", "ALG-1")
mutant("alg-getitem-neg", "C14", FRAME, "if not (0 <= y <= self.height * 2 and 0 <= x <= self.width * 2):", "if not (y <= self.height * 2 and x <= self.width * 2):", "ALG-1")
mutant("alg-getitem-swapped", "C14", FRAME, """        if y % 2 == 0 and x % 2 == 1:
            return self.horizontal[y // 2, x // 2]""", """        if y % 2 == 1 and x % 2 == 0 and y // 2 <= self.height and x // 2 < self.width:
            return self.horizontal[y // 2, x // 2]""", "ALG-1")
mutant("alg-cell-neighbors-col", "C14", FRAME, "                self.vertical[y2, x2 + 1],", "                self.vertical[y2, x2 - 1] if x2 > 0 else self.vertical[y2, x2 + 1],", "ALG-2")
mutant("alg-cell-neighbors-range", "C14", FRAME, "if not (0 <= y2 < self.height and 0 <= x2 < self.width):", "if not (y2 < self.height and 0 <= x2 < self.width):", "ALG-2", "negative row wraps around")
mutant("alg-vertex-guard", "C14", FRAME, """        if y2 < self.height:
            res.append(self.vertical[y2, x2])""", """        if y2 < self.height - 1:
            res.append(self.vertical[y2, x2])""", "ALG-3")
mutant("alg-vertex-wrong-array", "C14", FRAME, """        if x2 > 0:
            res.append(self.horizontal[y2, x2 - 1])""", """        if x2 > 0:
            res.append(self.horizontal[y2 - 1, x2 - 1] if y2 > 0 else self.horizontal[y2, x2 - 1])""", "ALG-3")
mutant("alg-dual-keeps-arrays", "C14", FRAME, """            height=self.height + 1,
            width=self.width + 1,
            horizontal=self.vertical,
            vertical=self.horizontal,""", """            height=self.height + 1,
            width=self.width + 1,
            horizontal=self.horizontal,
            vertical=self.vertical,""", "ALG-4")
mutant("alg-inner-dual-size", "C14", FRAME, """            height=self.height - 1,
            width=self.width - 1,
            horizontal=self.vertical,""", """            height=self.height - 1,
            width=self.width,
            horizontal=self.vertical,""", "ALG-4")
mutant("alg-inner-default-shape", "C14", FRAME, "self.horizontal = solver.bool_array((height - 1, width))", "self.horizontal = solver.bool_array((height, width - 1))", "ALG-4")
mutant("alg-iter-order", "C14", FRAME, """    def __iter__(self) -> Iterator[BoolExpr]:
        return itertools.chain(self.horizontal, self.vertical)""", """    def __iter__(self) -> Iterator[BoolExpr]:
        return itertools.chain(self.vertical, self.horizontal)""", "ALG-5")
mutant("alg-from-frame-diagonal", "C14", GRAPH, "graph.add_edge(y * (width + 1) + x, (y + 1) * (width + 1) + x)", "graph.add_edge(y * (width + 1) + x, (y + 1) * (width + 1) + x + (1 if x < width else 0))", "ALG-5")
mutant("alg-from-frame-stride", "C14", GRAPH, "graph.add_edge(y * (width + 1) + x, y * (width + 1) + (x + 1))", "graph.add_edge(y * (height + 1) + x, y * (height + 1) + (x + 1))", "ALG-5")
mutant("alg-from-frame-swapped-blocks", "C14", GRAPH, """            if y != height:
                edges.append(grid_frame[y * 2 + 1, x * 2])""", """            if y != height:
                edges.append(grid_frame[y * 2 + 1, x * 2] if x * 2 + 2 > 2 * width or y > 0 else grid_frame[y * 2 + 1, x * 2 + 2])""", "ALG-5")
variant("alg-getitem-precompute", "C14", FRAME, """        if y % 2 == 0 and x % 2 == 1:
            return self.horizontal[y // 2, x // 2]""", """        r, c = y // 2, x // 2
        if y % 2 == 0 and x % 2 == 1:
            return self.horizontal[r, c]""")
variant("alg-from-frame-reordered", "C14", GRAPH, """            if y != height:
                edges.append(grid_frame[y * 2 + 1, x * 2])
                graph.add_edge(y * (width + 1) + x, (y + 1) * (width + 1) + x)
            if x != width:
                edges.append(grid_frame[y * 2, x * 2 + 1])
                graph.add_edge(y * (width + 1) + x, y * (width + 1) + (x + 1))""", """            if x != width:
                edges.append(grid_frame[y * 2, x * 2 + 1])
                graph.add_edge(y * (width + 1) + x, y * (width + 1) + (x + 1))
            if y < height:
                edges.append(grid_frame[y * 2 + 1, x * 2])
                graph.add_edge((y + 1) * (width + 1) + x, y * (width + 1) + x)""")

# ---- C15 ---------------------------------------------------------------------------------------
SER = "cspuz/problem_serializer.py"
mutant("ser-hexint-threshold", "C15", SER, "        if 16 <= v < 256:", "        if 16 <= v <= 256:", "RT-LEAF")
mutant("ser-hexint-minus-width", "C15", SER, "            return 3, [_from_base16(data[idx + 1 : idx + 3])]", "            return 2, [_from_base16(data[idx + 1 : idx + 2])]", "RT-LEAF")
mutant("ser-spaces-max-run", "C15", SER, "        self._max_consecutive = 35 - self._offset", "        self._max_consecutive = 36 - self._offset", "RT-LEAF")
mutant("ser-spaces-offset", "C15", SER, "            return 1, [self._space for _ in range(i - self._offset)]", "            return 1, [self._space for _ in range(i - self._offset + 1)]", "RT-LEAF")
mutant("ser-intspaces-div", "C15", SER, "        num_spaces = n // (self._max_int + 1)", "        num_spaces = n // (self._max_int + 2)", "RT-LEAF")
mutant("ser-intspaces-limit", "C15", SER, "while idx + num_spaces + 1 < len(data) and num_spaces < self._max_num_spaces:", "while idx + num_spaces + 1 < len(data) and num_spaces <= self._max_num_spaces:", "RT-LEAF")
mutant("ser-multidigit-order", "C15", SER, "        unpacked.reverse()\n", "", "RT-LEAF")
mutant("ser-multidigit-partial", "C15", SER, "        return min(len(data) - idx, self._digits), _to_base36(value)", "        return self._digits, _to_base36(value)", "RT-LEAF")
mutant("ser-decint-digits", "C15", SER, "        return n_digits, [int(data[idx : idx + n_digits])]", "        return n_digits, [int(data[idx : idx + n_digits - 1] or '0')]", "RT-LEAF")
mutant("ser-dict-prefix", "C15", SER, "                return len(self._after[i]), [self._before[i]]", "                return 1, [self._before[i]]", "RT-LEAF")
mutant("ser-grid-falsy-zero", "C15", SER, "        height = env.height if self._height is None else self._height\n        width = env.width if self._width is None else self._width\n        seq_combinator = Seq(self._base, height * width)\n\n        d_flat", "        height = self._height or env.height\n        width = self._width or env.width\n        seq_combinator = Seq(self._base, height * width)\n\n        d_flat", "CDC-2", "the original defect")
mutant("ser-grid-stride", "C15", SER, "                row.append(d2[i * width + j])", "                row.append(d2[i * height + j])", "RT-GRID")
mutant("ser-seq-truncate", "C15", SER, "        return n_read, [ret[: self._n]]", "        return n_read, [ret[: self._n - 1] + ret[: 1]] if self._n > 2 else (n_read, [ret[: self._n]])", "RT-GRID")
mutant("ser-rooms-codec-mismatch", "C15", SER, """        combinator = Tupl(
            Grid(MultiDigit(base=2, digits=5), height=height, width=width - 1),
            Grid(MultiDigit(base=2, digits=5), height=height - 1, width=width),
        )
        res = combinator.deserialize(env, data, idx)""", """        combinator = Tupl(
            Grid(MultiDigit(base=2, digits=5), height=height - 1, width=width),
            Grid(MultiDigit(base=2, digits=5), height=height, width=width - 1),
        )
        res = combinator.deserialize(env, data, idx)""", "RT-ROOMS")
mutant("ser-rooms-fill-guard", "C15", SER, "                if y < height - 1 and not horizontal[y][x]:\n                    stack.append((y + 1, x))", "                if y < height - 1 and not horizontal[y][x] and x > 0:\n                    stack.append((y + 1, x))", "RT-ROOMS")
mutant("ser-valued-rooms-raw-sort", "C15", SER, "zip(*sorted(zip(*d), key=lambda rv: min(rv[0])))", "zip(*sorted(zip(*d)))", "RT-ROOMS", "the original defect")
mutant("ser-valued-rooms-count", "C15", SER, "        value_combinator = Seq(self._value_combinator, len(rooms0))", "        value_combinator = Seq(self._value_combinator, max(1, len(rooms0) - 1))", "RT-ROOMS")
variant("ser-valued-rooms-sorted-cells", "C15", SER, "zip(*sorted(zip(*d), key=lambda rv: min(rv[0])))", "zip(*sorted(zip(*d), key=lambda rv: sorted(rv[0])[0]))")
variant("ser-hexint-table", "C15", SER, """        prefix = ""
        if 16 <= v < 256:
            prefix = "-"
        elif 256 <= v:
            prefix = "+\"""", """        prefix = "" if v <= 15 else ("-" if v <= 255 else "+")""")

# ---- C16 ---------------------------------------------------------------------------------------
mutant("url-order-swapped", "C16", SER, 'return f"{prefix}{puzzle}/{width}/{height}/{serialized}"', 'return f"{prefix}{puzzle}/{height}/{width}/{serialized}"', "URL-HDR")
mutant("url-reader-swapped", "C16", SER, "    width = int(m[2])\n    height = int(m[3])", "    height = int(m[2])\n    width = int(m[3])", "URL-RT")
mutant("url-info-swapped", "C16", SER, "        return (m[1], int(m[3]), int(m[2]))", "        return (m[1], int(m[2]), int(m[3]))", "DK-6")
mutant("url-compass-parse-swapped", "C16", "cspuz/puzzle/compass.py", '    width, height, body = url.split("/")[-3:]', '    height, width, body = url.split("/")[-3:]', "URL-RT", "the original defect")
mutant("url-compass-writer-order", "C16", "cspuz/puzzle/compass.py", 'return "https://puzz.link/p?compass/{}/{}/{}".format(width, height, util.encode_array(problem))', 'return "https://puzz.link/p?compass/{}/{}/{}".format(height, width, util.encode_array(problem))', "URL-HDR")
mutant("url-compass-clue-order", "C16", "cspuz/puzzle/compass.py", 'problem[y][x] = tuple(map(lambda x: "." if x == -1 else x, (u, d, l, r)))', 'problem[y][x] = tuple(map(lambda x: "." if x == -1 else x, (u, l, d, r)))', "URL-RT")
mutant("url-masyu-other-codec", "C16", "cspuz/puzzle/masyu.py", "    return deserialize_problem_as_url(MASYU_COMBINATOR, url, allowed_puzzles=[\"masyu\", \"mashu\"])", "    return deserialize_problem_as_url(Grid(MultiDigit(base=3, digits=2)), url, allowed_puzzles=[\"masyu\", \"mashu\"])", "URL-RT")
mutant("url-slither-name", "C16", "cspuz/puzzle/slitherlink.py", 'return serialize_problem_as_url(SLITHERLINK_COMBINATOR, "slither", height, width, problem)', 'return serialize_problem_as_url(SLITHERLINK_COMBINATOR, "slitherlink", height, width, problem)', "URL-HDR")
mutant("url-nurikabe-dims", "C16", "cspuz/puzzle/nurikabe.py", 'return serialize_problem_as_url(NURIKABE_COMBINATOR, "nurikabe", height, width, problem)', 'return serialize_problem_as_url(NURIKABE_COMBINATOR, "nurikabe", width, height, problem)', "URL-RT")
mutant("url-nurimisaki-marker", "C16", "cspuz/puzzle/nurimisaki.py", 'NURIMISAKI_COMBINATOR = Grid(OneOf(Dict([0], ["."]), Spaces(-1, "g"), HexInt()))', 'NURIMISAKI_COMBINATOR = Grid(OneOf(Dict([0], ["."]), Spaces(-1, "h"), HexInt()))', "URL-REF")
mutant("url-yajilin-dirmap", "C16", "cspuz/puzzle/yajilin.py", 'DIR_MAP = {"^": 1, "v": 2, "<": 3, ">": 4}', 'DIR_MAP = {"^": 2, "v": 1, "<": 3, ">": 4}', "URL-RT")
mutant("url-yajilin-qq", "C16", "cspuz/puzzle/yajilin.py", """        if value == "??":
            return 1, "0."
""", "", "URL-RT", "the original defect")
mutant("url-heyawake-names", "C16", "cspuz/puzzle/heyawake.py", 'return serialize_problem_as_url(HEYAWAKE_COMBINATOR, "heyawake", height, width, (rooms, clues))', 'return serialize_problem_as_url(HEYAWAKE_COMBINATOR, "heyawake", height, width, (rooms, clues[::-1]))', "URL-RT")
mutant("url-aquarium-clue-order", "C16", "cspuz/puzzle/aquarium.py", "clues_str = util.encode_array(clue_col + clue_row, empty=-1)", "clues_str = util.encode_array(clue_row + clue_col, empty=-1)", "URL-REF")
mutant("url-aquarium-order", "C16", "cspuz/puzzle/aquarium.py", 'return "https://puzz.link/p?aquarium/{}/{}/{}/{}".format(width, height, blocks_str, clues_str)', 'return "https://puzz.link/p?aquarium/{}/{}/{}/{}".format(height, width, blocks_str, clues_str)', "URL-HDR")
mutant("url-legacy-hex-threshold", "C16", "cspuz/puzzle/util.py", "        elif v <= 255:", "        elif v <= 256:", "URL-LEG")
mutant("url-legacy-segmentation-order", "C16", "cspuz/puzzle/util.py", """    s = []
    for y in range(height):
        for x in range(width - 1):
            s.append(1 if block_id[y][x] != block_id[y][x + 1] else 0)
    ret = convert_binary_seq(s)""", """    s = []
    for x in range(width - 1):
        for y in range(height):
            s.append(1 if block_id[y][x] != block_id[y][x + 1] else 0)
    ret = convert_binary_seq(s)""", "URL-LEG")
variant("url-named-fields", "C16", SER, 'return f"{prefix}{puzzle}/{width}/{height}/{serialized}"', 'return "{}{}/{w}/{h}/{}".format(prefix, puzzle, serialized, w=width, h=height)')

# ---- C17 ---------------------------------------------------------------------------------------
YAJ = "cspuz/puzzle/yajilin.py"
mutant("exc-hexint-no-eof", "C17", SER, """    ) -> Optional[Tuple[int, List[int]]]:
        if idx == len(data):
            return None
        c = data[idx]
        if c == "-":""", """    ) -> Optional[Tuple[int, List[int]]]:
        c = data[idx]
        if c == "-":""", "EXC-1")
mutant("exc-hexint-unvalidated", "C17", SER, "            if idx + 3 > len(data) or not _is_hex(data[idx + 1 : idx + 3]):", "            if idx + 3 > len(data):", "EXC-6", "the original defect")
mutant("exc-hexint-short-bound", "C17", SER, "            if idx + 4 > len(data) or not _is_hex(data[idx + 1 : idx + 4]):", "            if idx + 3 > len(data) or not _is_hex(data[idx + 1 : idx + 4]):", "EXC-7")
mutant("exc-decint-no-bound", "C17", SER, "        while idx + n_digits < len(data) and data[idx + n_digits].isdigit():", "        while data[idx + n_digits].isdigit():", "EXC-1")
mutant("exc-yajilin-no-dir-check", "C17", YAJ, """        if dir not in "1234":
            return None
""", "", "EXC-2")
mutant("exc-yajilin-eof", "C17", YAJ, "        if idx + 1 >= len(data):\n            return None\n        dir = data[idx]", "        if idx >= len(data):\n            return None\n        dir = data[idx]", "EXC-1")
mutant("exc-new-assert", "C17", SER, """        ofs, rooms = rooms_res
        rooms0 = rooms[0]""", """        ofs, rooms = rooms_res
        assert ofs > 0
        rooms0 = rooms[0]""", "EXC-3")
mutant("exc-assert-match", "C17", SER, """    if m is None:
        if allow_failure:
            return None
        raise ValueError("not a puzzle URL")""", """    if allow_failure and m is None:
        return None
    assert m is not None""", "EXC-3", "the original defect")
mutant("exc-recursive-fill", "C17", SER, """            stack = [(y0, x0)]
            while stack:
                y, x = stack.pop()
                if room_id[y][x] != -1:
                    continue
                room_id[y][x] = id
                if y > 0 and not horizontal[y - 1][x]:
                    stack.append((y - 1, x))""", """            stack = [(y0, x0)]
            while stack:
                y, x = stack.pop()
                if room_id[y][x] != -1:
                    continue
                room_id[y][x] = id
                if y > 0 and not horizontal[y - 1][x]:
                    fill(y - 1, x, id)""", "EXC-4", "the original defect, partially")
mutant("exc-grid-none-unpack", "C17", SER, """        tmp = seq_combinator.deserialize(env, data, idx)
        if tmp is None:
            return None
        ofs, d = tmp""", """        tmp = seq_combinator.deserialize(env, data, idx)
        ofs, d = tmp""", "EXC-7")
mutant("exc-zero-size", "C17", SER, """    if height <= 0 or width <= 0:
        raise ValueError("board size must be positive")
""", "", "EXC-7")
mutant("exc-rooms-fill-bound", "C17", SER, "                if y < height - 1 and not horizontal[y][x]:\n                    stack.append((y + 1, x))", "                if y < height and not horizontal[y][x]:\n                    stack.append((y + 1, x))", "EXC-7")
variant("exc-guard-ge", "C17", SER, """    ) -> Optional[Tuple[int, List[int]]]:
        if idx == len(data):
            return None
        c = data[idx]
        if c == "-":""", """    ) -> Optional[Tuple[int, List[int]]]:
        if idx >= len(data):
            return None
        c = data[idx]
        if c == "-":""")
variant("exc-yajilin-guard-order", "C17", YAJ, """        dir = data[idx]
        if dir == "0":
            return 2, ["??"]
        if dir not in "1234":
            return None""", """        dir = data[idx]
        if dir not in "01234":
            return None
        if dir == "0":
            return 2, ["??"]""")

# ---- C19 ---------------------------------------------------------------------------------------
DRND = "cspuz/generator/deterministic_random.py"
SRND = "cspuz/generator/srandom.py"
GCORE = "cspuz/generator/core.py"
GBUILD = "cspuz/generator/builder.py"
GSEG = "cspuz/generator/segmentation.py"
mutant("rng-import-random-builder", "C19", GBUILD, "import copy\nimport cspuz.generator.srandom as srandom", "import copy\nimport random\nimport cspuz.generator.srandom as srandom", "RNG-1")
mutant("rng-segmentation-random", ["C19", "C18"], GSEG, ["import cspuz.generator.srandom as srandom\n", "cand = srandom.choice(cands)"], ["import random\nimport cspuz.generator.srandom as srandom\n", "cand = random.choice(cands)"], "RNG-1", "the original defect")
mutant("rng-choice-dispatch", "C19", SRND, "        return drandom.choice(cand)", "        return pyrandom.choice(cand)", "RNG-2")
mutant("rng-shuffle-inverted", "C19", SRND, """    if _use_deterministic_prng:
        drandom.shuffle(seq)
    else:
        pyrandom.shuffle(seq)""", """    if not _use_deterministic_prng:
        drandom.shuffle(seq)
    else:
        pyrandom.shuffle(seq)""", "RNG-2")
mutant("rng-randint-no-offset", "C19", DRND, "            return a + x % w", "            return x % w", "RNG-3", "the original defect")
mutant("rng-randint-no-rejection", "C19", DRND, "    limit = _XORSHIFT_DOMAIN_SIZE - _XORSHIFT_DOMAIN_SIZE % w", "    limit = _XORSHIFT_DOMAIN_SIZE", "RNG-3")
mutant("rng-randint-width", "C19", DRND, "    w = b - a + 1\n", "    w = b - a\n    if w == 0:\n        return a\n", "RNG-3")
mutant("rng-randint-le", "C19", DRND, "        if x < limit:", "        if x <= limit:", "RNG-3")
mutant("rng-mask-dropped", "C19", DRND, "t = (self._x ^ (self._x << 11)) & 0xFFFFFFFF", "t = self._x ^ (self._x << 11)", "RNG-4")
mutant("rng-domain-31", "C19", DRND, "_XORSHIFT_DOMAIN_SIZE = 1 << 32", "_XORSHIFT_DOMAIN_SIZE = 1 << 31", "RNG-4")
mutant("rng-shuffle-biased", "C19", DRND, "        j = randint(0, i)\n", "        j = randint(0, len(seq) - 1)\n", "RNG-6")
mutant("rng-shuffle-skip", "C19", DRND, "    for i in range(1, len(seq)):\n        j = randint(0, i)", "    for i in range(2, len(seq)):\n        j = randint(0, i)", "RNG-6")
mutant("rng-choice-range", "C19", DRND, "    idx = randint(0, len(cand) - 1)", "    idx = randint(1, len(cand) - 1) if len(cand) > 1 else 0", "RNG-6")
mutant("rng-random-divisor", "C19", DRND, "    return float(_rng.next()) / _XORSHIFT_DOMAIN_SIZE", "    return float(_rng.next()) / (_XORSHIFT_DOMAIN_SIZE - 1)", "RNG-7")
mutant("gen-return-before-sat", "C19", GCORE, """            is_sat, *answer = solver(next_problem)
            if not is_sat:
                continue

            if uniqueness(*answer):""", """            is_sat, *answer = solver(next_problem)

            if uniqueness(*answer):""", "GEN-1")
mutant("gen-return-current", "C19", GCORE, """                    print("generated", file=sys.stderr)
                return next_problem""", """                    print("generated", file=sys.stderr)
                return problem""", "GEN-1")
mutant("gen-uniqueness-skipped", "C19", GCORE, "            if uniqueness(*answer):", "            if uniqueness(*answer) or current_score is None:", "GEN-1")
mutant("gen-symmetry-partner", "C19", GBUILD, """                if self.symmetry:
                    y2 = self.height - 1 - y
                    x2 = self.width - 1 - x
                    if (y2 - y, x2 - x) in self.disallow_adjacent:""", """                if self.symmetry:
                    y2 = self.height - 1 - y
                    x2 = x
                    if (y2 - y, x2 - x) in self.disallow_adjacent:""", "GEN-2")
mutant("gen-value-out-of-choice", "C19", GBUILD, """                        if v != current[y][x]:
                            ret.append([(y, x, v)])
        return ret""", """                        if v != current[y][x]:
                            ret.append([(y, x, v + 1)])
        return ret""", "GEN-2")
mutant("gen-adjacent-ignored", "C19", GBUILD, """                        and current[y2][x2] != self.default
                    ):
                        default_only = True""", """                        and current[y2][x2] != self.default
                    ):
                        default_only = False""", "GEN-2")
mutant("gen-shallow-copy", "C19", GBUILD, "        ret = copy.deepcopy(previous)\n        for y, x, v in update:", "        ret = copy.copy(previous)\n        for y, x, v in update:", "PUR-2")
variant("rng-randint-parenthesised", "C19", DRND, "            return a + x % w", "            return (x % w) + a")
variant("rng-from-import", "C19", GBUILD, "import cspuz.generator.srandom as srandom", "from cspuz.generator import srandom")
variant("gen-hoisted-uniqueness", "C19", GCORE, "            if uniqueness(*answer):", "            is_unique = uniqueness(*answer)\n            if is_unique:")

# ---- C18 ---------------------------------------------------------------------------------------
mutant("seg-merge-count-ge", "C18", GSEG, "        if num_blocks > self.min_num_blocks:", "        if num_blocks >= self.min_num_blocks:", "SEG-G")
mutant("seg-merge-size", "C18", GSEG, """                        if len(current[i]) + len(current[j]) > self.max_block_size:
                            continue
                        if i < j:
                            adjacent_pairs.add((i, j))
                        else:
                            adjacent_pairs.add((j, i))
                    if (
                        x < width - 1""", """                        if len(current[i]) + len(current[j]) > self.max_block_size + 1:
                            continue
                        if i < j:
                            adjacent_pairs.add((i, j))
                        else:
                            adjacent_pairs.add((j, i))
                    if (
                        x < width - 1""", "SEG-G")
mutant("seg-split-count", "C18", GSEG, "        if num_blocks < self.max_num_blocks:", "        if num_blocks <= self.max_num_blocks:", "SEG-G")
mutant("seg-split-halves", "C18", GSEG, """                        if (
                            len(block_a) >= self.min_block_size
                            and len(block_b) >= self.min_block_size
                        ):""", """                        if (
                            len(block_a) >= self.min_block_size
                        ):""", "SEG-G")
mutant("seg-move-donor-ge", "C18", GSEG, """                    if (
                        len(current[i]) > self.min_block_size
                        and len(current[j]) < self.max_block_size
                        and _is_connected(current[i], (y, x))
                    ):
                        ret.append(
                            (
                                [i, j],
                                [[p for p in current[i] if p != (y, x)], current[j] + [(y, x)]],
                            )
                        )
                    if (
                        len(current[j]) > self.min_block_size
                        and len(current[i]) < self.max_block_size
                        and _is_connected(current[j], (y + 1, x))""", """                    if (
                        len(current[i]) >= self.min_block_size
                        and len(current[j]) < self.max_block_size
                        and _is_connected(current[i], (y, x))
                    ):
                        ret.append(
                            (
                                [i, j],
                                [[p for p in current[i] if p != (y, x)], current[j] + [(y, x)]],
                            )
                        )
                    if (
                        len(current[j]) > self.min_block_size
                        and len(current[i]) < self.max_block_size
                        and _is_connected(current[j], (y + 1, x))""", "SEG-G")
mutant("seg-move-wrong-cell-tested", "C18", GSEG, "                        and _is_connected(current[j], (y + 1, x))", "                        and _is_connected(current[j], (y, x))", "SEG-G")
mutant("seg-move-wrong-cell-added", "C18", GSEG, """                                    [p for p in current[j] if p != (y, x + 1)],
                                    current[i] + [(y, x + 1)],""", """                                    [p for p in current[j] if p != (y, x + 1)],
                                    current[i] + [(y, x)],""", "SEG-G")
mutant("seg-merge-drops-block", "C18", GSEG, "                ret.append(([i, j], [current[i] + current[j]]))", "                ret.append(([i, j], [current[i]]))", "SEG-E")
mutant("seg-split-nearest-tie", "C18", GSEG, """        if da <= db:
            block_a.append(b)
        else:
            block_b.append(b)""", """        if da <= db:
            block_a.append(b)
        if da >= db:
            block_b.append(b)""", "SEG-E")
mutant("seg-is-connected-always", "C18", GSEG, "    return len(visited) == len(block_set) - (1 if excluded in block_set else 0)", "    return len(visited) >= 1", "SEG-E")
mutant("seg-copy-mutates", "C18", GSEG, """        exclude, append = update
        if use_deepcopy:""", """        exclude, append = update
        if len(exclude) == 2:
            previous[exclude[0]].extend(previous[exclude[1]])
        if use_deepcopy:""", "SEG-E")
mutant("seg-initial-unchecked", "C18", GSEG, """            for block in blocks:
                if not (self.min_block_size <= len(block) <= self.max_block_size):
                    is_met = False
            if is_met:""", """            if is_met:""", "SEG-E")
variant("seg-swap-move-blocks", "C18", GSEG, "        if num_blocks > self.min_num_blocks:", "        if self.min_num_blocks < num_blocks:")
variant("seg-split-ge-plus", "C18", GSEG, "        if num_blocks < self.max_num_blocks:", "        if num_blocks + 1 <= self.max_num_blocks:")

# ---- C11 ---------------------------------------------------------------------------------------
PZ = "cspuz/puzzle/"
mutant("akr-yajilin-key-dropped", "C11", PZ + "yajilin.py", "    solver.add_answer_key(black_cell)\n", "", "AKR")
mutant("akr-nurikabe-derived", "C11", PZ + "nurikabe.py", "    return is_sat, is_white\n", "    return is_sat, ~is_white\n", "AKR")
mutant("akr-masyu-find-answer", "C11", PZ + "masyu.py", "    is_sat = solver.solve()\n    return is_sat, grid_frame", "    is_sat = solver.find_answer()\n    return is_sat, grid_frame", "AKR")
mutant("akr-view-second-key", "C11", PZ + "view.py", "    solver.add_answer_key(has_number)\n", "", "AKR")
mutant("akr-slither-key-after-solve", "C11", PZ + "slitherlink.py", ["    solver.add_answer_key(grid_frame)\n", "    is_sat = solver.solve()\n    return is_sat, grid_frame"], ["", "    is_sat = solver.solve()\n    solver.add_answer_key(grid_frame)\n    return is_sat, grid_frame"], "AKR")
mutant("akr-fivecells-flag", "C11", PZ + "fivecells.py", "    if is_invalid:\n        is_sat = False\n    else:\n        is_sat = solver.solve()", "    is_sat = not is_invalid", "AKR")
mutant("idx-akari-first-row", "C11", PZ + "akari.py", "            if y == 0 or problem[y - 1][x] >= -1:", "            if problem[y - 1][x] >= -1:", "IDX-1")
mutant("idx-gokigen-corner", "C11", PZ + "gokigen.py", "                if 0 < y and 0 < x:", "                if 0 <= y and 0 < x:", "IDX-1")
mutant("idx-nurimisaki-offset", "C11", PZ + "nurimisaki.py", "                    elif x > n - 1:", "                    elif x > n - 3:", "IDX-1")
mutant("idx-shakashaka-guard", "C11", PZ + "shakashaka.py", "            if y > 0 and x > 0:\n                diagonals.append(answer[y - 1, x - 1] == 4)", "            if x > 0:\n                diagonals.append(answer[y - 1, x - 1] == 4)", "IDX-1")
mutant("idx-fivecells-guard", "C11", PZ + "fivecells.py", "                if y > 0 and problem[y - 1][x] >= -1:", "                if problem[y - 1][x] >= -1:", "IDX-1")
mutant("idx-geradeweg-guard", "C11", PZ + "geradeweg.py", "([grid_frame.horizontal[y, x - 1]] if x > 0 else [])", "([grid_frame.horizontal[y, x - 1]] if x >= 0 else [])", "IDX-1")
mutant("dk-lits-rows", "C11", PZ + "lits.py", "    block_id = [[-1 for _ in range(width)] for _ in range(height)]\n    for i, block in enumerate(blocks):\n        for y, x in block:\n            block_id[y][x] = i\n\n    num_straight", "    block_id = [[-1 for _ in range(width)] for _ in range(width)]\n    for i, block in enumerate(blocks):\n        for y, x in block:\n            block_id[y][x] = i\n\n    num_straight", "IDX-2")
# (the block_id table of solve_aquarium is gone since the one-level-per-tank fix; its rules are now under PZ-X)
mutant("pzx-aquarium-adjacent-only", "C11", PZ + "aquarium.py", "            for cell in rows[y][1:]:\n                solver.ensure(is_water[first] == is_water[cell])\n", "            for cell in rows[y][1:]:\n                if cell[1] == first[1] + 1:\n                    solver.ensure(is_water[first] == is_water[cell])\n", "PZ-X", "the original defect: arms of a U-shaped tank unlinked")
mutant("pzx-heyawake-horizontal-scan", "C11", PZ + "heyawake.py", "                while x2 < width - 1:", "                while x2 + 2 < width:", "PZ-X")
mutant("pzx-akari-sight-stops-early", "C11", PZ + "akari.py", "                for y2 in range(y + 1, height, 1):", "                for y2 in range(y + 1, height - 1, 1):", "PZ-X")
mutant("pzx-nurikabe-no-2x2", "C11", PZ + "nurikabe.py", '    solver.ensure(is_white.conv2d(2, 2, "or"))\n', "", "PZ-X")
mutant("pzx-norinori-three", "C11", PZ + "norinori.py", "        solver.ensure(count_true(is_black[block]) == 2)", "        solver.ensure(count_true(is_black[block]) >= 2)", "PZ-X")
mutant("pzx-creek-counts-white", "C11", PZ + "creek.py", "                        ~is_white[", "                        is_white[", "PZ-X")
mutant("pzx-star-battle-no-diagonal", "C11", PZ + "star_battle.py", "    solver.ensure(~(has_star[:-1, 1:] & has_star[1:, :-1]))\n", "", "PZ-X")
mutant("pzx-masyu-black-one-arm", "C11", PZ + "masyu.py", "                solver.ensure((dirs[0] | dirs[2]) & (dirs[1] | dirs[3]))", "                solver.ensure((dirs[0] | dirs[2]) | (dirs[1] | dirs[3]))", "PZ-X")
mutant("pzx-gokigen-clue-misses-corner", "C11", PZ + "gokigen.py", "                if y < height and x < width:\n                    related.append(edge_type[y, x])", "                if y < height - 1 and x < width:\n                    related.append(edge_type[y, x])", "PZ-X")
mutant("pzx-slither-clue-zero-ignored", "C11", PZ + "slitherlink.py", "            if problem[y][x] >= 0:", "            if problem[y][x] > 0:", "PZ-X")
mutant("pzx-yinyang-white-unconnected", "C11", PZ + "yinyang.py", "    graph.active_vertices_connected(solver, ~is_black)\n", "", "PZ-X")
# the redundant yin-yang constraints (no checkered 2x2, at most two colour changes along the border) follow from the rules
variant("pzx-yinyang-drop-auxiliary", "C11", PZ + "yinyang.py", "    solver.ensure(count_true(circ_switching) <= 2)\n", "")
mutant("dk-heyawake-while", "C11", PZ + "heyawake.py", "                while y2 < height - 1:", "                while y2 < height:", "IDX-2")
mutant("dk-view-transposed", "C11", PZ + "view.py", "    to_left = solver.int_array((height, width), 0, width - 1)", "    to_left = solver.int_array((width, height), 0, width - 1)", "IDX-2")
mutant("dk-castle-wall-transposed", "C11", PZ + "castle_wall.py", "    is_inside = solver.bool_array((height - 1, width - 1))", "    is_inside = solver.bool_array((width - 1, height - 1))", "IDX-2")
mutant("dk-slither-loop-swapped", "C11", PZ + "slitherlink.py", "    for y in range(height):\n        for x in range(width):\n            if problem[y][x] >= 0:", "    for y in range(width):\n        for x in range(height):\n            if problem[y][x] >= 0:", "IDX-2")
mutant("dk-yajilin-frame", "C11", PZ + "yajilin.py", "    grid_frame = BoolGridFrame(solver, height - 1, width - 1)", "    grid_frame = BoolGridFrame(solver, width - 1, height - 1)", "IDX-2")
mutant("dk-putteria-columns", "C11", PZ + "putteria.py", "    for x in range(width):\n        for y1 in range(height):\n            for y2 in range(y1 + 1, height):", "    for x in range(height):\n        for y1 in range(width):\n            for y2 in range(y1 + 1, width):", "IDX-2")
variant("akr-keys-after-constraints", "C11", PZ + "yajilin.py", ["    solver.add_answer_key(grid_frame)\n    solver.add_answer_key(black_cell)\n", "    is_sat = solver.solve()\n    return is_sat, grid_frame, black_cell"], ["", "    solver.add_answer_key(grid_frame, black_cell)\n    is_sat = solver.solve()\n    return is_sat, grid_frame, black_cell"])
variant("idx-akari-ge1", "C11", PZ + "akari.py", "                    if y > 0 and problem[y - 1][x] < -1:", "                    if y >= 1 and problem[y - 1][x] < -1:")

# ---- C04 ---------------------------------------------------------------------------------------
AVC = "        less_ranks = [((ranks[j] < ranks[i]) & is_active[j]) for j, _ in graph.incident_edges[i]]"
mutant("enc-avc-nonstrict", "C04", GRAPH, AVC, AVC.replace("ranks[j] < ranks[i]", "ranks[j] <= ranks[i]"), "ENC-S")
mutant("enc-avc-inactive-support", "C04", GRAPH, AVC, AVC.replace("((ranks[j] < ranks[i]) & is_active[j])", "(ranks[j] < ranks[i])"), "ENC-S")
mutant("enc-avc-exactly-one", "C04", GRAPH, "            solver.ensure(then(is_active[i], count_true(less_ranks + [is_root[i]]) >= 1))", "            solver.ensure(then(is_active[i], count_true(less_ranks + [is_root[i]]) == 1))", "ENC-S")
mutant("enc-avc-two-roots", "C04", GRAPH, "    solver.ensure(count_true(is_root) <= 1)\n\n\n@overload\ndef active_vertices_connected(", "    solver.ensure(count_true(is_root) <= 2)\n\n\n@overload\ndef active_vertices_connected(", "ENC-S")
mutant("enc-avc-one-root-forced", "C04", GRAPH, "    solver.ensure(count_true(is_root) <= 1)\n\n\n@overload\ndef active_vertices_connected(", "    solver.ensure(count_true(is_root) == 1)\n    solver.ensure([then(r, a) for r, a in zip(is_root, is_active)])\n\n\n@overload\ndef active_vertices_connected(", "ENC-S", "exactly one active root: rejects the empty set")
mutant("enc-avc-rank-domain", "C04", GRAPH, "    ranks = solver.int_array(n, 0, n - 1)\n    is_root = solver.bool_array(n)\n\n    for i in range(n):\n        less_ranks = [((ranks[j]", "    ranks = solver.int_array(n, 0, max(0, n - 2))\n    is_root = solver.bool_array(n)\n\n    for i in range(n):\n        less_ranks = [((ranks[j]", "ENC-S")
mutant("enc-avc-acyclic-no-distinct", "C04", GRAPH, "                if i < j:\n                    solver.ensure(ranks[j] != ranks[i])\n            solver.ensure(then(is_active[i], count_true(less_ranks + [is_root[i]]) == 1))", "                pass\n            solver.ensure(then(is_active[i], count_true(less_ranks + [is_root[i]]) == 1))", "ENC-S")
mutant("enc-avc-acyclic-as-connected", "C04", GRAPH, "            solver.ensure(then(is_active[i], count_true(less_ranks + [is_root[i]]) == 1))\n        else:", "            solver.ensure(then(is_active[i], count_true(less_ranks + [is_root[i]]) >= 1))\n        else:", "ENC-S")
mutant("enc-grid-graph-guard", ["C04", "C08"], GRAPH, "            if x < width - 1:\n                graph.add_edge(y * width + x, y * width + (x + 1))", "            if x < width:\n                graph.add_edge(y * width + x, y * width + (x + 1))", "ALG-6")
mutant("enc-grid-graph-stride", ["C04", "C08"], GRAPH, "                graph.add_edge(y * width + x, (y + 1) * width + x)", "                graph.add_edge(y * width + x, (y + 1) * height + x)", "ALG-6")
variant("enc-avc-flipped-compare", "C04", GRAPH, AVC, AVC.replace("ranks[j] < ranks[i]", "ranks[i] > ranks[j]"))
variant("enc-avc-count-gt0", "C04", GRAPH, "            solver.ensure(then(is_active[i], count_true(less_ranks + [is_root[i]]) >= 1))", "            solver.ensure(then(is_active[i], count_true([is_root[i]] + less_ranks) > 0))")
variant("enc-avc-root-lt2", "C04", GRAPH, "    solver.ensure(count_true(is_root) <= 1)\n\n\n@overload\ndef active_vertices_connected(", "    solver.ensure(~(count_true(is_root) >= 2))\n\n\n@overload\ndef active_vertices_connected(")
variant("enc-avc-bigger-ranks", "C04", GRAPH, "    ranks = solver.int_array(n, 0, n - 1)\n    is_root = solver.bool_array(n)\n\n    for i in range(n):\n        less_ranks = [((ranks[j]", "    is_root = solver.bool_array(n)\n    ranks = solver.int_array(n, 1, n + 3)\n\n    for i in range(n):\n        less_ranks = [((ranks[j]")

# ---- C09 ---------------------------------------------------------------------------------------
AEA = "            less_ranks.append((ranks[j] < ranks[i]) & is_active_edge[e])"
# (ranks[j] <= ranks[i]) is equivalent here because adjacent ranks are forced distinct: triage finds no witness and reports undecided
mutant("enc-aea-two-parents", "C09", GRAPH, "        solver.ensure(count_true(less_ranks) <= 1)\n\n\ndef _division_connected(", "        solver.ensure(count_true(less_ranks) <= 2)\n\n\ndef _division_connected(", "ENC-S")
mutant("enc-aea-no-distinct", "C09", GRAPH, "            if i < j:\n                solver.ensure(ranks[i] != ranks[j])\n        solver.ensure(count_true(less_ranks) <= 1)", "        solver.ensure(count_true(less_ranks) <= 1)", "ENC-S")
mutant("enc-aea-domain", "C09", GRAPH, "    n = graph.num_vertices\n\n    ranks = solver.int_array(n, 0, n - 1)\n\n    for i in range(n):\n        less_ranks = []", "    n = graph.num_vertices\n\n    ranks = solver.int_array(n, 0, (n - 1) // 2)\n\n    for i in range(n):\n        less_ranks = []", "ENC-S")
mutant("enc-aea-ignores-edge", "C09", GRAPH, AEA, "            less_ranks.append((ranks[j] < ranks[i]) & is_active_edge[min(e, 0)])", "ENC-S")
mutant("enc-aea-exactly-one", "C09", GRAPH, "        solver.ensure(count_true(less_ranks) <= 1)\n\n\ndef _division_connected(", "        solver.ensure(count_true(less_ranks) == 1)\n\n\ndef _division_connected(", "ENC-S")
variant("enc-aea-flipped", "C09", GRAPH, AEA, "            less_ranks.append(is_active_edge[e] & (ranks[i] > ranks[j]))")
variant("enc-aea-lt2", "C09", GRAPH, "        solver.ensure(count_true(less_ranks) <= 1)\n\n\ndef _division_connected(", "        solver.ensure(count_true(less_ranks) < 2)\n\n\ndef _division_connected(")

# ---- C05 ---------------------------------------------------------------------------------------
mutant("enc-div-list-equality", "C05", GRAPH, "            for v in range(n):\n                solver.ensure(region[v] == (division[v] == i))\n", "            solver.ensure(region == (division == i))\n", "ENC-S", "the original defect")
# rank[i] >= rank[j] on forest edges is equivalent (forest edges force different ranks): triage reports undecided
mutant("enc-div-no-label-eq", "C05", GRAPH, "spanning_forest[e].then((division[i] == division[j]) & (rank[i] != rank[j]))", "spanning_forest[e].then(rank[i] != rank[j])", "ENC-S")
# dropping (rank[i] != rank[j]) on forest edges is harmless (equal-rank forest edges support nobody): triage reports undecided
mutant("enc-div-root-count", "C05", GRAPH, "        solver.ensure(count_true(less_ranks) == is_root[i].cond(0, 1))\n    for i in range(num_regions):", "        solver.ensure(count_true(less_ranks) == is_root[i].cond(1, 0))\n    for i in range(num_regions):", "ENC-S")
mutant("enc-div-empty-allowed", "C05", GRAPH, "            solver.ensure(count_true([r & (n == i) for r, n in zip(is_root, division)]) == 1)", "            solver.ensure(count_true([r & (n == i) for r, n in zip(is_root, division)]) <= 1)", "ENC-S")
mutant("enc-div-roots-ignored-native", "C05", GRAPH, "                    solver.ensure(division[r] == i)\n        return", "                    pass\n        return", "ENC-S")
mutant("enc-div-native-nonempty-dropped", "C05", GRAPH, "            if not allow_empty_group:\n                solver.ensure(count_true(region) >= 1)", "            if allow_empty_group:\n                solver.ensure(count_true(region) >= 1)", "ENC-S")
mutant("alg-roots-conversion", "C05", GRAPH, "                    roots_conv.append(y * width + x)", "                    roots_conv.append(y * height + x)", "ALG-10")
mutant("alg-roots-swapped", "C05", GRAPH, "                    roots_conv.append(y * width + x)", "                    roots_conv.append(x * width + y)", "ALG-10")
variant("enc-div-flipped", "C05", GRAPH, "            less_ranks.append(spanning_forest[e] & (rank[i] > rank[j]))", "            less_ranks.append((rank[j] < rank[i]) & spanning_forest[e])")

# ---- C06 ---------------------------------------------------------------------------------------
CYC_DEG = """            degree = count_true([is_active_edge[e] for j, e in graph.incident_edges[i]])
            solver.ensure(degree == is_passed[i].cond(2, 0))
            solver.ensure(
                is_passed[i].then("""
mutant("enc-cycle-degree-3", "C06", GRAPH, CYC_DEG, CYC_DEG.replace("is_passed[i].cond(2, 0))\n            solver.ensure(", "is_passed[i].cond(3, 0))\n            solver.ensure("), "ENC-S")
mutant("enc-cycle-rank-strict", "C06", GRAPH, "                            is_active_edge[e] & (rank[j] >= rank[i])", "                            is_active_edge[e] & (rank[j] > rank[i])", "ENC-S")
mutant("enc-cycle-root-bound", "C06", GRAPH, "                    <= is_root[i].cond(2, 1)", "                    <= is_root[i].cond(2, 2)", "ENC-S")
mutant("enc-cycle-two-roots", "C06", GRAPH, "        solver.ensure(count_true(is_root) == 1)\n    return is_passed", "        solver.ensure(count_true(is_root) <= 2)\n    return is_passed", "ENC-S")
mutant("enc-cycle-returns-root", "C06", GRAPH, "        solver.ensure(count_true(is_root) == 1)\n    return is_passed", "        solver.ensure(count_true(is_root) == 1)\n        return is_root\n    return is_passed", "ENC-S")
mutant("enc-cycle-native-no-connectivity", "C06", GRAPH, """        line_graph = graph.line_graph()
        _active_vertices_connected(
            solver, is_active_edge, line_graph, acyclic=False, use_graph_primitive=True
        )
    else:
        rank = solver.int_array(n, 0, n - 1)""", """        line_graph = graph.line_graph()
    else:
        rank = solver.int_array(n, 0, n - 1)""", "ENC-S")
mutant("enc-line-graph-missing-pairs", "C06", GRAPH, "                for j in range(i):\n                    x = self.incident_edges[v][i][1]", "                for j in range(i - 1):\n                    x = self.incident_edges[v][i][1]", "ENC-S")
mutant("enc-path-endpoints-always-2", "C06", GRAPH, "        solver.ensure(count_true(is_endpoint) == fold_or(is_active_edge).cond(2, 0))", "        solver.ensure(count_true(is_endpoint) == 2)", "ENC-S", "the original defect")
mutant("enc-path-endpoints-0-or-2", "C06", GRAPH, "        solver.ensure(count_true(is_endpoint) == fold_or(is_active_edge).cond(2, 0))", "        solver.ensure((count_true(is_endpoint) == 2) | (count_true(is_endpoint) == 0))", "ENC-S", "admits a cycle")
mutant("enc-path-degree-3", "C06", GRAPH, "            solver.ensure(is_passed[i].then((degree == 1) | (degree == 2)))", "            solver.ensure(is_passed[i].then((degree >= 1) & (degree <= 3)))", "ENC-S")
mutant("enc-path-unpassed-free", "C06", GRAPH, "            solver.ensure((~is_passed[i]).then(degree == 0))\n", "", "ENC-S")
mutant("alg-cycle-reshape-transposed", "C06", GRAPH, """        is_passed_flat = _active_edges_single_cycle(
            solver, edges, graph, use_graph_primitive=use_graph_primitive
        )
        return is_passed_flat.reshape((is_active_edge.height + 1, is_active_edge.width + 1))""", """        is_passed_flat = _active_edges_single_cycle(
            solver, edges, graph, use_graph_primitive=use_graph_primitive
        )
        return is_passed_flat.reshape((is_active_edge.width + 1, is_active_edge.height + 1))""", "ALG-9")
variant("enc-path-degree-range", "C06", GRAPH, "            solver.ensure(is_passed[i].then((degree == 1) | (degree == 2)))", "            solver.ensure(is_passed[i].then((degree == 2) | (degree == 1)))")
variant("enc-cycle-rank-flipped", "C06", GRAPH, "                            is_active_edge[e] & (rank[j] >= rank[i])", "                            (rank[i] <= rank[j]) & is_active_edge[e]")

# ---- C07 ---------------------------------------------------------------------------------------
# `is_root.then(rank == 0)` is equivalent: a non-root needs a strictly lower neighbour, so it cannot have rank 0
mutant("enc-grp-root-id", "C07", GRAPH, "        solver.ensure(is_root[i].then(group_id[i] == i))", "        solver.ensure(is_root[i].then(group_id[i] >= 0))", "ENC-S")
mutant("enc-grp-edge-id", "C07", GRAPH, "        solver.ensure(is_active_edge[i].then(group_id[u] == group_id[v]))\n    if group_size is not None:", "        solver.ensure(is_active_edge[i].then(group_id[u] >= group_id[v]))\n    if group_size is not None:", "ENC-S")
mutant("enc-grp-parent-count", "C07", GRAPH, "                [is_active_edge[e] & (rank[j] < rank[i]) for j, e in graph.incident_edges[i]]\n            )\n            == is_root[i].cond(0, 1)", "                [is_active_edge[e] & (rank[j] < rank[i]) for j, e in graph.incident_edges[i]]\n            )\n            >= is_root[i].cond(0, 1)", "ENC-S")
mutant("enc-grp-size-plus", "C07", GRAPH, "                + 1\n                == downstream_size[i]", "                + 0\n                == downstream_size[i]", "ENC-S")
mutant("enc-grp-size-direction", "C07", GRAPH, "(is_active_edge[e] & (rank[j] > rank[i])).cond(downstream_size[j], 0)", "(is_active_edge[e] & (rank[j] < rank[i])).cond(downstream_size[j], 0)", "ENC-S")
mutant("enc-grp-root-total", "C07", GRAPH, "        solver.ensure(is_root.then(downstream_size == total_size))", "        solver.ensure(is_root.then(downstream_size <= total_size))", "ENC-S")
mutant("enc-grp-total-propagation", "C07", GRAPH, "                solver.ensure(is_active_edge[i].then(s == t))\n    return group_id", "                pass\n    return group_id", "ENC-S")
mutant("enc-grp-border-eq", "C07", GRAPH, "            solver.ensure(is_border[i] == (group_id[u] != group_id[v]))", "            solver.ensure(is_border[i].then(group_id[u] != group_id[v]))", "ENC-S", "non-border edges may join different groups")
mutant("enc-grp-returns-rank", "C07", GRAPH, "                solver.ensure(is_active_edge[i].then(s == t))\n    return group_id", "                solver.ensure(is_active_edge[i].then(s == t))\n    return rank", "ENC-S")
mutant("alg-borders-not-dual", "C07", GRAPH, "        edges, graph = _from_grid_frame(is_border.dual())\n        _division_connected_variable_groups_with_borders(", "        edges, graph = _from_grid_frame(BoolGridFrame(solver, is_border.height - 1, is_border.width - 1, horizontal=is_border.horizontal, vertical=is_border.vertical) if False else is_border.dual())\n        edges = list(reversed(edges))\n        _division_connected_variable_groups_with_borders(", "ALG-4D")
variant("enc-grp-flipped", "C07", GRAPH, "                [is_active_edge[e] & (rank[j] < rank[i]) for j, e in graph.incident_edges[i]]\n            )\n            == is_root[i].cond(0, 1)", "                [(rank[i] > rank[j]) & is_active_edge[e] for j, e in graph.incident_edges[i]]\n            )\n            == is_root[i].cond(0, 1)")

# ---- C08 ---------------------------------------------------------------------------------------
mutant("enc-na-slices-mixed", "C08", GRAPH, "        solver.ensure(~(is_active[:, 1:] & is_active[:, :-1]))", "        solver.ensure(~(is_active[:, 1:] & is_active[:-1, :]))", "ENC-S", "raises on non-square / wrong pairs")
mutant("enc-na-only-rows", "C08", GRAPH, "        solver.ensure(~(is_active[:, 1:] & is_active[:, :-1]))\n", "", "ENC-S")
mutant("enc-na-graph-or", "C08", GRAPH, "            solver.ensure(~(is_active[i] & is_active[j]))", "            solver.ensure(~(is_active[i] | is_active[j]))", "ENC-S")
mutant("enc-nas-generic-no-neg", "C08", GRAPH, "        active_vertices_connected(solver, ~is_active, graph)", "        active_vertices_connected(solver, is_active, graph)", "ENC-S")
mutant("enc-nas-generic-no-adjacent", "C08", GRAPH, "        active_vertices_not_adjacent(solver, is_active, graph)\n        active_vertices_connected(solver, ~is_active, graph)", "        active_vertices_connected(solver, ~is_active, graph)", "ENC-S")
mutant("enc-nas-rank-range", "C08", GRAPH, "        ranks = solver.int_array((height, width), 0, (height * width - 1) // 2)", "        ranks = solver.int_array((height, width), 0, (height * width - 1) // 4)", "ENC-S")
mutant("enc-nas-border-not-root", "C08", GRAPH, "                    is_active[y, x].then(count_true(less_ranks) <= (0 if nonzero else 1))", "                    is_active[y, x].then(count_true(less_ranks) <= 1)", "ENC-S")
# dropping `& is_active[y2, x2]` from the diagonal support only strengthens the constraint; no witness on boards up to 3x2 and the 3x3 enumeration exceeds the budget: undecided
mutant("enc-nas-no-distinct", "C08", GRAPH, "                            if (y2, x2) < (y, x):\n                                solver.ensure(ranks[y2, x2] != ranks[y, x])\n", "", "ENC-S")
mutant("enc-nas-diag-range", "C08", GRAPH, "                        if 0 <= y2 < height and 0 <= x2 < width:\n                            less_ranks.append", "                        if 0 <= y2 < height and 0 <= x2 < height:\n                            less_ranks.append", "ENC-S")
variant("enc-na-flipped-slices", "C08", GRAPH, "        solver.ensure(~(is_active[1:, :] & is_active[:-1, :]))", "        solver.ensure(~(is_active[:-1, :] & is_active[1:, :]))")
variant("enc-nas-bigger-range", "C08", GRAPH, "        ranks = solver.int_array((height, width), 0, (height * width - 1) // 2)", "        ranks = solver.int_array((height, width), 0, height * width)")

# ---- C10 ---------------------------------------------------------------------------------------
mutant("fdt-degree-le3", "C10", GRAPH, "                solver.ensure((is_passed[y, x] & ~is_cross[y, x]).then(d <= 2))", "                solver.ensure((is_passed[y, x] & ~is_cross[y, x]).then(d <= 3))", "FDT-1")
mutant("fdt-cycle-degree", "C10", GRAPH, "                solver.ensure((is_passed[y, x] & ~is_cross[y, x]).then(d == 2))", "                solver.ensure((is_passed[y, x] & ~is_cross[y, x]).then(d >= 1))", "FDT-1")
# widening the boundary test for ~is_cross is equivalent: a boundary point has degree <= 3, so crossing (degree 4) is impossible there anyway
mutant("fdt-unpassed-degree", "C10", GRAPH, "            solver.ensure((~is_passed[y, x]).then(d == 0))", "            solver.ensure((~is_passed[y, x]).then(d <= 1))", "FDT-1")
mutant("fdt-cross-degree", "C10", GRAPH, "            solver.ensure((is_passed[y, x] & is_cross[y, x]).then(d == 4))", "            solver.ensure((is_passed[y, x] & is_cross[y, x]).then(d >= 3))", "FDT-1")
mutant("split-wrong-half", "C10", GRAPH, "            g.add_edge(eid, v0 + 2)\n            g.add_edge(eid, v1)\n            g.add_edge(eid, v1 + 2)", "            g.add_edge(eid, v0 + 1)\n            g.add_edge(eid, v1)\n            g.add_edge(eid, v1 + 2)", "SPLIT")
mutant("split-missing-single", "C10", GRAPH, "            g.add_edge(eid, v0)\n            g.add_edge(eid, v0 + 1)\n            g.add_edge(eid, v1)\n            g.add_edge(eid, v1 + 1)", "            g.add_edge(eid, v0 + 1)\n            g.add_edge(eid, v1)\n            g.add_edge(eid, v1 + 1)", "SPLIT")
mutant("split-eid-offset", "C10", GRAPH, "            eid = height * width * 3 + (height - 1) * width + y * (width - 1) + x", "            eid = height * width * 3 + (height - 1) * width + y * width + x", "SPLIT")
mutant("split-double-as-single", "C10", GRAPH, "    solver.ensure(is_passed_double_vertical == is_cross)", "    solver.ensure(is_passed_double_vertical == is_passed)", "SPLIT")
mutant("split-single-def", "C10", GRAPH, "    solver.ensure(is_passed_single == (is_passed & ~is_cross))", "    solver.ensure(is_passed_single == is_passed)", "SPLIT")
mutant("split-gv-order", "C10", GRAPH, "            gv.append(is_passed_double_horizontal[y, x])\n            gv.append(is_passed_double_vertical[y, x])", "            gv.append(is_passed_double_vertical[y, x])\n            gv.append(is_passed_single[y, x])", "SPLIT")
variant("fdt-degree-range", "C10", GRAPH, "                solver.ensure((is_passed[y, x] & ~is_cross[y, x]).then(d >= 1))\n                solver.ensure((is_passed[y, x] & ~is_cross[y, x]).then(d <= 2))", "                solver.ensure((is_passed[y, x] & ~is_cross[y, x]).then((d == 1) | (d == 2)))")
variant("split-halves-swapped", "C10", GRAPH, ["            g.add_edge(eid, v0 + 2)\n            g.add_edge(eid, v1)\n            g.add_edge(eid, v1 + 2)", "            g.add_edge(eid, v0 + 1)\n            g.add_edge(eid, v1)\n            g.add_edge(eid, v1 + 1)", "@@A@@"], ["@@A@@", "            g.add_edge(eid, v0 + 2)\n            g.add_edge(eid, v1)\n            g.add_edge(eid, v1 + 2)", "            g.add_edge(eid, v0 + 1)\n            g.add_edge(eid, v1)\n            g.add_edge(eid, v1 + 1)"], "a consistent swap of the two pass-through halves is behaviour-preserving")

# ---- C11 kinds -------------------------------------------------------------------------------------
mutant("dk-yajilin-slice-bound", "C11", PZ + "yajilin.py", "count_true(black_cell[(y + 1) : height, x])", "count_true(black_cell[(y + 1) : width, x])", "DK", "slice bounds clamp silently: only the kind analysis sees it")
# blind spot: min(y + 1, width) on the row axis mixes a row value with a column value inside min(); mixed kinds are never reported (max(height, width) is legitimate)
mutant("dk-nurimisaki-compare-only", "C11", PZ + "nurimisaki.py", "                        cand.append(fold_and(is_white[y, (x + 1) : (x + n)], ~is_white[y, x + n]))", "                        cand.append(fold_and(is_white[y, (x + 1) : (x + n)], ~is_white[x + n, y]))", "DK")
variant("dk-value-bound-mixed", "C11", PZ + "view.py", "    nums = solver.int_array((height, width), 0, height + width)", "    nums = solver.int_array((height, width), 0, width + height)")

# ---- C17 compass parser (formerly known findings) ------------------------------------------------
CMP = "cspuz/puzzle/compass.py"
mutant("exc-compass-no-truncation-check", "C17", CMP, "                if i >= len(body):\n                    raise ValueError(\"truncated clue\")\n", "", "EXC-1")
mutant("exc-compass-zero-width", "C17", CMP, "    if height <= 0 or width <= 0:\n        raise ValueError(\"board size must be positive\")\n", "", "EXC-5")
mutant("exc-compass-unvalidated-hex", "C17", CMP, "                    if i + 3 > len(body) or not _is_hex(body[i + 1 : i + 3]):", "                    if i + 3 > len(body):", "EXC-6")
mutant("exc-compass-outside-board", "C17", CMP, "            if pos >= height * width:\n                raise ValueError(\"clue outside the board\")\n", "", "EXC-7")

# ---- constructs learnt from the third seeding round ---------------------------------------------------
mutant("vid4-iadd-appends", "C01", EXPR, """    def __radd__(self, other: IntExprLike) -> "IntExpr":
        return _make_int_expr(Op.ADD, [other, self])
""", """    def __radd__(self, other: IntExprLike) -> "IntExpr":
        return _make_int_expr(Op.ADD, [other, self])

    def __iadd__(self, other: IntExprLike) -> "IntExpr":
        if self.op == Op.ADD:
            self.operands.append(other)
            return self
        return self.__add__(other)
""", "VID-4")
mutant("vid4-operands-rebound", "C01", EXPR, """    def is_variable(self) -> bool:
        return False
""", """    def is_variable(self) -> bool:
        return False

    def simplify(self) -> "Expr":
        self.operands = [x for x in self.operands if x is not None]
        return self
""", "VID-4")
variant("vid4-iadd-fresh", "C01", EXPR, """    def __radd__(self, other: IntExprLike) -> "IntExpr":
        return _make_int_expr(Op.ADD, [other, self])
""", """    def __radd__(self, other: IntExprLike) -> "IntExpr":
        return _make_int_expr(Op.ADD, [other, self])

    def __iadd__(self, other: IntExprLike) -> "IntExpr":
        return _make_int_expr(Op.ADD, [self, other])
""")
mutant("ref-writeback-clears-only", "C02", SOLVER, """            if self.is_answer_key[i]:
                self.variables[i].sol = answer[i]
        return True""", """            if self.is_answer_key[i] and answer[i] is None:
                self.variables[i].sol = None
        return True""", "REF-E")
mutant("opc4-id-keyed-cache", "C03", SUGAR, """        return "({} {})".format(OP_TO_OPNAME[e.op], " ".join(map(_convert_expr, e.operands)))""", """        key = id(e)
        if key not in OP_TO_OPNAME:
            OP_TO_OPNAME[key] = "({} {})".format(OP_TO_OPNAME[e.op], " ".join(map(_convert_expr, e.operands)))
        return OP_TO_OPNAME[key]""", "OPC-4")
mutant("cfg3-find-spec", "C20", CONF, """    try:
        import z3  # type: ignore  # noqa

        return "z3"
    except ImportError:
        pass
""", """    import importlib.util

    if importlib.util.find_spec("z3") is not None:
        return "z3"
""", "CFG-3")
mutant("enc-acyclic-skip-constant-edges", "C09", GRAPH, """            less_ranks.append((ranks[j] < ranks[i]) & is_active_edge[e])""", """            if isinstance(is_active_edge[e], bool):
                continue
            less_ranks.append((ranks[j] < ranks[i]) & is_active_edge[e])""", "ENC-S")
mutant("pzx-sudoku-block-stride", "C11", PZ + "sudoku.py", "answer[y * n : (y + 1) * n, x * n : (x + 1) * n]", "answer[y * n : (y + 1) * n, x : x + n]", "PZ-X")
mutant("pzx-sudoku-columns-missing", "C11", PZ + "sudoku.py", "        solver.ensure(alldifferent(answer[:, i]))\n", "", "PZ-X")
mutant("pzx-sudoku-clue-off", "C11", PZ + "sudoku.py", "            if problem[y][x] >= 1:", "            if problem[y][x] >= 2:", "PZ-X")
mutant("pzx-yajilin-clue-cell-may-be-black", "C11", PZ + "yajilin.py", "                solver.ensure(~black_cell[y, x])\n", "", "PZ-X")
mutant("pzx-yajilin-right-clue-short", "C11", PZ + "yajilin.py", "count_true(black_cell[y, (x + 1) : width])", "count_true(black_cell[y, (x + 1) : width - 1])", "PZ-X")
mutant("pzx-putteria-columns-unchecked", "C11", PZ + "putteria.py", "                if block_size[y1][x] == block_size[y2][x]:", "                if block_size[y1][x] == block_size[y2][x] and False:", "PZ-X")
mutant("pzx-fillomino-small-clues-ignored", "C11", PZ + "fillomino.py", "            if problem[y][x] >= 1:", "            if problem[y][x] >= 3:", "PZ-X")
mutant("pzx-lits-same-shape-touching", "C11", PZ + "lits.py", "                        (num_straight[i] != num_straight[j]) | (has_t[i] != has_t[j])\n                    )\n                )\n            if x < width - 1", "                        (num_straight[i] != num_straight[j]) | (has_t[i] != has_t[j]) | True\n                    )\n                )\n            if x < width - 1", "PZ-X")
mutant("pzx-lits-2x2-allowed", "C11", PZ + "lits.py", "    solver.ensure(~(is_black[1:, 1:] & is_black[1:, :-1] & is_black[:-1, 1:] & is_black[:-1, :-1]))\n", "", "PZ-X")
mutant("pzx-building-reverse-view", "C11", PZ + "building.py", "            solver.ensure(num_visible_buildings(reversed(list(answer[:, i]))) == dw[i])", "            solver.ensure(num_visible_buildings(answer[:, i]) == dw[i])", "PZ-X")
# equal heights cannot occur in a Latin row, so <= is the same visibility test
variant("pzx-building-visible-le", "C11", PZ + "building.py", "fold_and([cells[j] < cells[i] for j in range(i)])", "fold_and([cells[j] <= cells[i] for j in range(i)])")
mutant("pzx-doppelblock-sum-includes-ends", "C11", PZ + "doppelblock.py", "(fold_or(cells[:i] == 0) & fold_or(cells[i + 1 :] == 0)).cond(cells[i], 0)", "(fold_or(cells[:i] == 0) | fold_or(cells[i + 1 :] == 0)).cond(cells[i], 0)", "PZ-X")
mutant("pzx-castle-wall-inside-flipped", "C11", PZ + "castle_wall.py", "                solver.ensure(is_inside[y, x] == grid_frame[0, x * 2 + 1])", "                solver.ensure(is_inside[y, x] != grid_frame[0, x * 2 + 1])", "PZ-X")
# (counting the whole row instead of the part beyond the clue is unobservable on boards of at most 13 edges: removed)
mutant("pzx-castle-wall-clue-on-loop", "C11", PZ + "castle_wall.py", "            solver.ensure(~passed[y, x])\n", "", "PZ-X")
mutant("pzx-shakashaka-clue-counts-empty", "C11", PZ + "shakashaka.py", "count_true(answer.four_neighbors(y, x) != 0) == problem[y][x]", "count_true(answer.four_neighbors(y, x) == 0) == problem[y][x]", "PZ-X")
mutant("pzx-shakashaka-white-angle", "C11", PZ + "shakashaka.py", "            solver.ensure(count_true(is_white_angle) != 3)\n", "", "PZ-X")
mutant("pzx-nurimisaki-2x2-white-allowed", "C11", PZ + "nurimisaki.py", "    solver.ensure(~(is_white[:-1, :-1] & is_white[1:, :-1] & is_white[:-1, 1:] & is_white[1:, 1:]))\n", "", "PZ-X")
mutant("pzx-compass-left-counts-right", "C11", PZ + "compass.py", "            solver.ensure(count_true(division[:, :x] == i) == lf)\n        if rg >= 0:\n            solver.ensure(count_true(division[:, (x + 1) :] == i) == rg)\n    is_sat = solver.solve()", "            solver.ensure(count_true(division[:, x:] == i) == lf)\n        if rg >= 0:\n            solver.ensure(count_true(division[:, (x + 1) :] == i) == rg)\n    is_sat = solver.solve()", "PZ-X")
mutant("pzx-geradeweg-vertical-uses-horizontal", "C11", PZ + "geradeweg.py", "                        line_length(reversed(list(grid_frame.vertical[:y, x])))\n                        + line_length(grid_frame.vertical[y:, x])", "                        line_length(reversed(list(grid_frame.vertical[:y, x])))\n                        + line_length(grid_frame.vertical[y + 1:, x])", "PZ-X")
mutant("pzx-view-same-number-adjacent", "C11", PZ + "view.py", "    solver.ensure((has_number[:, :-1] & has_number[:, 1:]).then(nums[:, :-1] != nums[:, 1:]))\n", "", "PZ-X")
mutant("pzx-fivecells-border-count-off", "C11", PZ + "fivecells.py", "                always_border = 4 - len(borders)", "                always_border = 3 - len(borders)", "PZ-X")

# ---- constructs learnt from the fifth seeding round ----------------------------------------------------
mutant("vid5-ensure-two-passes", "C01", SOLVER, """        for x in flatten_iterator(*constraint):
            if isinstance(x, (BoolExpr, bool)):
                self.constraints.append(x)
            else:
                raise TypeError("each element in 'constraint' must be BoolExpr-like")""", """        for x in flatten_iterator(*constraint):
            if not isinstance(x, (BoolExpr, bool)):
                raise TypeError("each element in 'constraint' must be BoolExpr-like")
        self.constraints.extend(flatten_iterator(*constraint))""", "VID-5")
variant("vid5-ensure-collect-then-extend", "C01", SOLVER, """        for x in flatten_iterator(*constraint):
            if isinstance(x, (BoolExpr, bool)):
                self.constraints.append(x)
            else:
                raise TypeError("each element in 'constraint' must be BoolExpr-like")""", """        items = list(flatten_iterator(*constraint))
        for x in items:
            if not isinstance(x, (BoolExpr, bool)):
                raise TypeError("each element in 'constraint' must be BoolExpr-like")
            self.constraints.append(x)""")
mutant("ref-skip-first-solve-when-sol-present", "C02", SOLVER, """        if not csp_solver.solve():
            # inconsistent problem
            return False""", """        if any(v.sol is None for v in self.variables) and not csp_solver.solve():
            # inconsistent problem
            return False""", "REF-E")
mutant("rng2-seed-only-when-switched-on", "C19", "cspuz/generator/srandom.py", """    _use_deterministic_prng = enabled
    if enabled:
        if seed is None:
            seed = 0
        drandom.seed(seed)""", """    if enabled and not _use_deterministic_prng:
        drandom.seed(0 if seed is None else seed)
    _use_deterministic_prng = enabled""", "RNG-2")

# ---- round 6: rules added for the sixth seeding round -----------------------------------------------
mutant("vid3-no-variables-shortcut", "C01", SOLVER, """        backend_type = _get_backend(backend)
        csp_solver = backend_type(self.variables)  # type: ignore
        csp_solver.add_constraint(self.constraints)
        return csp_solver.solve()
""", """        if len(self.variables) == 0:
            return True
        backend_type = _get_backend(backend)
        csp_solver = backend_type(self.variables)  # type: ignore
        csp_solver.add_constraint(self.constraints)
        return csp_solver.solve()
""", "VID-3")
variant("vid3-empty-program-shortcut", "C01", SOLVER, """        backend_type = _get_backend(backend)
        csp_solver = backend_type(self.variables)  # type: ignore
        csp_solver.add_constraint(self.constraints)
        return csp_solver.solve()
""", """        if not self.constraints:
            return True
        backend_type = _get_backend(backend)
        csp_solver = backend_type(self.variables)  # type: ignore
        csp_solver.add_constraint(self.constraints)
        return csp_solver.solve()
""", "an empty program is satisfiable")
mutant("agg-fold-row-count-shortcut", "C12", ARRAY, """        return _elementwise(Op.XOR, self.shape, [other, self])

    def fold_or(self) -> BoolExpr:
        return BoolExpr(Op.OR, self.data)

    def fold_and(self) -> BoolExpr:
        return BoolExpr(Op.AND, self.data)

    @overload
    def __getitem__(self, key: Tuple[int, int]) -> BoolExpr: ...""", """        return _elementwise(Op.XOR, self.shape, [other, self])

    def fold_or(self) -> BoolExpr:
        if len(self) == 1 and self.data:
            return self.data[0]
        return BoolExpr(Op.OR, self.data)

    def fold_and(self) -> BoolExpr:
        return BoolExpr(Op.AND, self.data)

    @overload
    def __getitem__(self, key: Tuple[int, int]) -> BoolExpr: ...""", "AGG")
variant("agg-fold-single-element-shortcut", "C12", ARRAY, """        return _elementwise(Op.XOR, self.shape, [other, self])

    def fold_or(self) -> BoolExpr:
        return BoolExpr(Op.OR, self.data)

    def fold_and(self) -> BoolExpr:
        return BoolExpr(Op.AND, self.data)

    @overload
    def __getitem__(self, key: Tuple[int, int]) -> BoolExpr: ...""", """        return _elementwise(Op.XOR, self.shape, [other, self])

    def fold_or(self) -> BoolExpr:
        if len(self.data) == 1:
            return self.data[0]
        return BoolExpr(Op.OR, self.data)

    def fold_and(self) -> BoolExpr:
        return BoolExpr(Op.AND, self.data)

    @overload
    def __getitem__(self, key: Tuple[int, int]) -> BoolExpr: ...""", "the OR of one element is that element")
mutant("groups-grid-form-transposed", "C07", GRAPH, "solver, _grid_graph(height, width), group_size=group_size_converted", "solver, _grid_graph(width, height), group_size=group_size_converted", "ENC-S")
mutant("seg-connectivity-three-directions", "C18", GSEG, "        visit(y, x - 1)\n", "", "SEG-C")
mutant("seg-connectivity-degree-shortcut", "C18", GSEG, """    if block[0] == excluded:
        visit(*block[1])""", """    if excluded is not None and sum(p in block_set for p in ((excluded[0] - 1, excluded[1]), (excluded[0] + 1, excluded[1]), (excluded[0], excluded[1] - 1), (excluded[0], excluded[1] + 1))) != 2:
        return True
    if block[0] == excluded:
        visit(*block[1])""", "SEG-C")
mutant("pzx-simpleloop-parity-flipped", "C11", "cspuz/puzzle/simpleloop.py", "solver.ensure(is_passed[py, px] == (n_pass % 2 == 1))", "solver.ensure(is_passed[py, px] == (n_pass % 2 == 0))", "PZ-X")
mutant("pzx-magnets-domino-half", "C11", "cspuz/puzzle/magnets.py", "solver.ensure((plus[y, x] == minus[y, x + 1]) & (minus[y, x] == plus[y, x + 1]))", "solver.ensure(plus[y, x] == minus[y, x + 1])", "PZ-X")
mutant("pzx-nanro-count-off", "C11", "cspuz/puzzle/nanro.py", "solver.ensure((answer[y][x] == 0) | (answer[y][x] == nonempty))", "solver.ensure((answer[y][x] == 0) | (answer[y][x] >= nonempty))", "PZ-X")
mutant("pzx-nurimaze-path-degree", "C11", "cspuz/puzzle/nurimaze.py", "solver.ensure(path[y, x].then(count_true(path.four_neighbors(y, x)) == 2))", "solver.ensure(path[y, x].then(count_true(path.four_neighbors(y, x)) >= 1))", "PZ-X")
mutant("pzx-slalom-order-not-stepped", "C11", "cspuz/puzzle/slalom.py", ").then((gate_ord[y2, x2] == gate_ord[y, x] - 1))", ").then((gate_ord[y2, x2] == gate_ord[y, x]))", "PZ-X")
variant("pzx-slalom-order-strictly-increasing", "C11", "cspuz/puzzle/slalom.py", ").then((gate_ord[y2, x2] == gate_ord[y, x] - 1))", ").then((gate_ord[y2, x2] <= gate_ord[y, x] - 1))",
        "with as many gates as order values, strictly increasing is the same as stepping by one (found when this edit was first listed as a mutant)")
mutant("url-slalom-gate-end-by-width", "C16", "cspuz/puzzle/slalom.py", "                ends.append((y - 1, x, 2))\n            if y + l < height:", "                ends.append((y - 1, x, 2))\n            if y + l < width:", "URL-W", "the original defect")
variant("url-slalom-gate-end-le", "C16", "cspuz/puzzle/slalom.py", "                ends.append((y - 1, x, 2))\n            if y + l < height:", "                ends.append((y - 1, x, 2))\n            if y + l <= height - 1:")
mutant("url-nanro-border-order", "C16", "cspuz/puzzle/nanro.py", "            s.append(1 if block_id[y][x] != block_id[y + 1][x] else 0)\n    ret += convert_binary_seq(s)", "            s.append(1 if block_id[y][x] != block_id[y + 1][x] else 0)\n    ret = convert_binary_seq(s) + ret", "URL-W")
mutant("url-nurimaze-mark-code", "C16", "cspuz/puzzle/nurimaze.py", "                v = mark[y][x] + 2", "                v = mark[y][x] + 1", "URL-W")
mutant("rng-pinned-generator-ambient", "C19", "cspuz/puzzle/masyu.py", ["import sys\nimport subprocess\n", "        clue_penalty=lambda problem: count_non_default_values(problem, default=0, weight=10),\n        verbose=verbose,\n    )\n    return generated\n\n\nMASYU_COMBINATOR"],
       ["import random\nimport sys\nimport subprocess\n", "        clue_penalty=lambda problem: count_non_default_values(problem, default=0, weight=10 + random.randint(0, 1)),\n        verbose=verbose,\n    )\n    return generated\n\n\nMASYU_COMBINATOR"], "RNG-9")
variant("rng-pinned-generator-import-only", "C19", "cspuz/puzzle/masyu.py", "import sys\nimport subprocess\n", "import random  # noqa: F401\nimport sys\nimport subprocess\n", "an unused import draws nothing")
mutant("ref-e-no-variables-shortcut", "C02", SOLVER, """        if not any(self.is_answer_key):
            warnings.warn("no answer key is given")
        backend_type = _get_backend(backend)""", """        if not any(self.is_answer_key):
            warnings.warn("no answer key is given")
        if len(self.variables) == 0:
            return True
        backend_type = _get_backend(backend)""", "REF-E")

# ---- round 7 ---------------------------------------------------------------------------------------
mutant("z3m-constant-false-filtered", "C01", Z3, "        solver.add(self.converted_constraints)", "        solver.add([c for c in self.converted_constraints if z3.is_expr(c)])", "Z3M-3")
variant("z3m-constraints-added-one-by-one", "C01", Z3, "        solver.add(self.converted_constraints)", "        for c in self.converted_constraints:\n            solver.add(c)")
mutant("sgr-list-batch-replaces", "C03", SUGAR, "            self.converted_constraints += map(_convert_expr, constraint)", "            self.converted_constraints = list(map(_convert_expr, constraint))", "SGR-5")
variant("sgr-list-batch-extend", "C03", SUGAR, "            self.converted_constraints += map(_convert_expr, constraint)", "            self.converted_constraints.extend(_convert_expr(c) for c in constraint)")
mutant("cfg-fallback-first-solve-default-backend", "C20", SOLVER, """        if not csp_solver.solve():
            # inconsistent problem""", """        if not self.find_answer():
            # inconsistent problem""", "CFG-1")
mutant("ref-fallback-first-solve-other-backend", "C02", SOLVER, """        if not csp_solver.solve():
            # inconsistent problem""", """        if not self.find_answer():
            # inconsistent problem""", "REF-E")
mutant("gen-symmetric-adjacency-manhattan", "C19", GBUILD, "                    if (y2 - y, x2 - x) in self.disallow_adjacent:", "                    if self.disallow_adjacent and abs(y2 - y) + abs(x2 - x) == 1:", "GEN-2")
mutant("seg-one-line-split-by-slice", "C18", GSEG, """                if len(block) >= self.min_block_size * 2:
""", """                if len(block) >= self.min_block_size * 2:
                    if height == 1 or width == 1:
                        for k in range(self.min_block_size, len(block) - self.min_block_size + 1):
                            ret.append(([i], [block[:k], block[k:]]))
                        continue
""", "SEG-E")
mutant("ench-grid-graph-cached-by-size", "C04", GRAPH, """def _grid_graph(height: int, width: int) -> Graph:
    graph = Graph(height * width)
""", """_GRID_GRAPHS: dict = {}


def _grid_graph(height: int, width: int) -> Graph:
    if height * width in _GRID_GRAPHS:
        return _GRID_GRAPHS[height * width]
    graph = _GRID_GRAPHS[height * width] = Graph(height * width)
""", "ENC-H")
variant("ench-grid-graph-cached-by-shape", ["C04", "C05", "C07"], GRAPH, """def _grid_graph(height: int, width: int) -> Graph:
    graph = Graph(height * width)
""", """_GRID_GRAPHS: dict = {}


def _grid_graph(height: int, width: int) -> Graph:
    if (height, width) in _GRID_GRAPHS:
        return _GRID_GRAPHS[(height, width)]
    graph = _GRID_GRAPHS[(height, width)] = Graph(height * width)
""", "a memo keyed by the whole argument is correct")
mutant("opc6a-elementwise-flattens-sub", "C12", ARRAY, """        if bool_op:
            res.append(BoolExpr(op, expr_operands))""", """        if op in (Op.ADD, Op.SUB):
            expr_operands = [y for x in expr_operands for y in (x.operands if isinstance(x, IntExpr) and x.op == op else [x])]
        if bool_op:
            res.append(BoolExpr(op, expr_operands))""", "OPC-6A")
variant("opc6a-elementwise-flattens-add", "C12", ARRAY, """        if bool_op:
            res.append(BoolExpr(op, expr_operands))""", """        if op == Op.ADD:
            expr_operands = [y for x in expr_operands for y in (x.operands if isinstance(x, IntExpr) and x.op == op else [x])]
        if bool_op:
            res.append(BoolExpr(op, expr_operands))""", "addition is associative: flattening it keeps every element's value")

# ---- round 8 ---------------------------------------------------------------------------------------
mutant("opc6-invert-rewrites-le-as-ge", ["C01", "C12"], EXPR, """    def __invert__(self) -> "BoolExpr":
        return _make_bool_expr(Op.NOT, [self])""", """    def __invert__(self) -> "BoolExpr":
        if self.op == Op.LE:
            return _make_bool_expr(Op.GE, [self.operands[0], self.operands[1]])
        return _make_bool_expr(Op.NOT, [self])""", "OPC-6")
variant("opc6-invert-rewrites-le-as-gt", ["C01", "C12"], EXPR, """    def __invert__(self) -> "BoolExpr":
        return _make_bool_expr(Op.NOT, [self])""", """    def __invert__(self) -> "BoolExpr":
        if self.op == Op.LE:
            return _make_bool_expr(Op.GT, [self.operands[0], self.operands[1]])
        return _make_bool_expr(Op.NOT, [self])""", "not (a <= b) is a > b")
mutant("z3m-add-constraint-filters-constants", ["C01", "C02"], Z3, """            self.converted_constraints += map(
                lambda e: _convert_expr(e, self.variables_dict), constraint
            )""", """            converted = [_convert_expr(e, self.variables_dict) for e in constraint]
            self.converted_constraints += [c for c in converted if not isinstance(c, bool)]""", "Z3M-4")
variant("z3m-add-constraint-drops-true", ["C01", "C02"], Z3, """            self.converted_constraints += map(
                lambda e: _convert_expr(e, self.variables_dict), constraint
            )""", """            converted = [_convert_expr(e, self.variables_dict) for e in constraint]
            self.converted_constraints += [c for c in converted if c is not True]""", "a constraint that is the constant True may be dropped")
mutant("opc6a-zero-literal-fast-path", "C12", ARRAY, """    size = functools.reduce(lambda x, y: x * y, shape, 1)
""", """    if op in [Op.ADD, Op.SUB]:
        for zero, other in (operands, operands[::-1]):
            if type(zero) is int and zero == 0 and isinstance(other, (Array1D, Array2D)):
                return cast(Union["IntArray1D", "IntArray2D"], other)
    size = functools.reduce(lambda x, y: x * y, shape, 1)
""", "OPC-6A")
mutant("rt-is-hex-accepts-capitals", "C15", SER, "        if not (48 <= i <= 57 or 97 <= i <= 102):", "        if not (48 <= i <= 57 or 97 <= i <= 102 or 65 <= i <= 70):", "RT-LEAF")
mutant("exc-is-hex-accepts-capitals", "C17", SER, "        if not (48 <= i <= 57 or 97 <= i <= 102):", "        if not (48 <= i <= 57 or 97 <= i <= 102 or 65 <= i <= 70):", "EXC-6V")
mutant("rng10-random-keeps-first-generator", "C19", DRND, """    global _rng
    return float(_rng.next()) / _XORSHIFT_DOMAIN_SIZE""", """    rng = random.__dict__.setdefault("rng", _rng) if False else _FIRST.setdefault("rng", _rng)
    return float(rng.next()) / _XORSHIFT_DOMAIN_SIZE


_FIRST: dict = {}""", "RNG-10")
mutant("cfg6-strtobool-zero-true", "C20", CONF, """    elif s in ("false", "0"):
        return False""", """    elif s == "false":
        return False
    elif s.isdigit():
        return bool(s)""", "CFG-6")
# ---- round 9 ------------------------------------------------------------------------------------
mutant("sgr3-deduction-unsat-keeps-earlier-facts", ["C03", "C02"], SUGAR, """        out = self._call_solver(csp_description).split("\\n")
        for v in self.variables:
            v.sol = None

        if "unsat" in out[0]:""", """        out = self._call_solver(csp_description).split("\\n")

        if "unsat" in out[0]:""", "SGR-3")
variant("sgr3-deduction-reset-after-unsat-test", ["C03", "C02"], SUGAR, """        out = self._call_solver(csp_description).split("\\n")
        for v in self.variables:
            v.sol = None

        if "unsat" in out[0]:
            return False
""", """        out = self._call_solver(csp_description).split("\\n")

        if "unsat" in out[0]:
            for v in self.variables:
                v.sol = None
            return False
""", "the reset may move into the unsat branch: the sat branch assigns every variable anyway")
mutant("z3m-unknown-verdict-as-unsat", ["C01", "C02"], Z3, "        if solver.check() == z3.unsat:", "        if solver.check() != z3.sat:", "Z3M-3")
variant("z3m-verdict-kept-in-local", ["C01", "C02"], Z3, """        if solver.check() == z3.unsat:
            return False
""", """        verdict = solver.check()
        if verdict == z3.unsat:
            return False
""", "the verdict may be named")
mutant("agg-four-neighbor-indices-memoised", "C12", ARRAY, """def _four_neighbor_indices(
    shape: Tuple[int, int], y: Union[int, Tuple[int, int]], x: Optional[int]
) -> List[Tuple[int, int]]:""", """@functools.lru_cache(maxsize=None)
def _four_neighbor_indices(
    shape: Tuple[int, int], y: Union[int, Tuple[int, int]], x: Optional[int]
) -> List[Tuple[int, int]]:""", "AGG")
mutant("rt-grid-serialize-forwards-position", "C15", SER, "        tmp = seq_combinator.serialize(env, [d_flat], 0)", "        tmp = seq_combinator.serialize(env, [d_flat], idx)", "RT-GRID")
mutant("exc-grid-serialize-forwards-position", "C17", SER, "        tmp = seq_combinator.serialize(env, [d_flat], 0)", "        tmp = seq_combinator.serialize(env, [d_flat], idx)", "EXC-7")
mutant("rt-valued-rooms-values-at-relative-offset", "C15", SER, "        values_res = value_combinator.deserialize(env, data, idx + ofs)", "        values_res = value_combinator.deserialize(env, data, ofs)", "RT-ROOMS")
mutant("exc-valued-rooms-values-at-relative-offset", "C17", SER, "        values_res = value_combinator.deserialize(env, data, idx + ofs)", "        values_res = value_combinator.deserialize(env, data, ofs)", "EXC-7")
mutant("ench-connected-tie-by-stored-direction", "C04", GRAPH, """        less_ranks = [((ranks[j] < ranks[i]) & is_active[j]) for j, _ in graph.incident_edges[i]]""", """        less_ranks = [(((ranks[j] < ranks[i]) if graph.edges[e][1] == i else ~(ranks[i] < ranks[j])) & is_active[j]) for j, e in graph.incident_edges[i]]""", "ENC-S")
variant("ench-connected-strict-written-as-negated-ge", "C04", GRAPH, """        less_ranks = [((ranks[j] < ranks[i]) & is_active[j]) for j, _ in graph.incident_edges[i]]""", """        less_ranks = [((~(ranks[j] >= ranks[i])) & is_active[j]) for j, _ in graph.incident_edges[i]]""", "~(a >= b) is a < b")
mutant("cfg-sugar-extended-derives-from-sugar", ["C20", "C02"], SUGAR, "class SugarExtendedBackend(SugarLikeBackend):", "class SugarExtendedBackend(SugarBackend):", "REF-6")
# ---- round 10 (Python-language subtleties) --------------------------------------------------------
_FOLD_OR_OLD = """def fold_or(*args: Any) -> BoolExpr:
    operands: List[BoolExpr] = []

    for x in flatten_iterator(*args):
        if isinstance(x, bool):
            if x is True:
                return BoolExpr(Op.BOOL_CONSTANT, [True])
        elif isinstance(x, BoolExpr):
            operands.append(x)
        else:
            raise TypeError()
"""
mutant("opc7-fold-or-walks-arguments-twice", ["C12", "C01"], CONS, _FOLD_OR_OLD, """def fold_or(*args: Any) -> BoolExpr:
    if any(x is True for x in flatten_iterator(*args)):
        return BoolExpr(Op.BOOL_CONSTANT, [True])

    operands: List[BoolExpr] = []
    for x in flatten_iterator(*args):
        if isinstance(x, BoolExpr):
            operands.append(x)
        elif not isinstance(x, bool):
            raise TypeError()
""", "OPC-7")
variant("opc7-fold-or-materialises-then-two-passes", ["C12", "C01"], CONS, _FOLD_OR_OLD, """def fold_or(*args: Any) -> BoolExpr:
    items = list(flatten_iterator(*args))
    for x in items:
        if not isinstance(x, (bool, BoolExpr)):
            raise TypeError()
        if x is True:
            break
    else:
        x = None
    operands: List[BoolExpr] = []
    for x in items:
        if isinstance(x, bool):
            if x is True:
                return BoolExpr(Op.BOOL_CONSTANT, [True])
        else:
            operands.append(x)
""", "walking a materialised list twice is fine (a TypeError for an ill-typed item behind a literal True is outside the property)")
mutant("slc-coordinate-key-walked-twice", "C13", ARRAY, """            data = []
            for idx in key:
                if not isinstance(idx, tuple) or len(idx) != 2:
                    raise TypeError("values in index arrays must be tuples of 2 elements")
                y, x = idx
                if not isinstance(y, int) or not isinstance(x, int):
                    raise TypeError("tuple elements for indexing must be of int type")
                data.append(self._getitem_impl((y, x)))
            return Array1D(data)
""", """            for idx in key:
                if not isinstance(idx, tuple) or len(idx) != 2:
                    raise TypeError("values in index arrays must be tuples of 2 elements")
                y, x = idx
                if not isinstance(y, int) or not isinstance(x, int):
                    raise TypeError("tuple elements for indexing must be of int type")
            return Array1D(self._getitem_impl(idx) for idx in key)
""", "SLC-G")
variant("slc-coordinate-key-materialised-first", "C13", ARRAY, """            data = []
            for idx in key:
                if not isinstance(idx, tuple) or len(idx) != 2:""", """            data = []
            key = list(key)
            for idx in key:
                if not isinstance(idx, tuple) or len(idx) != 2:""", "materialising the key first is fine")
mutant("rt-oneof-keeps-the-callers-list", "C15", SER, """        self._choices: List[Combinator[T]] = []
        for choice in choices:
            if isinstance(choice, list):
                self._choices += choice
            else:
                self._choices.append(choice)
""", """        self._choices: List[Combinator[T]] = choices[0] if choices and isinstance(choices[0], list) else []
        for choice in choices[1 if choices and isinstance(choices[0], list) else 0:]:
            if isinstance(choice, list):
                self._choices += choice
            else:
                self._choices.append(choice)
""", "RT-LEAF")
mutant("sgr5-declarations-kept-as-map-object", ["C03", "C02"], SUGAR, ["        self.converted_variables = list(map(_convert_variable, self.variables))",
       '        csp_description = "\\n".join(self.converted_variables + self.converted_constraints)'],
       ["        self.converted_variables = map(_convert_variable, self.variables)",
        '        csp_description = "\\n".join([*self.converted_variables, *self.converted_constraints])'], "SGR-5")
variant("sgr5-declarations-by-comprehension-unpacked", ["C03", "C02"], SUGAR, ["        self.converted_variables = list(map(_convert_variable, self.variables))",
       '        csp_description = "\\n".join(self.converted_variables + self.converted_constraints)'],
       ["        self.converted_variables = [_convert_variable(v) for v in self.variables]",
        '        csp_description = "\\n".join([*self.converted_variables, *self.converted_constraints])'], "a list can be unpacked any number of times")
mutant("cfg4-flag-read-through-default-argument", ["C20", "C04"], GRAPH, ["""    if use_graph_primitive is None:
        use_graph_primitive = config.use_graph_primitive
    if use_graph_primitive and not acyclic:""", """def _active_vertices_connected(
"""], ["""    use_graph_primitive = _flag_or_default(use_graph_primitive)
    if use_graph_primitive and not acyclic:""", """def _flag_or_default(flag: Optional[bool], default: bool = config.use_graph_primitive) -> bool:
    return default if flag is None else flag


def _active_vertices_connected(
"""], "CFG-4")
variant("cfg4-flag-read-through-helper-at-call-time", ["C20", "C04"], GRAPH, ["""    if use_graph_primitive is None:
        use_graph_primitive = config.use_graph_primitive
    if use_graph_primitive and not acyclic:""", """def _active_vertices_connected(
"""], ["""    use_graph_primitive = _flag_or_default(use_graph_primitive)
    if use_graph_primitive and not acyclic:""", """def _flag_or_default(flag: Optional[bool]) -> bool:
    return config.use_graph_primitive if flag is None else flag


def _active_vertices_connected(
"""], "the helper reads the configuration when it is called")
# found by the second-generation mutation sweep: dispatch of the function forms cond / then on which operand is the array
mutant("opc6a-cond-ignores-array-condition", "C12", CONS, """    if isinstance(c, (BoolArray1D, BoolArray2D)):
        shape = c.shape
    elif isinstance(t, (IntArray1D, IntArray2D)):""", """    if isinstance(t, (IntArray1D, IntArray2D)):""", "OPC-6A")
mutant("opc6a-cond-ignores-array-else-branch", "C12", CONS, """    elif isinstance(f, (IntArray1D, IntArray2D)):
        shape = f.shape
""", "", "OPC-6A")
mutant("vid6-int-var-bounds-swapped", "C01", SOLVER, "        v = IntVar(len(self.variables), lo, hi)", "        v = IntVar(len(self.variables), hi, lo)", "VID-6")
mutant("vid6-int-array-one-variable-short", "C01", SOLVER, "        vars = [self.int_var(lo, hi) for _ in range(size)]", "        vars = [self.int_var(lo, hi) for _ in range(size - 1)]", "VID-6")
mutant("vid6-bool-array-2d-shape-transposed", "C01", SOLVER, "            return BoolArray2D(vars, cast(Tuple[int, int], shape))", "            return BoolArray2D(vars, cast(Tuple[int, int], shape[::-1]))", "VID-6")
variant("vid6-size-by-math-prod", "C01", SOLVER, ["        size = functools.reduce(lambda x, y: x * y, shape, 1)\n        vars = [self.bool_var() for _ in range(size)]"],
        ["        size = 1\n        for extent in shape:\n            size *= extent\n        vars = [self.bool_var() for _ in range(size)]"], "the size computed by a loop")
mutant("alg9-single-loop-arguments-swapped", "C06", "cspuz/grid_frame.py", "        return graph.active_edges_single_cycle(self.solver, self)", "        return graph.active_edges_single_cycle(self, self.solver)", "ALG-9")
mutant("opc7-flatten-iterator-one-level-only", ["C12", "C01"], CONS, """            for xs in arg:
                for x in flatten_iterator(xs):
                    yield x""", """            for xs in arg:
                yield xs""", "OPC-7")
# ---- round 11 (error handling) ---------------------------------------------------------------------
mutant("z3m5-constant-alldifferent-left-to-distinct", ["C01", "C02"], Z3, """            if not any(z3.is_expr(x) for x in operands):
                # z3.Distinct needs at least one z3 term: decide a constant-only list here
                return len(set(operands)) == len(operands)
            return z3.Distinct(operands)""", """            return z3.Distinct(operands)""", "Z3M-5", "the original defect: z3.Distinct raises without a z3 term")
mutant("z3m5-constant-alldifferent-answered-true", ["C01", "C02"], Z3, """                return len(set(operands)) == len(operands)""", """                return True""", "Z3M-5")
variant("z3m5-constant-alldifferent-by-pairwise-loop", ["C01", "C02"], Z3, """                return len(set(operands)) == len(operands)""",
        """                return all(a != b for i, a in enumerate(operands) for b in operands[i + 1:])""", "pairwise comparison instead of a set")
mutant("gen1-timeout-swallowed-unless-verbose", "C19", GCORE, """            is_sat, *answer = solver(next_problem)
            if not is_sat:
                continue
""", """            try:
                is_sat, *answer = solver(next_problem)
                if not is_sat:
                    continue
            except subprocess.TimeoutExpired:
                if verbose:
                    continue
""", "GEN-1")
mutant("cfg1-unknown-default-falls-back", "C20", SOLVER, """    backend_name = config.default_backend
    return _get_backend_by_name(backend_name)
""", """    backend_name = config.default_backend
    try:
        return _get_backend_by_name(backend_name)
    except ValueError:
        return _get_backend_by_name("z3")
""", "CFG-1")
# round 12 and the --ops 2 sweep of array.py
mutant("opc6a-elements-built-as-boolexpr", "C12", ARRAY, "        if bool_op:\n            res.append(BoolExpr(op, expr_operands))", "        if True:\n            res.append(BoolExpr(op, expr_operands))", "OPC-6A")

# ---- round 13 instance families ------------------------------------------------------------------
mutant("slc-int2d-scalar-fast-path-flat-negative", "C13", ARRAY, """    ) -> Union[IntExpr, IntArray1D, "IntArray2D"]:
        ret = super()._getitem_impl(key)""", """    ) -> Union[IntExpr, IntArray1D, "IntArray2D"]:
        if isinstance(key, tuple) and isinstance(key[0], int) and isinstance(key[1], int):
            height, width = self.shape
            if 0 <= key[0] < height and -width <= key[1] < width:
                return self.data[key[0] * width + key[1]]
        ret = super()._getitem_impl(key)""", "SLC-G")
variant("slc-int2d-scalar-fast-path-in-range", "C13", ARRAY, """    ) -> Union[IntExpr, IntArray1D, "IntArray2D"]:
        ret = super()._getitem_impl(key)""", """    ) -> Union[IntExpr, IntArray1D, "IntArray2D"]:
        if isinstance(key, tuple) and isinstance(key[0], int) and isinstance(key[1], int):
            height, width = self.shape
            if 0 <= key[0] < height and 0 <= key[1] < width:
                return self.data[key[0] * width + key[1]]
        ret = super()._getitem_impl(key)""")
mutant("seg-initial-one-sided-bounds", "C18", GSEG, """            is_met = True
            if not (self.min_num_blocks <= len(blocks) <= self.max_num_blocks):
                is_met = False
            for block in blocks:
                if not (self.min_block_size <= len(block) <= self.max_block_size):
                    is_met = False
            if is_met:""", """            if len(blocks) >= self.min_num_blocks and all(
                len(block) <= self.max_block_size for block in blocks
            ):""", "SEG-E")
mutant("pzx-fillomino-checkered-horizontal-one-way", "C11", PZ + "fillomino.py", "solver.ensure(border.horizontal == (color[:-1, :] != color[1:, :]))", "solver.ensure(border.horizontal.then(color[:-1, :] != color[1:, :]))", "PZ-X")
mutant("vid-answer-key-array-run-of-ids", ["C01", "C02"], SOLVER, "        for x in flatten_iterator(*variable):", """        rest = []
        for arg in variable:
            if isinstance(arg, (BoolArray1D, BoolArray2D, IntArray1D, IntArray2D)) and arg.data and all(
                isinstance(v, (BoolVar, IntVar)) for v in arg.data
            ):
                for i in range(arg.data[0].id, arg.data[0].id + len(arg.data)):
                    self.is_answer_key[i] = True
                continue
            rest.append(arg)
        for x in flatten_iterator(*rest):""", "VID-5")
