"""Self-check of the abstract evaluator (sa/core/fde.py, classworld.py) on *concrete* programs: a module of small functions that use
the Python constructs the repository uses (and the ones that earlier rounds found missing or mis-modelled: floor division and modulo of
negatives, negative-step slices, default arguments evaluated once, closures, generators consumed once, str predicates, lru_cache,
properties, super(), class attributes, try/except/else/finally, for/else, chained comparisons, augmented assignment through
subscripts, sorted with key, dict/set methods, formatting).  Each function is run by the evaluator and by CPython; the results must be
equal.  The evaluator may answer `Undecided` (that is its safe answer and is only counted); a *different value* or a different
exception class means the analyses built on it can be wrong, and the checks refuse to give a verdict (AnalysisError -> exit 2)."""

from __future__ import annotations

from typing import Any, Dict, List, Optional, Tuple

SRC = r'''
import functools
import itertools
import math
from collections import defaultdict, deque

K = 3
TABLE = {"a": 1, "b": 2}
PAIRS = [(dy, dx) for dy in (-1, 0, 1) for dx in (-1, 0, 1) if (dy, dx) != (0, 0)]


def t_floor_mod():
    return [(a // b, a % b, divmod(a, b)) for a in (-7, -1, 0, 5, 8) for b in (-3, 2, 5)]


def t_pow_shift_bits():
    return [2 ** 10, (-2) ** 3, 1 << 5, 255 >> 3, 6 & 3, 6 | 3, 6 ^ 3, ~5, -(-3), abs(-4), +7]


def t_slices():
    xs = list(range(10))
    s = "abcdefgh"
    return [xs[::-1], xs[::-2], xs[8:2:-3], xs[-3:], xs[:-3], xs[2:100], xs[-100:3], xs[5:2], s[::-1], s[1::3], s[-1], s[-3:-1], xs[3:4], xs[:0]]


def t_chained():
    out = []
    for a in range(-1, 4):
        out.append((0 <= a < 3, 0 < a <= 2 != a, a == 1 or a == 3, not a, a and 5, a or 9, (a > 1) - (a < 1)))
    return out


def t_default_once(x=[]):
    x.append(len(x))
    return list(x)


def t_defaults():
    return [t_default_once(), t_default_once(), t_default_once([7])]


def t_closure():
    def make(k):
        def add(v):
            return v + k
        return add
    fs = [make(i) for i in range(3)]
    late = [lambda v: v + i for i in range(3)]
    return [f(10) for f in fs], [f(10) for f in late]


def t_generator_once():
    g = (i * i for i in range(4))
    first = list(g)
    second = list(g)
    def gen(n):
        for i in range(n):
            if i == 2:
                continue
            yield i
        yield "end"
    return first, second, list(gen(4)), sum(x for x in range(5) if x % 2), any(x > 3 for x in range(3)), all(x < 3 for x in range(3))


def t_iterators_once():
    z = zip([1, 2, 3], "abc"); a = list(z); b = list(z)
    m = map(str, [1, 2]); c = list(m); d = list(m)
    e = enumerate("xy"); f = list(e); g = list(e)
    ch = itertools.chain([1], [2, 3]); h = list(ch); i = list(ch)
    gen = (k for k in range(5)); r1 = 2 in gen; r2 = 1 in gen; rest = list(gen)
    it = iter([1, 2, 3]); s1 = [x for x in it if x < 2]; s2 = list(it)
    rv = reversed([1, 2, 3]); t1 = list(rv); t2 = list(rv)
    short = list(zip([1, 2, 3], [4]))
    pw = list(itertools.pairwise([1, 2, 3, 4]))
    total = 0
    src = (v for v in [1, 2, 3])
    for v in src:
        total += v
    again = sum(src)
    it2 = iter([5, 6])
    n1, n2, n3 = next(it2), next(it2), next(it2, "end")
    first_even = next(v for v in [1, 3, 4, 6] if v % 2 == 0)
    try:
        next(iter([]))
        stop = "no"
    except StopIteration:
        stop = "StopIteration"
    return a, b, c, d, f, g, h, i, r1, r2, rest, s1, s2, t1, t2, short, pw, total, again, n1, n2, n3, first_even, stop


def t_operators_on_bool():
    return ~True, ~False, True + True, -True, True == 1, 2 == True, not 0, not -1, ~0, True & False, True | False, True ^ True, 1 if [] else 2, \
        not 1 == 2, not (1 == 2), (not 1) == 2, -2 ** 2, (-2) ** 2, 1 < 2 == 2, 1 & 3 == 1, (1 & 3) == 1, [0] * 2 == [0, 0]


def t_aliasing():
    row = [0] * 3
    grid = [row] * 2
    grid[0][1] = 5
    fresh = [[0] * 3 for _ in range(2)]
    fresh[0][1] = 5
    base = [1, 2]
    def keep(xs=base):
        xs.append(len(xs))
        return xs
    keep(); keep()
    a = [1, 2, 3]
    b = a
    b += [4]
    c = a
    c = c + [5]
    t = (1, 2)
    u = t
    u += (3,)
    d = {"k": [1]}
    e = dict(d)
    e["k"].append(2)
    import copy
    f = copy.deepcopy(d)
    f["k"].append(3)
    return grid, fresh, base, a, b, c, t, u, d, e, f


def t_mutation_while_iterating():
    xs = [1, 2, 3, 4, 5, 6]
    for x in xs:
        if x % 2 == 0:
            xs.remove(x)
    ys = [1, 2, 3, 4]
    for y in list(ys):
        if y % 2 == 0:
            ys.remove(y)
    d = {"a": 1, "b": 2, "c": 3}
    del d["a"]
    d["a"] = 9
    order = list(d)
    srt = sorted([(1, "b"), (0, "z"), (1, "a")], key=lambda t: t[0])
    return xs, ys, order, srt, "a b  c".split(" "), "a b  c".split(), "xxabcxx".strip("x"), "0x10".lstrip("0x"), "abc".strip("cba")


def t_str_methods():
    s = " Ab-cd,ef "
    return [s.strip(), s.split(","), s.lower(), s.upper(), s.find("cd"), s.find("zz"), "a".isalpha(), "1".isalpha(), "12".isdigit(), "a1".isalnum(),
            "-".join(["x", "y"]), s.replace("-", "+"), s.startswith(" A"), s.endswith("f"), "abc".index("c"), "ab" * 3, "b" in "abc",
            "abc" < "abd", "aXb".partition("X"), "a,b,,c".split(","), "  x y ".split(), "abc".zfill(5), "Abc".swapcase(), len("h\u00e9llo"),
            "\u00e9".isalpha(), "\u0663".isdigit(), "A".isupper(), "".join(c for c in "a1b2" if c.isdigit()), "abc"[::-1], "a-b".split("-", 1)]


def t_str_format():
    return ["x=%d" % 5, "%s/%s" % ("a", 1), "{0}{1}{0}".format("p", "q"), "{:>4}|{:<3}|{:03d}|{:x}".format("a", "b", 7, 255), "{}".format([1, 2]),
            "{a}-{b}".format(a=1, b="z")]


def t_fstring():
    n = 10
    return [f"{3 + 4}", f"{n:04d}", f"{'z'!r}", f"{n}/{n + 1}", f"{1.5:.2f}", f"{n:>4}|", f"{n:x}"]


def t_str_conv():
    return [chr(97), ord("a"), str(12), repr("a"), int("12"), int("-3"), int("ff", 16), int("10", 36), hex(255), bin(5), str(True), str(None), int(True),
            bool(""), bool("0"), bool([]), bool([0]), float("1.5"), int(3.9), str([1, "a"]), list("abc"), tuple([1, 2]), "12".isdecimal()]


def t_list_dict_set():
    xs = [3, 1, 2]
    xs.append(5); xs.extend([4]); xs.insert(0, 9); xs.remove(1); p = xs.pop(); q = xs.pop(0)
    xs.sort(); ys = sorted(xs, reverse=True); xs.reverse()
    d = {"k": 1}
    d.setdefault("j", []).append(2); d["k"] += 3; g = d.get("zz", -1); items = sorted(d.items()); d.pop("k"); keys = list(d)
    s = {1, 2, 3}
    s.add(2); s.discard(9); s |= {7}; t = s - {1}; u = s & {2, 7, 8}; v = sorted(s ^ {1, 100})
    return xs, ys, p, q, g, items, keys, sorted(t), sorted(u), v, [1, 2] + [3], [0] * 3, 2 in xs, xs.index(3), xs.count(3), len(d)


def t_collections():
    dd = defaultdict(list); dd["a"].append(1); dd["b"]
    dq = deque([1, 2, 3]); dq.appendleft(0); r = dq.popleft(); dq.append(9)
    cnt = defaultdict(int)
    for ch in "abca":
        cnt[ch] += 1
    return sorted(dd.items()), list(dq), r, sorted(cnt.items()), "z" in dd, len(dd)


def t_sorting_minmax():
    words = ["bb", "a", "ccc", "dd"]
    pts = [(2, "x"), (1, "y"), (2, "a")]
    return sorted(words, key=len), sorted(words, key=lambda w: (-len(w), w)), min(words, key=len), max(pts), min(3, 1, 2), max([4, 9, 2]), sorted(pts), \
        list(reversed(words)), list(enumerate(words, 1)), list(zip(words, pts)), sum([1, 2, 3], 10), list(map(len, words)), list(filter(None, [0, 1, "", "a"])), \
        min([], default=-1), sum([[1], [2]], [])


def t_control():
    out = []
    for i in range(5):
        if i == 3:
            break
    else:
        out.append("no break")
    for i in range(2):
        pass
    else:
        out.append("else ran")
    n = 0
    while True:
        n += 1
        if n > 3:
            break
    k = 10
    while k > 0:
        k -= 3
    else:
        out.append(("while-else", k))
    try:
        [][1]
    except IndexError as ex:
        out.append("IndexError")
    else:
        out.append("no error")
    finally:
        out.append("finally")
    try:
        int("x")
    except (TypeError, ValueError):
        out.append("ValueError")
    try:
        {}["a"]
    except KeyError:
        out.append("KeyError")
    try:
        1 // 0
    except ZeroDivisionError:
        out.append("ZeroDivisionError")
    try:
        assert n == 0, "msg"
    except AssertionError:
        out.append("AssertionError")
    try:
        None + 1
    except TypeError:
        out.append("TypeError")
    x = "yes" if n > 2 else "no"
    return out, n, i, x


def t_unpack_aug():
    a, (b, c), *rest = 1, (2, 3), 4, 5
    grid = [[0] * 3 for _ in range(2)]
    grid[1][2] += 5
    grid[0][0] -= 1
    row = grid[0]
    row[1] = 7
    alias = grid
    alias[1][0] = 8
    t = (1, 2)
    t += (3,)
    first, *mid, last = [1, 2, 3, 4]
    a, b = b, a
    return a, b, c, rest, grid, t, first, mid, last


class Base:
    kind = "base"
    count = 0

    def __init__(self, x):
        self.x = x
        if x == -12345:
            Base.count += 1

    @property
    def double(self):
        return self.x * 2

    @staticmethod
    def helper(v):
        return v + 1

    @classmethod
    def make(cls, v):
        return cls(v * 10)

    def describe(self):
        return f"{self.kind}:{self.x}"

    def __eq__(self, other):
        return isinstance(other, Base) and self.x == other.x

    def __hash__(self):
        return hash(self.x)

    def __len__(self):
        return self.x

    def __getitem__(self, i):
        return self.x + i

    def __bool__(self):
        return self.x != 0


class Child(Base):
    kind = "child"

    def __init__(self, x, y=1):
        super().__init__(x + y)
        self.y = y

    def describe(self):
        return "<" + super().describe() + ">"


def t_classes():
    b, c = Base(2), Child(3, y=4)
    m = Child.make(1)
    return b.double, c.double, b.describe(), c.describe(), Base.helper(1), c.helper(2), m.x, m.y, type(m).__name__, isinstance(c, Base), isinstance(b, Child), \
        b == Base(2), b != Base(3), len(c), c[5], bool(Base(0)), bool(b), c.kind, Base.kind, hasattr(c, "y"), getattr(b, "zz", "dflt")


def t_class_attribute_counter():
    Base(-12345); Base(-12345)
    return Base.count


@functools.lru_cache(maxsize=None)
def cached(n):
    return [n, n + 1]


def t_lru_cache():
    a = cached(1)
    a.append(99)
    b = cached(1)
    c = cached(2)
    return a is b, b, c, a is c


def t_itertools_math():
    return list(itertools.product([0, 1], repeat=2)), list(itertools.combinations(range(4), 2)), list(itertools.permutations([1, 2, 3], 2)), \
        list(itertools.chain([1], (2, 3))), list(itertools.chain.from_iterable([[1], [2, 3]])), \
        functools.reduce(lambda x, y: x * y, [1, 2, 3, 4], 1), list(range(10, 0, -3)), list(range(-2, 2)), len(range(0, 10, 3)), PAIRS[:3], len(PAIRS)


def t_math():
    return math.prod([2, 3, 4]), math.gcd(12, 18), 7 / 2, int(-3.7), 2 ** -1, 7 // 2.0, abs(-2.5)


def t_math_rounding():
    return math.ceil(7 / 2), math.floor(-0.5), round(2.5), round(3.5), round(-0.5), round(1.25, 1)


def t_none_identity():
    a = None
    xs = [1]
    ys = xs
    zs = list(xs)
    return a is None, a is not None, xs is ys, xs is zs, xs == zs, None == 0, [] == [], (1, 2) < (1, 3), (1, 2) < (1, 2, 0), [1, 2] < [1], "a" is not None, not []


def t_global_lookup():
    def inner(v):
        return v * K + TABLE["b"]
    return inner(2), [TABLE.get(k, 0) for k in "abz"], "a" in TABLE, sorted(TABLE), len(TABLE)


def t_recursion_depth():
    def fact(n):
        return 1 if n <= 1 else n * fact(n - 1)
    def flood(cells, start):
        seen = {start}
        todo = [start]
        while todo:
            y, x = todo.pop()
            for dy, dx in ((1, 0), (-1, 0), (0, 1), (0, -1)):
                nb = (y + dy, x + dx)
                if nb in cells and nb not in seen:
                    seen.add(nb); todo.append(nb)
        return sorted(seen)
    return fact(10), flood({(0, 0), (0, 1), (1, 1), (3, 3)}, (0, 0))


def t_raise_custom():
    def check(v):
        if v < 0:
            raise ValueError("negative: {}".format(v))
        if v == 0:
            raise TypeError("zero")
        return v
    out = []
    for v in (1, 0, -1):
        try:
            out.append(check(v))
        except ValueError:
            out.append("V")
        except TypeError:
            out.append("T")
    return out


def t_exception_text():
    try:
        raise ValueError("bad {}".format(3))
    except ValueError as ex:
        return str(ex), ex.args


def t_finally_paths():
    log = []
    def f(k):
        try:
            if k == 0:
                return "ret"
            if k == 1:
                raise KeyError("k")
            log.append("body")
        except KeyError:
            log.append("handler")
            return "handled"
        finally:
            log.append("fin%d" % k)
        return "end"
    res = [f(0), f(1), f(2)]
    def g():
        for i in range(3):
            try:
                if i == 1:
                    continue
                if i == 2:
                    break
            finally:
                log.append(("g", i))
        return "g-done"
    res.append(g())
    def h():
        try:
            try:
                [][0]
            except KeyError:
                log.append("wrong")
            finally:
                log.append("inner-fin")
        except LookupError:
            log.append("outer")
        return "h-done"
    res.append(h())
    return res, log


def t_nested_scopes():
    x = 1
    def outer():
        x = 2
        def inner():
            return x
        x = 3
        return inner()
    acc = []
    def push(v):
        acc.append(v)
        return len(acc)
    total = 0
    def bump():
        nonlocal total
        total += 5
        return total
    return outer(), push("a"), push("b"), acc, bump(), bump(), total, x


def t_walrus_ternary_star():
    data = [5, 3, 8]
    out = []
    if (n := len(data)) > 2:
        out.append(n)
    def f(a, b=2, *args, c=3, **kw):
        return a, b, args, c, sorted(kw.items())
    out.append(f(1))
    out.append(f(1, 5, 6, 7, c=9, z=0))
    out.append(f(*[1, 2], **{"c": 4}))
    big, *_ = sorted(data, reverse=True)
    out.append(big)
    out.append([y for x in data if (y := x * 2) > 8])
    out.append({k: v for k, v in zip("ab", (1, 2))})
    out.append({x % 3 for x in data})
    return out
'''

TESTS = ["t_floor_mod", "t_pow_shift_bits", "t_slices", "t_chained", "t_defaults", "t_closure", "t_generator_once", "t_iterators_once", "t_operators_on_bool", "t_aliasing", "t_mutation_while_iterating", "t_str_methods", "t_str_format",
         "t_fstring", "t_str_conv", "t_list_dict_set", "t_collections", "t_sorting_minmax", "t_control", "t_unpack_aug", "t_classes",
         "t_class_attribute_counter", "t_lru_cache", "t_itertools_math", "t_math", "t_math_rounding", "t_none_identity", "t_global_lookup",
         "t_recursion_depth", "t_raise_custom", "t_exception_text", "t_finally_paths", "t_nested_scopes", "t_walrus_ternary_star"]


def _plain(v: Any) -> Any:
    """evaluator values -> comparable Python data (KInt -> int, Obj stays opaque)"""
    if isinstance(v, bool) or v is None or isinstance(v, (str, float)):
        return v
    if isinstance(v, int):
        return int(v)
    if isinstance(v, (list, tuple)):
        t = [_plain(x) for x in v]
        return t if isinstance(v, list) else tuple(t)
    if isinstance(v, (set, frozenset)):
        return {_plain(x) for x in v}
    if isinstance(v, dict):
        return {_plain(k): _plain(x) for k, x in v.items()}
    return v


def run() -> Tuple[Optional[str], Dict[str, str]]:
    """(first mismatch or None, per-test status)"""
    from ..core.classworld import ClassWorld
    from ..core.fde import IndexOutOfRange, Raised, Undecided
    from ..core.loader import Module

    status: Dict[str, str] = {}
    ns: Dict[str, Any] = {}
    exec(compile(SRC, "<fde_check>", "exec"), ns)  # the specimen module itself, run by CPython - nothing of the repository
    for name in TESTS:
        want = ns[name]()
        # a fresh world per test: default-argument and cache state must start as in a fresh interpreter
        cw = ClassWorld([Module("/nonexistent", "cspuz/_fde_check.py", SRC)])
        try:
            got = _plain(cw.call(name))
        except Undecided as ex:
            status[name] = f"undecided ({str(ex)[:60]})"
            continue
        except (Raised, IndexOutOfRange) as ex:
            return f"{name}: the evaluator raises {ex} where CPython returns {want!r}", status
        ns2: Dict[str, Any] = {}
        exec(compile(SRC, "<fde_check>", "exec"), ns2)
        want = _plain(ns2[name]())
        if got != want:
            # pinpoint the first differing component
            where = ""
            if isinstance(got, (list, tuple)) and isinstance(want, (list, tuple)):
                for i, (g, w) in enumerate(zip(got, want)):
                    if g != w:
                        where = f" (component {i}: evaluator {g!r}, CPython {w!r})"
                        break
                else:
                    where = f" (lengths {len(got)} / {len(want)})"
            return f"{name}: evaluator and CPython disagree{where}", status
        status[name] = "equal"
    return None, status


def engine_selfcheck(rep: Any) -> None:
    from ..core.loader import AnalysisError

    msg, status = run()
    if msg:
        raise AnalysisError(f"abstract evaluator self-check failed: {msg}")
    rep.extra["evaluator_selfcheck"] = {"rule": "specimen functions give the same value under the evaluator and under CPython (Undecided is allowed)", "tests": status}
