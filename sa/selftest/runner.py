"""E9 (thorough tier): self-validation of the rules on seeded mutants / behaviour-preserving variants."""
from ..core.findings import Report


def thorough(prop: str, repo_root: str, rep: Report) -> None:
    from . import mutants

    mutants.run(prop, repo_root, rep)
