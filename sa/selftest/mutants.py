from ..core.findings import Report


def run(prop: str, repo_root: str, rep: Report) -> None:
    rep.extra["selftest"] = "no mutant corpus registered for this property yet"
