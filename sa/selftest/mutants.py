"""E9: self-validation corpus.

A *mutant* is a one-site textual edit of one repository file that keeps the file compiling and is
meant to break a property clause; the named rule must report it.  A *variant* is a
behaviour-preserving rewrite; the property's rules must stay silent on it.  Edits are applied to the
*current* /repo text in memory (Repo overrides) - no scratch tree is created.  An edit whose anchor
text is not found exactly once on the current tree is reported as ``stale`` and skipped: it says
nothing about the rule.
"""

from __future__ import annotations

import importlib
import os
import random
import tempfile
import shutil
from concurrent.futures import ProcessPoolExecutor
from typing import Any, Dict, List, Optional, Tuple

from ..core.findings import Report
from ..core.loader import AnalysisError, Repo


class Edit:
    def __init__(self, name: str, file: str, old: str, new: str, expect: Optional[str], props: List[str], why: str = ""):
        self.name, self.file, self.old, self.new = name, file, old, new
        self.expect = expect  # rule id that must report; None = variant, must be silent
        self.props, self.why = props, why


CORPUS: List[Edit] = []


def mutant(name: str, props, file: str, old: str, new: str, expect: str, why: str = "") -> None:
    CORPUS.append(Edit(name, file, old, new, expect, [props] if isinstance(props, str) else list(props), why))


def variant(name: str, props, file: str, old: str, new: str, why: str = "") -> None:
    CORPUS.append(Edit(name, file, old, new, None, [props] if isinstance(props, str) else list(props), why))


def _apply(root: str, e: Edit) -> Optional[Dict[str, str]]:
    p = os.path.join(root, e.file)
    if not os.path.exists(p):
        return None
    src = open(p, encoding="utf-8").read()
    olds = e.old if isinstance(e.old, list) else [e.old]
    news = e.new if isinstance(e.new, list) else [e.new]
    for o, n in zip(olds, news):
        if src.count(o) != 1:
            return None
        src = src.replace(o, n)
    return {e.file: src}


def _run_one(args: Tuple[str, str, int]) -> Dict[str, Any]:
    prop, root, idx = args
    from . import corpus  # noqa: F401  (populates CORPUS)

    e = CORPUS[idx]
    ov = _apply(root, e)
    if ov is None:
        return {"name": e.name, "status": "stale"}
    tmp = tempfile.mkdtemp(prefix="cspuz-sa-")
    try:
        rep = Report(prop, "quick", 0, root, tmp)
        err = None
        try:
            import ast

            if e.file.endswith(".py"):
                ast.parse(ov[e.file])
            repo = Repo(root, ov)
            try:
                importlib.import_module(f"sa.rules.{prop.lower()}").run(repo, rep)
            except (TypeError, ValueError, IndexError, KeyError, AttributeError) as ex:
                err = f"analyser exception {type(ex).__name__}: {ex}"
        except AnalysisError as ex:
            err = str(ex)
        except RecursionError:
            err = "analyser recursion"
        except SyntaxError as ex:
            return {"name": e.name, "status": "stale", "detail": f"edit does not parse: {ex}"}
        rules = sorted({f.rule for f in rep.findings})
        if rep.undecided and err is None:
            err = "undecided: " + "; ".join(rep.undecided[:2])
        return {"name": e.name, "status": "done", "rules": rules, "error": err,
                "keys": [f.key for f in rep.findings]}
    finally:
        shutil.rmtree(tmp, ignore_errors=True)


def run(prop: str, repo_root: str, rep: Report) -> None:
    from . import corpus  # noqa: F401

    # baseline findings on the unmodified tree (known findings etc.) are not attributed to an edit
    base = {f.key for f in rep.findings}
    idxs = [i for i, e in enumerate(CORPUS) if prop in e.props]
    if not idxs:
        rep.extra["selftest"] = {"mutants": 0, "note": "no corpus entries for this property"}
        return
    rnd = random.Random(rep.seed)
    rnd.shuffle(idxs)
    with ProcessPoolExecutor(max_workers=min(16, len(idxs))) as ex:
        results = list(ex.map(_run_one, [(prop, repo_root, i) for i in idxs]))
    table = []
    bad: List[str] = []
    for i, r in zip(idxs, results):
        e = CORPUS[i]
        row = {"edit": e.name, "kind": "mutant" if e.expect else "variant", "expect": e.expect, **r}
        if r["status"] == "done":
            new_keys = [k for k in r.get("keys", []) if k not in base]
            if e.expect:
                hit = any(k.startswith(e.expect + "|") for k in new_keys)
                row["verdict"] = "reported" if hit else "MISSED"
                if not hit:
                    bad.append(f"mutant {e.name} not reported by {e.expect} (got {r['rules']}, error={r['error']})")
            else:
                quiet = not new_keys and not r["error"]
                row["verdict"] = "silent" if quiet else "FALSE-ALARM"
                if not quiet:
                    bad.append(f"variant {e.name} is not silent: {r['rules']} {r['error']} {new_keys[:1]}")
        row["keys"] = [k for k in row.get("keys", []) if k not in base][:3]
        table.append(row)
    rep.extra["selftest"] = {
        "mutants": sum(1 for t in table if t["kind"] == "mutant" and t["status"] == "done"),
        "mutants_reported": sum(1 for t in table if t.get("verdict") == "reported"),
        "variants": sum(1 for t in table if t["kind"] == "variant" and t["status"] == "done"),
        "variants_silent": sum(1 for t in table if t.get("verdict") == "silent"),
        "stale": sum(1 for t in table if t["status"] == "stale"),
        "stale_names": [t["edit"] for t in table if t["status"] == "stale"],
        "table": table,
    }
    print(f"selftest {prop}: " + ", ".join(f"{k}={v}" for k, v in rep.extra["selftest"].items() if k != "table"))
    if bad:
        # a rule that fails its own validation cannot be trusted: analysis error, not a verdict
        raise AnalysisError("self-validation failed: " + " ;; ".join(bad[:5]))
