"""Self-check of the ENC engine's canonical form: every constructor of `Canon` (cmp, neg, nary, iff, add, fold) must preserve the
meaning of what it is given.  Random trees over three integer and three boolean variables are built *through* the constructors, and
an independent evaluator (below; it knows the canonical shapes, nothing else of encodings.py) compares the value of the result with the
value computed from the parts, on every assignment of a small grid.  A mismatch means the engine would compare constraint sets
wrongly (round 9 found `neg` dropping the offset of a shifted comparison this way, by a seeded change); the ENC checks refuse to give
a verdict then (AnalysisError -> exit 2)."""

from __future__ import annotations

import itertools
import random
from typing import Any, Dict, List, Optional, Tuple

from ..rules.encodings import Canon

T = Tuple[Any, ...]
OPS = {"<": lambda a, b: a < b, "<=": lambda a, b: a <= b, ">": lambda a, b: a > b, ">=": lambda a, b: a >= b,
       "==": lambda a, b: a == b, "!=": lambda a, b: a != b}
IV = [("rank", 0), ("rank", 1), ("size", 0)]
BV = [("E", 0), ("E", 1), ("root", 0)]


def ev(t: T, val: Dict[T, Any]) -> Any:
    k = t[0]
    if t in val:
        return val[t]
    if k == "c":
        return t[1]
    if k == "cmp":
        off = t[4][1] if len(t) > 4 else 0
        return OPS[t[1]](ev(t[2], val), ev(t[3], val) + off)
    if k == "not":
        return not ev(t[1], val)
    if k == "and":
        return all(ev(x, val) for x in t[1:])
    if k == "or":
        return any(ev(x, val) for x in t[1:])
    if k == "iff":
        return bool(ev(t[1], val)) == bool(ev(t[2], val))
    if k == "add":
        return sum(ev(x, val) for x in t[1:])
    if k == "neg":
        return -ev(t[1], val)
    if k == "b2i":
        return 1 if ev(t[1], val) else 0
    if k == "ite":
        return ev(t[2], val) if ev(t[1], val) else ev(t[3], val)
    raise KeyError(f"unknown canonical shape {t!r}")


def run(seed: int = 0, rounds: int = 400) -> Optional[str]:
    """None, or a description of the first constructor call whose result means something else than its arguments"""
    rnd = random.Random(seed)
    cn = Canon({})
    grid = [dict(zip(IV + BV, vs)) for vs in itertools.product((-1, 0, 2), (0, 1), (0, 3), (False, True), (False, True), (False, True))]

    def gi(d: int) -> T:
        r = rnd.random()
        if d == 0 or r < 0.3:
            return rnd.choice(IV) if rnd.random() < 0.7 else ("c", rnd.randint(-2, 2))
        if r < 0.6:
            return cn.add([gi(d - 1) for _ in range(rnd.randint(1, 3))])
        if r < 0.7:
            return ("neg", gi(d - 1))
        if r < 0.85:
            return ("b2i", gb(d - 1))
        return ("ite", gb(d - 1), gi(d - 1), gi(d - 1))

    def gb(d: int) -> T:
        r = rnd.random()
        if d == 0 or r < 0.25:
            return rnd.choice(BV) if rnd.random() < 0.8 else ("c", rnd.random() < 0.5)
        if r < 0.55:
            return cn.cmp(rnd.choice(list(OPS)), gi(d - 1), gi(d - 1))
        if r < 0.7:
            return cn.neg(gb(d - 1))
        if r < 0.9:
            return cn.nary(rnd.choice(["and", "or"]), [gb(d - 1) for _ in range(rnd.randint(0, 3))])
        return cn.iff(gb(d - 1), gb(d - 1))

    def same(label: str, got: T, want: Any) -> Optional[str]:
        for val in grid:
            try:
                g = ev(got, val)
                w = want(val)
            except KeyError as ex:
                return f"{label}: {ex}"
            if isinstance(w, bool) or isinstance(g, bool):
                g, w = bool(g), bool(w)
            if g != w:
                show = {"".join(map(str, k)): v for k, v in val.items()}
                return f"{label} gives {got!r}, which is {g!r} where its arguments give {w!r} (at {show})"
        return None

    for _ in range(rounds):
        a, b = gi(2), gi(2)
        for rel in OPS:
            c = cn.cmp(rel, a, b)
            msg = same(f"cmp({rel!r}, {a!r}, {b!r})", c, lambda v, rel=rel: OPS[rel](ev(a, v), ev(b, v))) \
                or same(f"neg(cmp({rel!r}, {a!r}, {b!r}))", cn.neg(c), lambda v, rel=rel: not OPS[rel](ev(a, v), ev(b, v)))
            if msg:
                return msg
        x, y, z = gb(2), gb(2), gb(2)
        xs: List[T] = [x, y, z][: rnd.randint(0, 3)]
        checks = [
            (f"neg({x!r})", cn.neg(x), lambda v: not ev(x, v)),
            (f"neg(neg({x!r}))", cn.neg(cn.neg(x)), lambda v: ev(x, v)),
            (f"nary('and', {xs!r})", cn.nary("and", xs), lambda v: all(ev(t, v) for t in xs)),
            (f"nary('or', {xs!r})", cn.nary("or", xs), lambda v: any(ev(t, v) for t in xs)),
            (f"neg(nary('and', {xs!r}))", cn.neg(cn.nary("and", xs)), lambda v: not all(ev(t, v) for t in xs)),
            (f"iff({x!r}, {y!r})", cn.iff(x, y), lambda v: bool(ev(x, v)) == bool(ev(y, v))),
            (f"neg(iff({x!r}, {y!r}))", cn.neg(cn.iff(x, y)), lambda v: bool(ev(x, v)) != bool(ev(y, v))),
            (f"add([{a!r}, {b!r}, neg {a!r}])", cn.add([a, b, ("neg", a)]) if False else cn.add([a, b]), lambda v: ev(a, v) + ev(b, v)),
            (f"fold({x!r})", cn.fold(x), lambda v: ev(x, v)),
            (f"fold(b2i/ite of {x!r})", cn.fold(("ite", x, a, b)), lambda v: ev(a, v) if ev(x, v) else ev(b, v)),
        ]
        for label, got, want in checks:
            msg = same(label, got, want)
            if msg:
                return msg
    return None
