"""Abstract evaluation of cspuz/graph.py entry points on small symbolic instances.

Used for the *layout / gating* clauses only (SGR-6, CFG-4, ENC): which operator is emitted under
which flag, with which operand layout, and which graph is inferred for grids and frames.  The
satisfiability meaning of the auxiliary-variable encodings is not evaluated here.
"""

from __future__ import annotations

from typing import Any, Dict, List, Optional, Tuple

from ..core import fde
from ..core.classworld import ClassWorld
from ..core.fde import IndexOutOfRange, Obj, Raised, Tag, Undecided
from ..core.findings import Report
from ..core.loader import AnalysisError, Repo

GRAPH = "cspuz/graph.py"
FILES = ["cspuz/expr.py", "cspuz/array.py", "cspuz/constraints.py", "cspuz/solver.py", "cspuz/grid_frame.py", GRAPH]


class GraphWorld:
    def __init__(self, repo: Repo, use_graph_primitive: bool = False, use_graph_division_primitive: bool = False):
        self.repo = repo
        self.config = Obj(["Config"], use_graph_primitive=use_graph_primitive,
                          use_graph_division_primitive=use_graph_division_primitive, default_backend="z3", name="config")
        # config exists while module-level statements are evaluated ("import time")
        self.cw = ClassWorld([repo.mod(f) for f in FILES], pre_env={"config": self.config})
        self.cw.ev.max_steps = 400000
        g = self.cw.genv
        g["Op"] = Tag("Op")
        g["config"] = self.config
        # flatten_iterator is the repository's own generator function and is evaluated from source (self.flatten is only used by the
        # harness to read nested results)
        g["warnings"] = Tag("warnings")
        for n in ("count_true", "fold_or", "fold_and", "alldifferent", "cond", "then"):
            g["cspuz.constraints." + n] = g[n]
        g["graph.active_edges_single_cycle"] = g.get("active_edges_single_cycle")
        g["functools.reduce"] = lambda f, xs, *init: __import__("functools").reduce(f, list(xs), *init)

    def flatten(self, *args: Any) -> List[Any]:
        out: List[Any] = []
        for a in args:
            if isinstance(a, (list, tuple)):
                for x in a:
                    out.extend(self.flatten(x))
            elif isinstance(a, Obj) and "op" not in a.attrs and a.resolver is not None and self.cw.find_method(
                a.attrs.get("__class__", ""), "__iter__"
            )[1] is not None:
                for x in self.cw.ev.iterate(a):
                    out.extend(self.flatten(x))
            else:
                out.append(a)
        return out

    def solver(self) -> Obj:
        return self.cw.new("Solver")

    def graph(self, n: int, edges: List[Tuple[int, int]]) -> Obj:
        """the Graph is *looked at* before its last edge is added (every property, cached property and argument-less public method
        of the class is evaluated once): a value derived from the edge list and kept on the object would be stale afterwards"""
        g = self.cw.new("Graph", n)
        for k, (a, b) in enumerate(edges):
            if k == len(edges) - 1:
                self.observe(g)
            self.cw.method(g, "add_edge")(a, b)
        return g

    def observe(self, g: Obj) -> None:
        import ast as _ast

        from ..core.loader import dotted

        node = self.cw.classes.get("Graph")
        if node is None:
            return
        for st in node.body:
            if not isinstance(st, _ast.FunctionDef):
                continue
            decos = {(dotted(d) or "").split(".")[-1] for d in st.decorator_list}
            try:
                if decos & {"property", "cached_property"}:
                    fde._getattr(g, st.name)
                elif not decos and len(st.args.args) == 1 and not st.args.kwonlyargs and (not st.name.startswith("_") or st.name in ("__len__", "__iter__")):
                    self.cw.method(g, st.name)()
            except (Undecided, Raised, IndexOutOfRange):
                pass

    def call(self, name: str, *args: Any, **kwargs: Any) -> Any:
        self.cw.ev.steps = 0
        return self.cw.call(name, *args, **kwargs)

    @staticmethod
    def opname(t: Any) -> Optional[str]:
        if isinstance(t, Obj) and isinstance(t.attrs.get("op"), Tag):
            return t.attrs["op"].name.split(".")[-1]
        return None

    def natives(self, solver: Obj) -> List[Obj]:
        """top-level constraints that are native graph operators"""
        return [c for c in solver.attrs["constraints"] if (self.opname(c) or "").startswith("GRAPH_")]

    def var_ids(self, xs: Any) -> List[Any]:
        return [x.attrs.get("id") if isinstance(x, Obj) else x for x in xs]


def check_native_layout(repo: Repo, rep: Report) -> None:
    rep.rule("SGR-6", "native operators carry [n, m] + n vertex operands + 2m endpoints (+ m borders), guarded by length checks")
    rep.saw(GRAPH)
    edges = [(0, 1), (1, 2), (0, 2), (2, 3)]
    try:
        w = GraphWorld(repo, use_graph_primitive=True, use_graph_division_primitive=True)
        s = w.solver()
        act = w.cw.method(s, "bool_array")(5)
        g = w.graph(5, edges)
        w.call("active_vertices_connected", s, act, g)
        nat = w.natives(s)
        flat = [v for e in edges for v in e]
        if len(nat) == 1 and w.opname(nat[0]) == "GRAPH_ACTIVE_VERTICES_CONNECTED":
            ops = nat[0].attrs["operands"]
            want = [5, 4] + w.var_ids(act.attrs["data"]) + flat
            if w.var_ids(ops) == want and all(isinstance(o, Obj) for o in ops[2:7]):
                rep.ok("SGR-6", "GRAPH_ACTIVE_VERTICES_CONNECTED operands = [n, m] + actives + endpoints on a 5-vertex 4-edge graph")
            else:
                rep.finding("SGR-6", GRAPH, "_active_vertices_connected", "GRAPH_ACTIVE_VERTICES_CONNECTED operand layout",
                            f"operands are {w.var_ids(ops)!r}; the native operator expects {want!r}")
        else:
            rep.finding("SGR-6", GRAPH, "_active_vertices_connected", "GRAPH_ACTIVE_VERTICES_CONNECTED emission",
                        f"with use_graph_primitive on, {len(nat)} native constraint(s) emitted")
        # length guard
        s2 = w.solver()
        short_act = w.cw.method(s2, "bool_array")(4)
        try:
            w.call("active_vertices_connected", s2, short_act, g)
            rep.finding("SGR-6", GRAPH, "_active_vertices_connected", "length guard (native)",
                        "4 activity flags for a 5-vertex graph are accepted: the operand layout would be misread by the solver")
        except Raised as ex:
            rep.ok("SGR-6", f"native vertex-connectivity rejects a wrong number of flags ({ex.what.split('(')[0]})")
        # division
        s = w.solver()
        sizes = w.cw.method(s, "int_array")(5, 1, 5)
        borders = w.cw.method(s, "bool_array")(4)
        w.call("division_connected_variable_groups_with_borders", s, group_size=sizes.attrs["data"][:4] + [None], is_border=borders, graph=g)
        nat = w.natives(s)
        if len(nat) == 1 and w.opname(nat[0]) == "GRAPH_DIVISION":
            ops = nat[0].attrs["operands"]
            want = [5, 4] + w.var_ids(sizes.attrs["data"][:4]) + [None] + flat + w.var_ids(borders.attrs["data"])
            if w.var_ids(ops) == want:
                rep.ok("SGR-6", "GRAPH_DIVISION operands = [n, m] + sizes (None holes kept) + endpoints + borders")
            else:
                rep.finding("SGR-6", GRAPH, "_division_connected_variable_groups_with_borders", "GRAPH_DIVISION operand layout",
                            f"operands are {w.var_ids(ops)!r}; the native operator expects {want!r}")
        else:
            rep.finding("SGR-6", GRAPH, "_division_connected_variable_groups_with_borders", "GRAPH_DIVISION emission",
                        f"with use_graph_division_primitive on, {len(nat)} native constraint(s) emitted")
        for label, gs, ib in (("sizes", 4, 4), ("borders", 5, 3)):
            s3 = w.solver()
            sz = w.cw.method(s3, "int_array")(gs, 1, 5)
            br = w.cw.method(s3, "bool_array")(ib)
            try:
                w.call("division_connected_variable_groups_with_borders", s3, group_size=sz, is_border=br, graph=g)
                rep.finding("SGR-6", GRAPH, "_division_connected_variable_groups_with_borders", f"length guard ({label})",
                            f"a wrong number of {label} is accepted")
            except Raised:
                rep.ok("SGR-6", f"GRAPH_DIVISION rejects a wrong number of {label}")
    except Undecided as ex:
        rep.undecide("SGR-6", str(ex))
    except (Raised, IndexOutOfRange) as ex:
        rep.finding("SGR-6", GRAPH, "native operator construction", "native emission", f"evaluation raises {ex}")
