"""Z3M: bound assertion / model read-back shape of Z3Backend; VID: variable identity."""

from __future__ import annotations

import ast
from typing import Any, Dict, List

from ..core import fde
from ..core.classworld import ClassWorld
from ..core.fde import IndexOutOfRange, Obj, Raised, Tag, Undecided
from ..core.findings import Report
from ..core.loader import AnalysisError, Repo, dotted, norm, qualname, short
from .solverworld import solver_self, solver_world
from .opc import Z3_FILE, z3_namespace

SOLVER_FILE = "cspuz/solver.py"


class _MockSolver:
    def __init__(self, verdict: Tag, model: Dict[Any, Any]):
        self.added: List[Any] = []
        self.verdict, self.model_map = verdict, model
        self.options: List[Any] = []
        self.obj = Obj(["Solver"], add=self.add, check=lambda: self.verdict, model=self.model,
                       assert_exprs=self.add, append=self.add, set=lambda *a, **k: self.options.append((a, k)))

    def model(self) -> Any:
        if self.verdict != Tag("z3.sat"):
            raise Raised("Z3Exception('model is not available')")
        return self.model_map

    def add(self, *args: Any) -> None:
        for a in args:
            if isinstance(a, (list, tuple)):
                self.added.extend(a)
            else:
                self.added.append(a)


def check_z3_backend(repo: Repo, rep: Report) -> None:
    rep.rule("Z3M-1", "for every IntVar the asserted bound terms denote exactly lo <= v <= hi (finite-domain evaluation)")
    rep.rule("Z3M-2", "on the satisfiable path every variable's sol receives the model value of its own z3 term, typed")
    rep.rule("Z3M-3", "solve() returns False only under the unsat verdict and True after the read-back; all converted constraints are asserted")
    rep.rule("Z3M-4", "each variable gets its own z3 term of its own sort, registered under its id; constraints accumulate in order")
    mod = repo.mod(Z3_FILE)
    rep.saw(Z3_FILE, "Z3Backend.solve")
    solve = mod.func("Z3Backend.solve")
    init = mod.func("Z3Backend.__init__")
    addc = mod.func("Z3Backend.add_constraint")

    state: Dict[str, Any] = {}

    def world(extra: Dict[str, Any]):
        ns = z3_namespace()
        if "__compare__" in extra:
            ns = _lenient(ns)
        # in this world z3 terms are opaque tags / objects and Python constants are themselves
        for nm in ("z3.is_expr", "z3.is_bool", "z3.is_ast"):
            ns[nm] = lambda x: isinstance(x, (Tag, Obj))
        ns.update(extra)
        # the configuration object as a module global would see it (only the time limit matters to a backend)
        conf = Obj(["Config"], solver_timeout=state.get("timeout"), name="config")
        cw = ClassWorld([mod], extra_funcs=ns, pre_env={"Op": Tag("Op"), "z3": Tag("z3"), "importlib": Tag("importlib"), "config": conf})
        state["cw"] = cw
        return cw.ev, cw.genv

    def mkself(**attrs: Any) -> Obj:
        return state["cw"].adopt(Obj(["Z3Backend"], **attrs), "Z3Backend")

    def mkvar(cls: str, vid: int, lo: int = 0, hi: int = 0) -> Obj:
        base = "BoolExpr" if cls == "BoolVar" else "IntExpr"
        return Obj([cls, base, "Expr"], id=vid, lo=lo, hi=hi, op=Tag("Op.VAR"), operands=[], sol=Tag("unset"), name=f"{cls}#{vid}")

    # ---- Z3M-4: __init__ and add_constraint -------------------------------------------------
    try:
        made: List[Any] = []

        def mk(sort: str):
            def f(name: Any, *r: Any) -> Tag:
                t = Tag(f"{sort}:{name}")
                made.append((sort, name))
                return t
            return f

        ev, genv = world({"z3.Bool": mk("Bool"), "z3.Int": mk("Int")})
        vs = [mkvar("IntVar", 0, 0, 2), mkvar("BoolVar", 1), mkvar("BoolVar", 2), mkvar("IntVar", 3, -1, -1)]
        selfo = mkself(name="self")
        fde.FunctionValue(init, ev, genv, self_obj=selfo)(vs)
        vd = selfo.attrs.get("variables_dict")
        okay = isinstance(vd, dict) and set(vd) == {0, 1, 2, 3}
        if okay:
            sorts = {k: (v.name.split(":")[0] if isinstance(v, Tag) else "?") for k, v in vd.items()}
            okay = sorts == {0: "Int", 1: "Bool", 2: "Bool", 3: "Int"} and len({v.name for v in vd.values()}) == 4
        if okay and selfo.attrs.get("variables") is vs:
            rep.ok("Z3M-4", "Z3Backend.__init__ registers one distinct, correctly sorted z3 term per variable id")
        else:
            rep.finding("Z3M-4", Z3_FILE, "Z3Backend.__init__", "variables_dict construction",
                        f"z3 terms are not one-per-variable with the variable's sort: {vd!r}", init.lineno)
        # add_constraint accumulates
        c = [Tag("c0"), Tag("c1"), Tag("c2")]
        genv["_convert_expr"] = lambda e, *a: Tag("conv:" + e.name) if isinstance(e, Tag) else e
        selfo.attrs.setdefault("converted_constraints", [])
        fde.FunctionValue(addc, ev, genv, self_obj=selfo)(c[:2])
        fde.FunctionValue(addc, ev, genv, self_obj=selfo)(c[2])
        got = selfo.attrs.get("converted_constraints")
        # posted constraints that convert to Python constants, through add_constraint and then solve(): a False among them must end in
        # "unsatisfiable" whatever z3 says about the rest (it is handed over like any other constraint, or answered at once)
        for posting in ([[Tag("c0"), False]], [[False]], [Tag("c0"), False], [[True, Tag("c0")], False, [True]], [[Tag("c0"), True], [False, Tag("c1")]]):
            ev2, genv2 = world({"__compare__": lambda op, a, b: _cmp(op, a, b), "z3.Bool": mk("Bool"), "z3.Int": mk("Int")})
            ms2 = _MockSolver(Tag("z3.sat"), {})
            ev2.funcs["z3.Solver"] = lambda ms2=ms2: ms2.obj
            genv2["_convert_expr"] = lambda e, *a: Tag("conv:" + e.name) if isinstance(e, Tag) else e
            self2 = mkself(name="self")
            fde.FunctionValue(init, ev2, genv2, self_obj=self2)([])
            for item in posting:
                fde.FunctionValue(addc, ev2, genv2, self_obj=self2)(item)
            r2 = fde.FunctionValue(solve, ev2, genv2, self_obj=self2)()
            if not (r2 is False or any(x is False for x in ms2.added)):
                rep.finding("Z3M-4", Z3_FILE, "Z3Backend.add_constraint", "constant-false constraint posted",
                            f"after add_constraint of {posting!r} (items that convert to Python constants stay what they are) solve() hands z3 only "
                            f"{ms2.added!r} and returns {r2!r} under the verdict sat: the constant False was dropped on the way", addc.lineno)
                break
        if got == [Tag("conv:c0"), Tag("conv:c1"), Tag("conv:c2")]:
            rep.ok("Z3M-4", "add_constraint keeps every converted constraint, list and single forms, across calls")
        else:
            rep.finding("Z3M-4", Z3_FILE, "Z3Backend.add_constraint", "constraint accumulation",
                        f"after add_constraint([c0,c1]); add_constraint(c2) the store holds {got!r}", addc.lineno)
    except (Undecided, Raised) as ex:
        rep.undecide("Z3M-4", str(ex))

    # ---- Z3M-5: z3 functions that need a z3 term among their arguments ----------------------------
    rep.rule("Z3M-5", "operators translated through a z3 function that rejects all-Python arguments (z3.Distinct) are decided by the translation "
                      "itself when every operand is a constant: alldifferent over constants only (a fully given row, an empty group) neither raises nor "
                      "changes its truth value")
    try:
        conv = mod.func("_convert_expr")

        def distinct(*a: Any) -> Any:
            flat = list(a[0]) if len(a) == 1 and isinstance(a[0], (list, tuple)) else list(a)
            if not any(isinstance(x, (Tag, Obj)) for x in flat):
                raise Raised("Z3Exception('At least one of the arguments must be a Z3 expression')")  # what z3.Distinct does
            return Tag("distinct:" + ",".join(x.name if isinstance(x, Tag) else repr(x) for x in flat))

        bad5 = None
        for consts, want in (([1, 2, 3], True), ([1, 1], False), ([2, 5, 2], False), ([], True), ([7], True)):
            ev, genv = world({"z3.Distinct": distinct})
            e = Obj(["BoolExpr", "Expr"], op=Tag("Op.ALLDIFF"), operands=list(consts), name="alldiff")
            try:
                r = fde.FunctionValue(conv, ev, genv)(e, {})
            except Raised as ex:
                bad5 = f"alldifferent{tuple(consts)} (constants only) makes the translation raise {ex}"
                break
            if isinstance(r, bool) and r is not want:
                bad5 = f"alldifferent{tuple(consts)} (constants only) is translated to {r!r}; pairwise distinctness of these constants is {want!r}"
                break
            if not isinstance(r, bool):
                raise Undecided(f"alldifferent{tuple(consts)} is translated to {r!r}, whose meaning this rule cannot read")
        # with a variable among the operands the z3 function is used as before
        ev, genv = world({"z3.Distinct": distinct})
        e = Obj(["BoolExpr", "Expr"], op=Tag("Op.ALLDIFF"), operands=[mkvar("IntVar", 0, 0, 3), 1, 1], name="alldiff")
        r = fde.FunctionValue(conv, ev, genv)(e, {0: Tag("x0")})
        if bad5 is None and not (isinstance(r, Tag) and r.name.startswith("distinct:") and "x0" in r.name):
            bad5 = f"alldifferent(x, 1, 1) is translated to {r!r}, not to z3.Distinct over all three operands"
        if bad5:
            rep.finding("Z3M-5", Z3_FILE, "_convert_expr", "constant-only alldifferent", bad5, conv.lineno)
        else:
            rep.ok("Z3M-5", "alldifferent over constants only (5 lists) is decided without z3.Distinct; with a variable among the operands z3.Distinct gets all of them")
    except (Undecided, Raised) as ex:
        rep.undecide("Z3M-5", str(ex))

    # ---- Z3M-1: bounds ----------------------------------------------------------------------
    bad = None
    n = 0
    try:
        for lo, hi in ((0, 2), (-1, -1), (1, 3)):
            for v in range(lo - 2, hi + 3):
                ev, genv = world({})
                ms = _MockSolver(Tag("z3.unsat"), {})
                ev.funcs["z3.Solver"] = lambda ms=ms: ms.obj
                iv, bv = mkvar("IntVar", 0, lo, hi), mkvar("BoolVar", 1)
                selfo = mkself(variables=[bv, iv], variables_dict={0: v, 1: Tag("bterm")},
                            converted_constraints=[], name="self")
                fde.FunctionValue(solve, ev, genv, self_obj=selfo)()
                bools = [a for a in ms.added if isinstance(a, bool)]
                if len(bools) != len(ms.added):
                    raise Undecided(f"non-boolean bound term asserted: {ms.added!r}")
                n += 1
                if all(bools) != (lo <= v <= hi):
                    bad = (lo, hi, v, all(bools))
                    break
            if bad:
                break
        if bad:
            rep.finding("Z3M-1", Z3_FILE, "Z3Backend.solve", "integer bound assertions",
                        f"for an IntVar with domain [{bad[0]}, {bad[1]}] the asserted bounds "
                        f"{'admit' if bad[3] else 'exclude'} the value {bad[2]}", solve.lineno)
        else:
            rep.ok("Z3M-1", f"asserted bounds denote lo <= v <= hi on {n} (domain, value) points around both ends")
    except (Undecided, Raised) as ex:
        rep.undecide("Z3M-1", str(ex))

    # ---- Z3M-2/3: verdict and read-back -----------------------------------------------------
    try:
        anyrel = lambda op, a, b: Tag("rel")  # noqa: E731
        # unsat
        ev, genv = world({"__compare__": lambda op, a, b: _cmp(op, a, b)})
        ms = _MockSolver(Tag("z3.unsat"), {Tag("iterm"): Obj(["IntNumRef"], as_long=lambda: 1), Tag("bterm"): True})
        ev.funcs["z3.Solver"] = lambda: ms.obj
        ev.funcs["z3.is_true"] = lambda x: x is True
        iv, bv = mkvar("IntVar", 0, 0, 2), mkvar("BoolVar", 1)
        c0 = Tag("converted-c0")
        selfo = mkself(variables=[iv, bv], variables_dict={0: Tag("iterm"), 1: Tag("bterm")},
                    converted_constraints=[c0], name="self")
        try:
            r = fde.FunctionValue(solve, ev, genv, self_obj=selfo)()
        except Raised as ex:
            r = f"<raises {ex}>"  # e.g. the model is read although z3 said unsat
        if r is False and not iv.stores and not bv.stores:
            rep.ok("Z3M-3", "unsat verdict: returns False without touching sol")
        else:
            rep.finding("Z3M-3", Z3_FILE, "Z3Backend.solve", "unsat path",
                        f"with verdict unsat solve() returns {r!r} (stores: {iv.stores + bv.stores!r})", solve.lineno)
        if c0 in ms.added:
            rep.ok("Z3M-3", "every converted constraint is asserted to the z3 solver")
        else:
            rep.finding("Z3M-3", Z3_FILE, "Z3Backend.solve", "constraint assertion",
                        "the converted constraints are not passed to the z3 solver", solve.lineno)
        # z3 answers "unknown" (a time limit, an incomplete theory): neither verdict may be reported - reading the model raises, as z3 does
        for tmo in (None, 0.5):
            state["timeout"] = tmo
            try:
                ev, genv = world({"__compare__": lambda op, a, b: _cmp(op, a, b)})
                ms = _MockSolver(Tag("z3.unknown"), {})
                ev.funcs["z3.Solver"] = lambda ms=ms: ms.obj
                ev.funcs["z3.is_true"] = lambda x: x is True
                iv, bv = mkvar("IntVar", 0, 0, 2), mkvar("BoolVar", 1)
                selfo = mkself(variables=[iv, bv], variables_dict={0: Tag("iterm"), 1: Tag("bterm")}, converted_constraints=[c0], name="self")
                try:
                    r = fde.FunctionValue(solve, ev, genv, self_obj=selfo)()
                except Raised:
                    r = "raised"
            finally:
                state["timeout"] = None
            if r is False or r is True:
                rep.finding("Z3M-3", Z3_FILE, "Z3Backend.solve", "verdict unknown",
                            f"with z3's verdict 'unknown' (config.solver_timeout = {tmo!r}) solve() returns {r!r}: a program that z3 did not decide "
                            f"is reported {'unsatisfiable' if r is False else 'satisfiable'}", solve.lineno)
                break
        else:
            rep.ok("Z3M-3", "verdict unknown (with and without a configured time limit): neither True nor False is returned", nontrivial=False)
        # constraints that converted to Python constants (a constant operator node, a literal): a False among them makes the program
        # unsatisfiable whatever z3 says about the rest - it is asserted like any other, or answered False at once
        is_term = lambda x: isinstance(x, (Tag, Obj))  # noqa: E731
        for consts in ([c0, False], [False], [True, c0, False, True]):
            ev, genv = world({"__compare__": lambda op, a, b: _cmp(op, a, b)})
            ms = _MockSolver(Tag("z3.sat"), {Tag("iterm"): Obj(["IntNumRef"], as_long=lambda: 1), Tag("bterm"): True})
            ev.funcs["z3.Solver"] = lambda ms=ms: ms.obj
            ev.funcs["z3.is_true"] = lambda x: x is True
            ev.funcs["z3.is_false"] = lambda x: x is False
            for nm in ("z3.is_expr", "z3.is_bool", "z3.is_ast"):
                ev.funcs[nm] = is_term
            iv, bv = mkvar("IntVar", 0, 0, 2), mkvar("BoolVar", 1)
            selfo = mkself(variables=[iv, bv], variables_dict={0: Tag("iterm"), 1: Tag("bterm")}, converted_constraints=list(consts), name="self")
            r = fde.FunctionValue(solve, ev, genv, self_obj=selfo)()
            if any(a is False for a in ms.added) or r is False:
                rep.ok("Z3M-3", f"converted constraints {consts!r}: the constant False reaches the solver (or the answer is False at once)", nontrivial=False)
            else:
                rep.finding("Z3M-3", Z3_FILE, "Z3Backend.solve", "constant-false constraint",
                            f"with converted constraints {consts!r} solve() asserts only {ms.added!r} and returns {r!r} under z3's verdict sat: "
                            "a constraint that folded to the Python constant False is dropped and the unsatisfiable program is reported satisfiable", solve.lineno)
                break
    except (Undecided, Raised) as ex:
        rep.undecide("Z3M-3", str(ex))
    try:
        # sat
        for bval, ival in ((True, 2), (False, 0)):
            ev, genv = world({"__compare__": lambda op, a, b: _cmp(op, a, b), "z3.is_true": lambda x: x is True,
                              "z3.is_false": lambda x: x is False})
            it, bt = Tag("iterm"), Tag("bterm")
            num = Obj(["IntNumRef"], as_long=lambda ival=ival: ival, name=f"IntNumRef({ival})")
            ms = _MockSolver(Tag("z3.sat"), {it: num, bt: bval})
            ev.funcs["z3.Solver"] = lambda ms=ms: ms.obj
            iv, bv = mkvar("IntVar", 0, 0, 2), mkvar("BoolVar", 1)
            selfo = mkself(variables=[iv, bv], variables_dict={0: it, 1: bt},
                        converted_constraints=[], name="self")
            r = fde.FunctionValue(solve, ev, genv, self_obj=selfo)()
            got_i, got_b = iv.attrs.get("sol"), bv.attrs.get("sol")
            if r is True and got_i == ival and type(got_i) is int and got_b is bval:
                rep.ok("Z3M-2", f"sat verdict with model (int={ival}, bool={bval}): True returned, both sol fields hold the model values")
            else:
                rep.finding("Z3M-2", Z3_FILE, "Z3Backend.solve", "model read-back",
                            f"model int={ival}, bool={bval}: solve() returned {r!r}, sol fields are int={got_i!r}, bool={got_b!r}",
                            solve.lineno)
    except (Undecided, Raised) as ex:
        rep.undecide("Z3M-2", str(ex))


def _lenient(ns: Dict[str, Any]) -> Dict[str, Any]:
    """connectives applied to uninterpreted relation terms stay uninterpreted"""
    out = dict(ns)
    for k in ("z3.Not", "z3.And", "z3.Or", "z3.Xor", "z3.Implies"):
        strict = ns[k]

        def f(*a: Any, strict=strict) -> Any:
            try:
                return strict(*a)
            except Undecided:
                return Tag("relation")

        out[k] = f
    return out


def _cmp(op: ast.cmpop, a: Any, b: Any) -> Any:
    if isinstance(op, (ast.Eq, ast.NotEq)):
        if isinstance(a, Tag) and isinstance(b, Tag):
            r = a == b
            return r if isinstance(op, ast.Eq) else not r
        r = a is b
        return r if isinstance(op, ast.Eq) else not r
    return Tag("relation")


# ------------------------------------------------------------------------------------------
# VID
# ------------------------------------------------------------------------------------------

PROTECTED = ("variables", "constraints", "is_answer_key")
SHRINKERS = {"pop", "remove", "clear", "insert", "sort", "reverse", "__delitem__", "__setitem__"}


def check_variable_identity(repo: Repo, rep: Report) -> None:
    rep.rule("VID-1", "BoolVar/IntVar are constructed only by Solver.bool_var/int_var with id len(self.variables), appended at once")
    rep.rule("VID-2", "Solver.variables / constraints / is_answer_key only ever grow (append / extend / item flag store)")
    rep.rule("VID-3", "find_answer/solve build a fresh local backend from self.variables and all of self.constraints and return its verdict")
    smod = repo.mod(SOLVER_FILE)
    rep.saw(SOLVER_FILE)
    # VID-1
    n_ctor = 0
    for m in repo.iter("cspuz/"):
        for node in ast.walk(m.tree):
            if isinstance(node, ast.Call) and dotted(node.func) in ("BoolVar", "IntVar", "expr.BoolVar", "expr.IntVar"):
                n_ctor += 1
                q = qualname(node)
                if not (m.rel == SOLVER_FILE and q in ("Solver.bool_var", "Solver.int_var")):
                    rep.finding("VID-1", m.rel, q, short(node),
                                "a CSP variable is constructed outside Solver.bool_var/int_var: its id is not its position in Solver.variables",
                                node.lineno)
    for meth, cls in (("Solver.bool_var", "BoolVar"), ("Solver.int_var", "IntVar")):
        fn = smod.func(meth)
        rep.saw(SOLVER_FILE, meth)
        body = [s for s in fn.body if not (isinstance(s, ast.Expr) and isinstance(s.value, ast.Constant))]
        ok = False
        why = "constructor/append pair not found"
        for i, st in enumerate(body):
            if isinstance(st, ast.Assign) and isinstance(st.value, ast.Call) and dotted(st.value.func) == cls:
                arg0 = st.value.args[0] if st.value.args else None
                name = st.targets[0].id if isinstance(st.targets[0], ast.Name) else None
                if arg0 is None or norm(arg0) != "len(self.variables)":
                    why = f"id argument is {norm(arg0) if arg0 is not None else None}, not len(self.variables)"
                    break
                nxt = body[i + 1] if i + 1 < len(body) else None
                if (
                    isinstance(nxt, ast.Expr)
                    and isinstance(nxt.value, ast.Call)
                    and norm(nxt.value.func) == "self.variables.append"
                    and len(nxt.value.args) == 1
                    and norm(nxt.value.args[0]) == name
                ):
                    rest = body[i + 2:]
                    flags = [s for s in rest if isinstance(s, ast.Expr) and isinstance(s.value, ast.Call)
                             and norm(s.value.func) == "self.is_answer_key.append"]
                    rets = [s for s in rest if isinstance(s, ast.Return)]
                    if len(flags) == 1 and norm(flags[0].value.args[0]) == "False" and rets and norm(rets[-1].value) == name:
                        ok = True
                    else:
                        why = "is_answer_key is not extended by exactly one False, or the new variable is not returned"
                else:
                    why = "the new variable is not appended to self.variables immediately after construction"
                break
        if ok:
            rep.ok("VID-1", f"{meth}: id = len(self.variables), appended at once, flag list extended in lockstep")
        else:
            rep.finding("VID-1", SOLVER_FILE, meth, f"{meth} body", why, fn.lineno)
    if n_ctor < 2:
        raise AnalysisError("variable constructor sites vanished")
    # VID-2
    n_sites = 0
    for m in repo.iter("cspuz/"):
        if m.rel.startswith("cspuz/backend/") or m.rel.startswith("cspuz/puzzle/") or m.rel.startswith("cspuz/generator/"):
            continue
        for node in ast.walk(m.tree):
            tgt = None
            kind = None
            if isinstance(node, (ast.Assign, ast.AugAssign, ast.Delete, ast.AnnAssign)):
                tgts = node.targets if isinstance(node, (ast.Assign, ast.Delete)) else [node.target]
                for t in tgts:
                    for sub in ([t, t.value] if isinstance(t, ast.Subscript) else [t]):
                        if isinstance(sub, ast.Attribute) and sub.attr in PROTECTED and isinstance(sub.value, ast.Name) and sub.value.id == "self":
                            tgt, kind = sub, node
            elif isinstance(node, ast.Call) and isinstance(node.func, ast.Attribute):
                b = node.func.value
                if isinstance(b, ast.Attribute) and b.attr in PROTECTED and isinstance(b.value, ast.Name) and b.value.id == "self":
                    if node.func.attr in SHRINKERS:
                        n_sites += 1
                        rep.finding("VID-2", m.rel, qualname(node), short(node),
                                    f"self.{b.attr} is modified by {node.func.attr}(): list positions no longer equal variable ids / constraints are lost",
                                    node.lineno)
                    elif node.func.attr in ("append", "extend"):
                        n_sites += 1
                        rep.ok("VID-2", f"{m.rel}::{qualname(node)} {short(node, 60)} grows the list", nontrivial=False)
                continue
            if tgt is None:
                continue
            n_sites += 1
            q = qualname(node)
            where = f"{m.rel}::{q}"
            parent_t = getattr(tgt, "_parent", None)
            if isinstance(kind, ast.Delete):
                rep.finding("VID-2", m.rel, q, short(kind), f"deletes from self.{tgt.attr}", kind.lineno)
            elif isinstance(kind, ast.AugAssign) and kind.target is tgt and isinstance(kind.op, ast.Add):
                rep.ok("VID-2", f"{where}: self.{tgt.attr} += ... extends the list", nontrivial=False)
            elif isinstance(parent_t, ast.Subscript) and not isinstance(parent_t.slice, ast.Slice) and tgt.attr == "is_answer_key":
                rep.ok("VID-2", f"{where}: item store into is_answer_key", nontrivial=False)
            elif q.endswith(".__init__") and isinstance(kind, (ast.Assign, ast.AnnAssign)) and isinstance(kind.value, ast.List) and not kind.value.elts:
                rep.ok("VID-2", f"{where}: initialised empty", nontrivial=False)
            elif isinstance(kind, ast.AnnAssign) and kind.value is None:
                pass
            else:
                rep.finding("VID-2", m.rel, q, short(kind),
                            f"self.{tgt.attr} is rebound or overwritten outside __init__: ids/positions of earlier variables or constraints are not preserved",
                            kind.lineno)
    if n_sites < 6:
        raise AnalysisError(f"VID-2 found only {n_sites} sites touching Solver's lists")
    # VID-3 (find_answer): straight-line shape by evaluation with an uninterpreted backend
    for meth in ("Solver.find_answer",):
        fn = smod.func(meth)
        rep.saw(SOLVER_FILE, meth)
        try:
            cw = solver_world(repo)
            ev, genv = cw.ev, cw.genv
            verdict = Tag("verdict-of-backend.solve()")
            log: List[Any] = []

            def backend_type(variables: Any) -> Obj:
                log.append(("new", variables))
                return Obj(["Backend"], add_constraint=lambda c: log.append(("add", c)),
                           solve=lambda: (log.append(("solve",)), verdict)[1], name="backend")

            # every combination of 0 / 1 / 2 variables and 0 / 1 / 3 constraints: a solver without variables can still hold
            # (constant) constraints, and its verdict is the backend's all the same
            bad = None
            for nv, nc in [(2, 3), (0, 1), (0, 3), (0, 0), (1, 1), (1, 3), (1, 0), (2, 1), (2, 0)]:
                log.clear()
                vars_, cons = [Tag(f"v{i}") for i in range(nv)], [Tag(f"c{i}") for i in range(nc)]
                selfo = solver_self(cw, variables=vars_, constraints=cons, is_answer_key=[False] * nv, name="self")
                r = fde.FunctionValue(fn, ev, genv, self_obj=selfo)(backend_type)
                news = [x for x in log if x[0] == "new"]
                added: List[Any] = []
                for x in log:
                    if x[0] == "add":
                        added.extend(x[1] if isinstance(x[1], list) else [x[1]])
                order_ok = [x[0] for x in log if x[0] in ("new", "solve")] == ["new", "solve"] and log.index(("solve",)) > max(
                    [i for i, x in enumerate(log) if x[0] == "add"], default=-1)
                if nc == 0 and r is True and not log and not selfo.stores:
                    continue  # an empty program is satisfiable: answering True without a backend is a correct shortcut
                if not (r is verdict and len(news) == 1 and list(news[0][1]) == vars_ and added == cons and order_ok and not selfo.stores):
                    bad = (f"with {nv} variable(s) and {nc} constraint(s) the backend protocol differs: returned {r!r}, log {log!r}, "
                           f"stores on self {selfo.stores!r}")
                    break
            if bad is None:
                rep.ok("VID-3", f"{meth}: fresh backend over all variables, all constraints added before one solve(), verdict returned unchanged "
                                "(0/1/2 variables x 0/1/3 constraints)")
            else:
                rep.finding("VID-3", SOLVER_FILE, meth, f"{meth} body", bad, fn.lineno)
        except (Undecided, Raised) as ex:
            rep.undecide("VID-3", f"{meth}: {ex}")


MUTATORS = ("append", "extend", "insert", "pop", "remove", "clear", "sort", "reverse", "__setitem__", "__delitem__", "__iadd__")
INPLACE_DUNDERS = ("__iadd__", "__isub__", "__imul__", "__iand__", "__ior__", "__ixor__", "__ilshift__", "__irshift__", "__ifloordiv__", "__imod__")


def check_tree_immutability(repo: Repo, rep: Report) -> None:
    """VID-4: an expression tree that has been handed out (posted as a constraint, bound to a second name) never changes.
    `op` / `operands` are stored only by Expr.__init__; nothing anywhere in cspuz/ mutates an `.operands` list in place;
    an in-place operator method of an expression class may not return `self` (it would turn `s += x` into a mutation of
    every constraint that already contains s)."""
    rep.rule("VID-4", "expression trees are immutable: op/operands stored only in Expr.__init__, no in-place mutation of an operands list, "
                      "no in-place operator dunder that returns self")
    n = 0
    for m in repo.iter("cspuz/"):
        for node in ast.walk(m.tree):
            # stores  <x>.operands = ... / <x>.op = ... / <x>.operands[i] = ... / del / augmented
            if isinstance(node, (ast.Assign, ast.AugAssign, ast.AnnAssign, ast.Delete)):
                tgts = node.targets if isinstance(node, (ast.Assign, ast.Delete)) else [node.target]
                for t in tgts:
                    subs = [t, t.value] if isinstance(t, ast.Subscript) else [t]
                    for sub in subs:
                        if isinstance(sub, ast.Attribute) and sub.attr in ("operands", "op"):
                            n += 1
                            q = qualname(node)
                            init_store = (q == "Expr.__init__" and m.rel == "cspuz/expr.py" and sub is t and isinstance(node, (ast.Assign, ast.AnnAssign))
                                          and isinstance(sub.value, ast.Name) and sub.value.id == "self")
                            if init_store or (isinstance(node, ast.AnnAssign) and node.value is None):
                                rep.ok("VID-4", f"{m.rel}::{q} {short(node, 60)}: set once at construction", nontrivial=False)
                            else:
                                rep.finding("VID-4", m.rel, q, short(node),
                                            f"`{short(node)}` changes the {sub.attr} of an existing expression: every constraint or sum that already "
                                            "contains this object changes its meaning", node.lineno)
            elif isinstance(node, ast.Call) and isinstance(node.func, ast.Attribute) and node.func.attr in MUTATORS:
                b = node.func.value
                if isinstance(b, ast.Attribute) and b.attr == "operands":
                    n += 1
                    rep.finding("VID-4", m.rel, qualname(node), short(node),
                                f"`{short(node)}` mutates the operand list of an existing expression in place: an expression that was already "
                                "posted or shared changes its meaning", node.lineno)
        # in-place dunders on expression classes
        if m.rel == "cspuz/expr.py":
            for q, fn in m.funcs.items():
                parts = q.split(".")
                if len(parts) == 2 and parts[1] in INPLACE_DUNDERS:
                    n += 1
                    rets_self = [r for r in ast.walk(fn) if isinstance(r, ast.Return) and isinstance(r.value, ast.Name) and r.value.id == "self"]
                    if rets_self:
                        rep.finding("VID-4", m.rel, q, f"{q} returns self",
                                    f"{q} returns the receiver itself: `s {parts[1][3:-2]}= x` then rebinds s to the same (shared) object", rets_self[0].lineno)
                    else:
                        rep.ok("VID-4", f"{q} builds a new expression", nontrivial=False)
    if n < 2:
        raise AnalysisError("VID-4: the construction stores of Expr.__init__ were not found")
    if not any(f.rule == "VID-4" for f in rep.findings):
        rep.ok("VID-4", f"{n} sites touching op/operands: only Expr.__init__ stores them; no in-place mutation anywhere in cspuz/")


def check_posting(repo: Repo, rep: Report) -> None:
    """VID-5: Solver.ensure and Solver.add_answer_key take any nesting of iterables, one-shot ones (generator expressions, map, zip)
    included: every item is posted / registered exactly once, in order; a rejected item raises TypeError."""
    from ..core.classworld import ClassWorld
    from ..core.fde import OneShot

    rep.rule("VID-5", "ensure / add_answer_key keep every item of every nesting of lists, tuples and one-shot iterables (generators), once and in order")
    smod, cmod = repo.mod(SOLVER_FILE), repo.mod("cspuz/constraints.py")
    rep.saw(SOLVER_FILE, "Solver.ensure")

    def bexpr(name: str) -> Obj:
        return Obj(["BoolExpr", "Expr"], op=Tag("Op.VAR"), operands=[], name=name)

    shapes = [
        ("three separate arguments", lambda c: (c[0], c[1], c[2])),
        ("a list", lambda c: ([c[0], c[1], c[2]],)),
        ("a generator expression", lambda c: (OneShot([c[0], c[1], c[2]]),)),
        ("a generator inside a list", lambda c: ([c[0], OneShot([c[1], c[2]])],)),
        ("a list inside a generator", lambda c: (OneShot([[c[0], c[1]], c[2]]),)),
        ("a map object and a literal", lambda c: (OneShot([c[0], c[1]]), True, c[2])),
    ]
    try:
        for label, mk in shapes:
            cw = ClassWorld([smod, cmod], pre_env={"warnings": Tag("warnings"), "config": Tag("config"), "backend": Tag("backend"), "Op": Tag("Op")})
            s = cw.new("Solver")
            cs = [bexpr(f"c{i}") for i in range(3)]
            args = mk(cs)
            want = [x for x in cs] if "literal" not in label else [cs[0], cs[1], True, cs[2]]
            cw.ev.steps = 0
            cw.method(s, "ensure")(*args)
            got = s.attrs.get("constraints")
            if not (isinstance(got, list) and len(got) == len(want) and all(a is b or (a is True and b is True) for a, b in zip(got, want))):
                rep.finding("VID-5", SOLVER_FILE, "Solver.ensure", "ensure keeps every constraint",
                            f"ensure() given {label} keeps {len(got) if isinstance(got, list) else got!r} of {len(want)} constraints "
                            f"({[getattr(x, 'attrs', {}).get('name', x) for x in (got or [])]}): the rest never reach the backend",
                            smod.func("Solver.ensure").lineno)
                return
        # add_answer_key
        for label, mk in shapes[:5]:
            cw = ClassWorld([smod, cmod, repo.mod("cspuz/expr.py")], pre_env={"warnings": Tag("warnings"), "config": Tag("config"), "backend": Tag("backend"), "Op": Tag("Op")})
            s = cw.new("Solver")
            vs = [cw.method(s, "bool_var")() for _ in range(4)]
            cw.ev.steps = 0
            cw.method(s, "add_answer_key")(*mk(vs[:3]))
            keys = s.attrs.get("is_answer_key")
            if keys != [True, True, True, False]:
                rep.finding("VID-5", SOLVER_FILE, "Solver.add_answer_key", "add_answer_key registers every variable",
                            f"add_answer_key() given {label} of variables #0..#2 leaves is_answer_key = {keys!r}", smod.func("Solver.add_answer_key").lineno)
                return
        # add_answer_key given arrays and *views* of arrays (round 13: a fast path that took an array's variables for one run of
        # consecutive ids, true only for arrays exactly as bool_array / int_array return them).  Declarations: x = bool_array(5)
        # (ids 0..4), g = int_array((3, 2)) (ids 5..10), y = a lone bool_var (id 11); evaluated in the world that has array.py.
        from .graphnative import GraphWorld

        def S(*a: Any) -> slice:
            return slice(*a)

        views = [
            ("the whole 1-D array x", lambda x, g, y: (x,), [0, 1, 2, 3, 4]),
            ("the whole 2-D array g", lambda x, g, y: (g,), [5, 6, 7, 8, 9, 10]),
            ("x[::2]", lambda x, g, y: (x[S(None, None, 2)],), [0, 2, 4]),
            ("x[1:3]", lambda x, g, y: (x[S(1, 3)],), [1, 2]),
            ("x[::-1][:2]", lambda x, g, y: (x[S(None, None, -1)][S(None, 2)],), [4, 3]),
            ("the column g[:, 0] of a 3x2 array", lambda x, g, y: (g[(S(None), 0)],), [5, 7, 9]),
            ("the column g[:, 1]", lambda x, g, y: (g[(S(None), 1)],), [6, 8, 10]),
            ("the sub-rectangle g[1:, :1]", lambda x, g, y: (g[(S(1, None), S(None, 1))],), [7, 9]),
            ("the row g[2, :] and the element x[3]", lambda x, g, y: (g[(2, S(None))], x[3]), [9, 10, 3]),
            ("[x[3:], y] and g[0, 1]", lambda x, g, y: ([x[S(3, None)], y], g[(0, 1)]), [3, 4, 11, 6]),
            ("x[:2] then, in a second call, x[2:]", lambda x, g, y: ((x[S(None, 2)],), (x[S(2, None)],)), [0, 1, 2, 3, 4]),
            ("g[:, 1] then, in a second call, g[:, 0]", lambda x, g, y: ((g[(S(None), 1)],), (g[(S(None), 0)],)), [5, 6, 7, 8, 9, 10]),
        ]
        for label, mk, want_ids in views:
            w = GraphWorld(repo)
            cw = w.cw
            s = w.solver()
            xa = cw.method(s, "bool_array")(5)
            ga = cw.method(s, "int_array")((3, 2), 0, 3)
            ya = cw.method(s, "bool_var")()

            class V:  # index an evaluated array through the repository's own __getitem__
                def __init__(self, o: Any):
                    self.o = o

                def __getitem__(self, k: Any) -> Any:
                    r = cw.method(self.o, "__getitem__")(k)
                    return V(r) if isinstance(r, Obj) and "data" in r.attrs else r

            def unwrap(a: Any) -> Any:
                if isinstance(a, V):
                    return a.o
                if isinstance(a, (list, tuple)):
                    return type(a)(unwrap(t) for t in a)
                return a

            args = mk(V(xa), V(ga), ya)
            calls = [unwrap(c) for c in args] if "second call" in label else [unwrap(args)]
            for call in calls:
                cw.ev.steps = 0
                cw.method(s, "add_answer_key")(*call)
            keys = list(s.attrs.get("is_answer_key", []))
            want = [i in want_ids for i in range(12)]
            if keys != want:
                rep.finding("VID-5", SOLVER_FILE, "Solver.add_answer_key", "add_answer_key registers every variable of an array view",
                            f"add_answer_key() given {label} (variables #{want_ids}) registers "
                            f"{[i for i, k in enumerate(keys) if k]} as answer keys", smod.func("Solver.add_answer_key").lineno)
                return
        rep.ok("VID-5", f"ensure / add_answer_key: {len(shapes)} nestings incl. one-shot iterables keep every item once, in order; "
                        f"{len(views)} array / array-view arguments register exactly the view's variables")
    except (Undecided, IndexOutOfRange) as ex:
        rep.undecide("VID-5", str(ex))
    except Raised as ex:
        rep.finding("VID-5", SOLVER_FILE, "Solver.ensure", "ensure raises", f"posting well-typed constraints raises {ex.what}")


def check_declarations(repo: Repo, rep: Report) -> None:
    """VID-6: the declaring methods of Solver, evaluated from source in the graph world (expr.py, array.py, solver.py together)"""
    rep.rule("VID-6", "Solver.int_var(lo, hi) declares one IntVar with exactly that domain; bool_array / int_array(shape[, lo, hi]) declare exactly "
                      "prod(shape) new variables, in order, and return the 1-D / 2-D array of that shape over them (shape as int, 1-tuple, 2-tuple; "
                      "extents 0 and 1 included); lo > hi is rejected")
    from .graphnative import GraphWorld

    rep.saw(SOLVER_FILE, "Solver.int_array")
    try:
        w = GraphWorld(repo)
        cw = w.cw
        s = w.solver()
        bad = None
        n = 0

        def variables() -> List[Any]:
            return list(s.attrs.get("variables", []))

        v = cw.method(s, "int_var")(-3, 7)
        if not (isinstance(v, Obj) and v.attrs.get("lo") == -3 and v.attrs.get("hi") == 7 and v.attrs.get("id") == 0 and variables() == [v]
                and list(s.attrs.get("is_answer_key", [])) == [False]):
            bad = f"int_var(-3, 7) declares lo={getattr(v, 'attrs', {}).get('lo')!r} hi={getattr(v, 'attrs', {}).get('hi')!r} id={getattr(v, 'attrs', {}).get('id')!r}"
        shapes: List[Any] = [0, 1, 3, (2,), (0,), (1, 3), (3, 1), (2, 2), (0, 2), (2, 0)]
        for shape in shapes if not bad else []:
            for kind in ("bool", "int"):
                n += 1
                before = variables()
                try:
                    arr = cw.method(s, "bool_array")(shape) if kind == "bool" else cw.method(s, "int_array")(shape, -1, 4)
                except Raised as ex:
                    bad = f"{kind}_array({shape!r}) raises {ex}"
                    break
                tup = (shape,) if isinstance(shape, int) else tuple(shape)
                size = 1
                for k in tup:
                    size *= k
                new = variables()[len(before):]
                want_cls = ("Bool" if kind == "bool" else "Int") + ("Array1D" if len(tup) == 1 else "Array2D")
                data = arr.attrs.get("data") if isinstance(arr, Obj) else None
                got_shape = tuple(arr.attrs.get("shape", (len(data),))) if isinstance(arr, Obj) and isinstance(data, list) else None
                ids = [x.attrs.get("id") for x in new]
                if len(new) != size or ids != list(range(len(before), len(before) + size)):
                    bad = f"{kind}_array({shape!r}) declares {len(new)} variables with ids {ids}; expected {size} new variables with consecutive ids"
                elif not isinstance(arr, Obj) or arr.attrs.get("__class__") != want_cls or got_shape != tup or not isinstance(data, list) \
                        or len(data) != size or any(a is not b for a, b in zip(data, new)):
                    bad = (f"{kind}_array({shape!r}) returns {getattr(arr, 'attrs', {}).get('__class__')} of shape {got_shape} over "
                           f"{[getattr(x, 'attrs', {}).get('id') for x in (data or [])]}; expected {want_cls} of shape {tup} over the new variables {ids} in order")
                elif kind == "int" and any((x.attrs.get("lo"), x.attrs.get("hi")) != (-1, 4) for x in new):
                    bad = f"int_array({shape!r}, -1, 4) declares the domains {[(x.attrs.get('lo'), x.attrs.get('hi')) for x in new]}"
                elif len(s.attrs.get("is_answer_key", [])) != len(variables()):
                    bad = f"{kind}_array({shape!r}): is_answer_key has {len(s.attrs.get('is_answer_key', []))} flags for {len(variables())} variables"
                if bad:
                    break
            if bad:
                break
        if not bad:
            try:
                r = cw.method(s, "int_array")(2, 3, 1)
                bad = f"int_array(2, 3, 1) (lo > hi) is accepted and returns {getattr(r, 'attrs', {}).get('__class__')}"
            except Raised as ex:
                if "ValueError" not in str(ex):
                    bad = f"int_array(2, 3, 1) (lo > hi) raises {ex}, not ValueError"
        if bad:
            rep.finding("VID-6", SOLVER_FILE, "Solver.int_array", "declarations", bad)
        else:
            rep.ok("VID-6", f"int_var and {n} array declarations: the declared variables, their domains, order and the returned array's class and shape", points=n)
    except Undecided as ex:
        rep.undecide("VID-6", str(ex))
    except (Raised, IndexOutOfRange) as ex:
        rep.finding("VID-6", SOLVER_FILE, "Solver.int_array", "declarations", f"raises {ex}")
