"""C02 - solve() reports exactly the facts common to all solutions (shape of the mechanism).

REF-1..5  typestate/shape of the refute-and-resolve loop in Solver.solve (guard facts, def-use).
REF-6     native-vs-fallback partition of the backends through the class hierarchy.
REF-7     native deduction reply parsing (shared with C03's SGR-2/3/4 for deduction mode).
"""

from __future__ import annotations

import ast
from typing import Any, Dict, List, Optional, Set, Tuple

from ..core import fde, guards as G
from ..core.classworld import ClassWorld
from ..core.fde import Obj, Raised, Tag, Undecided
from ..core.findings import Report
from ..core.loader import AnalysisError, Repo, dotted, norm, short, strip_docstring
from . import c03

SOLVER = "cspuz/solver.py"


def _is_solve_call(n: ast.AST) -> Optional[str]:
    """'<recv>' if n is `<recv>.solve()`"""
    if isinstance(n, ast.Call) and isinstance(n.func, ast.Attribute) and n.func.attr == "solve" and not n.args:
        return norm(n.func.value)
    return None


def check_loop(repo: Repo, rep: Report) -> None:
    rep.rule("REF-1", "in the refinement loop the candidate array only ever receives None, under candidate[i] != fresh sol of the same variable")
    rep.rule("REF-2", "the loop is left only by break under `not backend.solve()`; no return, no iteration cap")
    rep.rule("REF-3", "each iteration adds OR over exactly the undemoted keys of (variable != candidate), built afresh")
    rep.rule("REF-4", "after the loop every key gets sol = candidate; nothing else is stored to sol; True is returned")
    rep.rule("REF-5", "an unsatisfiable first solve returns False before any candidate is recorded; candidates start as the first model on keys, None elsewhere")
    mod = repo.mod(SOLVER)
    fn = mod.func("Solver.solve")
    rep.saw(SOLVER, "Solver.solve")
    body = strip_docstring(fn.body)
    loops = [s for s in body if isinstance(s, ast.While)]
    if len(loops) != 1:
        raise AnalysisError(f"Solver.solve: expected exactly one top-level refinement loop, found {len(loops)} "
                            "(the loop was moved out of the vocabulary of REF)")
    loop = loops[0]
    li = body.index(loop)
    pre, post = body[:li], body[li + 1:]

    # collect facts at every statement / expression
    stmt_facts: Dict[int, G.Facts] = {}
    expr_facts: Dict[int, G.Facts] = {}
    w = G.Walker(on_expr=lambda n, f: expr_facts.setdefault(id(n), f), on_stmt=lambda s, f: stmt_facts.setdefault(id(s), f))
    w.run_function(fn)

    # backend receiver: the object whose .solve() is tested
    recvs = {r for n in ast.walk(fn) for r in [_is_solve_call(n)] if r}
    if len(recvs) != 1:
        raise AnalysisError(f"Solver.solve: cannot identify the backend object (receivers of .solve(): {sorted(recvs)})")
    recv = recvs.pop()
    solve_txt = f"{recv}.solve()"

    # the candidate array: the subscripted name stored into inside the loop or initialised before it
    cand_names = set()
    for n in ast.walk(loop):
        if isinstance(n, ast.Subscript) and isinstance(n.ctx, ast.Store) and isinstance(n.value, ast.Name):
            cand_names.add(n.value.id)
    init_names = {t.id for s in pre for t in getattr(s, "targets", []) + ([s.target] if isinstance(s, ast.AnnAssign) else [])
                  if isinstance(t, ast.Name) and isinstance(getattr(s, "value", None), ast.BinOp)}
    cands = (cand_names & init_names) or cand_names or init_names
    if len(cands) != 1:
        raise AnalysisError(f"Solver.solve: cannot identify the candidate array ({sorted(cands)})")
    cand = cands.pop()

    # ---- REF-5 -------------------------------------------------------------------------------
    first_ok = False
    for s in pre:
        if isinstance(s, ast.If) and isinstance(s.test, ast.UnaryOp) and isinstance(s.test.op, ast.Not) and _is_solve_call(s.test.operand) == recv:
            rets = [x for x in s.body if isinstance(x, ast.Return)]
            if rets and isinstance(rets[0].value, ast.Constant) and rets[0].value.value is False and not s.orelse:
                before = pre[: pre.index(s)]
                if not any(isinstance(x, ast.Attribute) and x.attr == "sol" and isinstance(x.ctx, ast.Store) for b in before for x in ast.walk(b)):
                    first_ok = True
    if first_ok:
        rep.ok("REF-5", "first solve(): `if not backend.solve(): return False` precedes every store")
    else:
        rep.finding("REF-5", SOLVER, "Solver.solve", "first solve verdict",
                    "the fallback route does not return False exactly when the first backend.solve() fails", fn.lineno)
    # initialisation of the candidate: [None] * n, then candidate[i] = variables[i].sol under is_answer_key[i]
    init_none = False
    init_keys = False
    for s in pre:
        v = getattr(s, "value", None)
        tg = (s.targets[0] if isinstance(s, ast.Assign) else getattr(s, "target", None))
        if isinstance(tg, ast.Name) and tg.id == cand and isinstance(v, ast.BinOp) and isinstance(v.op, ast.Mult):
            lst = v.left if isinstance(v.left, ast.List) else v.right
            if isinstance(lst, ast.List) and len(lst.elts) == 1 and isinstance(lst.elts[0], ast.Constant) and lst.elts[0].value is None:
                init_none = True
        for n in ast.walk(s):
            if isinstance(n, ast.Assign) and len(n.targets) == 1 and isinstance(n.targets[0], ast.Subscript) and norm(n.targets[0].value) == cand:
                idx = norm(n.targets[0].slice)
                f = stmt_facts.get(id(n))
                if norm(n.value) == f"self.variables[{idx}].sol" and f is not None and f.knows(f"self.is_answer_key[{idx}]") is True:
                    init_keys = True
                else:
                    rep.finding("REF-5", SOLVER, "Solver.solve", short(n),
                                "the initial candidate of an index is not the first model's value of that same key variable (or is recorded for a non-key)", n.lineno)
    if init_none and init_keys:
        rep.ok("REF-5", f"candidates: `{cand} = [None] * n`, then {cand}[i] = variables[i].sol for keys only")
    elif not init_none or not init_keys:
        rep.finding("REF-5", SOLVER, "Solver.solve", "candidate initialisation",
                    "candidate array is not initialised to None everywhere and to the first model on the answer keys", fn.lineno)

    # ---- REF-2 -------------------------------------------------------------------------------
    if not G.is_true_const(loop.test):
        rep.finding("REF-2", SOLVER, "Solver.solve", f"while {norm(loop.test)}",
                    "the refinement loop has its own termination condition: it can stop before the backend reports UNSAT", loop.lineno)
    exits = []
    for b in loop.body:
        for n in G._walk_same_loop(b):
            if isinstance(n, (ast.Break, ast.Return, ast.Raise)):
                exits.append(n)
    good_exit = 0
    for e in exits:
        # control dependence inside the loop: chain of (If, branch) from the loop body down to the exit
        chain = []
        p = getattr(e, "_parent", None)
        child = e
        while p is not None and p is not loop:
            if isinstance(p, ast.If):
                chain.append((p, "body" if any(child is x for x in p.body) else "else"))
            elif not isinstance(p, (ast.If,)):
                chain.append((p, "other"))
            child = p
            p = getattr(p, "_parent", None)
        okay = False
        if isinstance(e, ast.Break) and len(chain) == 1 and isinstance(chain[0][0], ast.If):
            t = chain[0][0].test
            if chain[0][1] == "body" and isinstance(t, ast.UnaryOp) and isinstance(t.op, ast.Not) and _is_solve_call(t.operand) == recv:
                okay = True
            if chain[0][1] == "else" and _is_solve_call(t) == recv:
                okay = True
        if okay:
            good_exit += 1
            rep.ok("REF-2", f"loop exit: break under `not {solve_txt}` only")
        else:
            rep.finding("REF-2", SOLVER, "Solver.solve", f"loop exit {short(e)}",
                        f"the refinement loop can be left by `{short(e)}` under conditions other than exactly `not {solve_txt}`: "
                        "a key on which solutions still differ may be reported as decided", e.lineno)
    if good_exit == 0 and not any(True for _ in exits):
        rep.finding("REF-2", SOLVER, "Solver.solve", "loop exit", "the refinement loop has no UNSAT exit", loop.lineno)
    # nested loops other than `for i in range(n)` would be iteration caps
    for n in ast.walk(loop):
        if isinstance(n, ast.For) and any(isinstance(x, ast.While) for x in ast.walk(n)):
            rep.finding("REF-2", SOLVER, "Solver.solve", "nested loop", "a loop wraps the refinement loop (iteration cap)", n.lineno)
    # the solve() in the loop must come after the add_constraint of this iteration
    order = []
    for b in loop.body:
        for n in ast.walk(b):
            if isinstance(n, ast.Call):
                if isinstance(n.func, ast.Attribute) and n.func.attr == "add_constraint" and norm(n.func.value) == recv:
                    order.append(("add", n))
                elif _is_solve_call(n) == recv:
                    order.append(("solve", n))
        order.sort(key=lambda t: (t[1].lineno, t[1].col_offset))
    kinds = [k for k, _ in sorted(order, key=lambda t: (t[1].lineno, t[1].col_offset))]
    if kinds != ["add", "solve"]:
        rep.finding("REF-2", SOLVER, "Solver.solve", "iteration order",
                    f"each iteration must add one refuting clause and then call solve() once; found {kinds}", loop.lineno)
    else:
        rep.ok("REF-2", "each iteration: one add_constraint, then one solve()", nontrivial=False)

    # ---- REF-1 -------------------------------------------------------------------------------
    n_store = 0
    for n in ast.walk(loop):
        if isinstance(n, (ast.Assign, ast.AugAssign, ast.AnnAssign)):
            tgts = n.targets if isinstance(n, ast.Assign) else [n.target]
            for t in tgts:
                if isinstance(t, ast.Subscript) and norm(t.value) == cand:
                    n_store += 1
                    idx = norm(t.slice)
                    f = stmt_facts.get(id(n), G.Facts())
                    val = getattr(n, "value", None)
                    differs = (f.knows(f"{cand}[{idx}] != self.variables[{idx}].sol") is True
                               or f.knows(f"self.variables[{idx}].sol != {cand}[{idx}]") is True
                               or f.knows(f"{cand}[{idx}] == self.variables[{idx}].sol") is False
                               or f.knows(f"self.variables[{idx}].sol == {cand}[{idx}]") is False)
                    after_solve = any(k == "solve" and (m.lineno, m.col_offset) < (n.lineno, n.col_offset) for k, m in order)
                    if isinstance(n, ast.Assign) and isinstance(val, ast.Constant) and val.value is None and differs and after_solve:
                        rep.ok("REF-1", f"{cand}[{idx}] = None under {cand}[{idx}] != self.variables[{idx}].sol, after this iteration's solve()")
                    else:
                        rep.finding("REF-1", SOLVER, "Solver.solve", short(n),
                                    f"inside the refinement loop `{short(n)}` is not a demotion to None guarded by "
                                    f"`{cand}[{idx}] != self.variables[{idx}].sol` (fresh model of the same variable)", n.lineno)
                elif isinstance(t, ast.Name) and t.id == cand:
                    rep.finding("REF-1", SOLVER, "Solver.solve", short(n), "the candidate array is rebound inside the loop", n.lineno)
    if n_store == 0:
        rep.finding("REF-1", SOLVER, "Solver.solve", "no demotion", "no candidate is ever demoted to None in the loop: differing keys are reported as decided", loop.lineno)

    # ---- REF-3 -------------------------------------------------------------------------------
    adds = [n for k, n in order if k == "add"]
    if len(adds) == 1:
        add = adds[0]
        arg = add.args[0] if add.args else None
        lst_name = None
        ok_shape = False
        if isinstance(arg, ast.Call) and dotted(arg.func) == "BoolExpr" and len(arg.args) == 2 and norm(arg.args[0]) == "Op.OR":
            if isinstance(arg.args[1], ast.Name):
                lst_name = arg.args[1].id
                ok_shape = True
        elif isinstance(arg, ast.Call) and dotted(arg.func) in ("fold_or",) and len(arg.args) == 1 and isinstance(arg.args[0], ast.Name):
            lst_name = arg.args[0].id
            ok_shape = True
        if not ok_shape:
            rep.finding("REF-3", SOLVER, "Solver.solve", short(add),
                        "the refuting constraint is not a disjunction (Op.OR) over a list built in this iteration", add.lineno)
        else:
            fresh = any(isinstance(s, ast.Assign) and isinstance(s.targets[0], ast.Name) and s.targets[0].id == lst_name
                        and isinstance(s.value, ast.List) and not s.value.elts for s in loop.body)
            if not fresh:
                rep.finding("REF-3", SOLVER, "Solver.solve", f"{lst_name} not rebuilt",
                            f"`{lst_name}` is not reset to [] at the start of each iteration: demoted keys stay in the refuting clause", add.lineno)
            appends = [n for n in ast.walk(loop) if isinstance(n, ast.Call) and isinstance(n.func, ast.Attribute)
                       and n.func.attr == "append" and norm(n.func.value) == lst_name]
            if not appends:
                rep.finding("REF-3", SOLVER, "Solver.solve", "empty refuting clause", "nothing is appended to the refuting clause", add.lineno)
            for ap in appends:
                f = expr_facts.get(id(ap), G.Facts())
                v = ap.args[0]
                good = False
                why = ""
                if isinstance(v, ast.Compare) and len(v.ops) == 1 and isinstance(v.ops[0], ast.NotEq):
                    a, b = v.left, v.comparators[0]
                    if not (isinstance(a, ast.Subscript) and norm(a.value) == "self.variables"):
                        a, b = b, a
                    if isinstance(a, ast.Subscript) and norm(a.value) == "self.variables":
                        idx = norm(a.slice)
                        bt = norm(b)
                        if isinstance(b, ast.Name):
                            bt = f.definition(b.id) or bt
                        is_key = f.knows(f"self.is_answer_key[{idx}]") is True
                        not_none = (f.knows(f"{norm(b)} is None") is False) or (f.knows(f"{cand}[{idx}] is None") is False)
                        if bt != f"{cand}[{idx}]":
                            why = f"compares variable {idx} with `{bt}`, not with its own candidate {cand}[{idx}]"
                        elif not is_key:
                            why = "operand is not restricted to answer keys"
                        elif not not_none:
                            why = "operand is not restricted to undemoted (non-None) candidates"
                        else:
                            good = True
                    else:
                        why = "operand does not compare a solver variable"
                else:
                    why = "operand is not of the form variable != candidate"
                if good:
                    rep.ok("REF-3", f"refuting operand `{short(v)}` for keys with a non-None candidate, clause rebuilt each iteration")
                else:
                    rep.finding("REF-3", SOLVER, "Solver.solve", short(ap), f"refuting clause: {why}", ap.lineno)

    # ---- REF-4 -------------------------------------------------------------------------------
    sol_stores = [n for n in ast.walk(fn) if isinstance(n, ast.Assign) and any(
        isinstance(t, ast.Attribute) and t.attr == "sol" for t in n.targets)]
    good_wb = 0
    for n in sol_stores:
        t = n.targets[0]
        inside_post = any(n is x for s in post for x in ast.walk(s))
        f = stmt_facts.get(id(n), G.Facts())
        if isinstance(t, ast.Attribute) and isinstance(t.value, ast.Subscript) and norm(t.value.value) == "self.variables":
            idx = norm(t.value.slice)
            if inside_post and norm(n.value) == f"{cand}[{idx}]" and f.knows(f"self.is_answer_key[{idx}]") is True:
                good_wb += 1
                rep.ok("REF-4", f"write-back self.variables[{idx}].sol = {cand}[{idx}] for keys, after the loop")
                continue
        rep.finding("REF-4", SOLVER, "Solver.solve", short(n),
                    "a store to .sol that is not the key-guarded write-back of the candidate after the loop", n.lineno)
    if good_wb == 0:
        rep.finding("REF-4", SOLVER, "Solver.solve", "write-back missing", "candidates are never written back to the key variables' sol", fn.lineno)
    # the write-back loop must range over all variables
    wb_loops = [s for s in post if isinstance(s, ast.For)]
    for s in wb_loops:
        rb = G.range_bounds(s.iter)
        if rb is None or rb[0] is not None or norm(rb[1]) not in ("n_var", "len(self.variables)"):
            rep.finding("REF-4", SOLVER, "Solver.solve", f"for {norm(s.target)} in {norm(s.iter)}", "the write-back does not range over all variables", s.lineno)
    last = post[-1] if post else None
    if isinstance(last, ast.Return) and isinstance(last.value, ast.Constant) and last.value.value is True:
        rep.ok("REF-4", "returns True after the write-back", nontrivial=False)
    else:
        rep.finding("REF-4", SOLVER, "Solver.solve", "final return", "the fallback route does not end with `return True`", fn.lineno)
    # all index loops inside the refinement loop range over all variables
    for n in ast.walk(loop):
        if isinstance(n, ast.For):
            rb = G.range_bounds(n.iter)
            if rb is None or rb[0] is not None or norm(rb[1]) not in ("n_var", "len(self.variables)"):
                rep.finding("REF-3", SOLVER, "Solver.solve", f"for {norm(n.target)} in {norm(n.iter)}",
                            "a pass of the refinement loop does not range over all variables", n.lineno)


def check_partition(repo: Repo, rep: Report) -> None:
    rep.rule("REF-6", "backends without native deduction (z3, sugar) raise NotImplementedError from solve_irrefutably; the others implement it; Solver.solve selects by try/except only")
    cw = ClassWorld([repo.mod("cspuz/backend/backend.py"), repo.mod("cspuz/backend/sugar_like.py"), repo.mod("cspuz/backend/z3.py")])
    for name, (cls, _entry) in c03.ENTRY.items():
        owner, fn = cw.find_method(cls, "solve_irrefutably")
        if fn is None:
            raise AnalysisError(f"{cls}.solve_irrefutably does not resolve")
        body = strip_docstring(fn.body)
        raises = len(body) == 1 and isinstance(body[0], ast.Raise) and "NotImplementedError" in norm(body[0])
        native = not raises
        if native == c03.NATIVE_ROUTE[name]:
            rep.ok("REF-6", f"{name}: {cls}.solve_irrefutably resolves to {owner} -> {'native deduction' if native else 'refute-and-resolve fallback'}")
        else:
            rep.finding("REF-6", "cspuz/backend/sugar_like.py" if cls != "Z3Backend" else "cspuz/backend/z3.py", f"{cls}.solve_irrefutably",
                        f"route of backend {name}",
                        f"backend {name!r} takes the {'native' if native else 'fallback'} route; the property assigns it the other one")
    # selector in Solver.solve
    fn = repo.mod(SOLVER).func("Solver.solve")
    tries = [n for n in ast.walk(fn) if isinstance(n, ast.Try)]
    okay = False
    for t in tries:
        if len(t.body) == 1 and isinstance(t.body[0], ast.Return) and isinstance(t.body[0].value, ast.Call):
            c = t.body[0].value
            if isinstance(c.func, ast.Attribute) and c.func.attr == "solve_irrefutably" and len(c.args) == 1 and norm(c.args[0]) == "self.is_answer_key":
                if len(t.handlers) == 1 and t.handlers[0].type is not None and norm(t.handlers[0].type) == "NotImplementedError":
                    hb = t.handlers[0].body
                    if all(isinstance(s, ast.Pass) for s in hb):
                        okay = True
    if okay:
        rep.ok("REF-6", "Solver.solve returns backend.solve_irrefutably(self.is_answer_key) and falls back only on NotImplementedError")
    else:
        rep.finding("REF-6", SOLVER, "Solver.solve", "route selector",
                    "the native route is not `return backend.solve_irrefutably(self.is_answer_key)` guarded by `except NotImplementedError: pass`", fn.lineno)
    # the backend object must be fresh, over all variables and constraints
    src = norm(fn)
    if "backend_type(self.variables)" in src and ".add_constraint(self.constraints)" in src:
        rep.ok("REF-6", "fresh backend over self.variables with all of self.constraints", nontrivial=False)
    else:
        rep.finding("REF-6", SOLVER, "Solver.solve", "backend construction", "the backend is not built from self.variables and all of self.constraints", fn.lineno)


def run(repo: Repo, rep: Report) -> None:
    check_loop(repo, rep)
    check_partition(repo, rep)
    h = c03.Harness(repo)
    jp = c03.JavaProtocol(repo)
    c03.check_protocol(repo, rep, h, jp)
    rep.floor("REF-1", 1)
    rep.floor("REF-3", 1)
    rep.assume("the idea of refute-and-resolve itself (intersection of all models is reached when the refuting clause becomes UNSAT) "
               "is taken as correct; the rules decide that Solver.solve has that shape")
