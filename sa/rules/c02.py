"""C02 - solve() reports exactly the facts common to all solutions (shape of the mechanism).

REF-1..5  typestate/shape of the refute-and-resolve loop in Solver.solve (guard facts, def-use).
REF-6     native-vs-fallback partition of the backends through the class hierarchy.
REF-7     native deduction reply parsing (shared with C03's SGR-2/3/4 for deduction mode).
"""

from __future__ import annotations

import ast
import itertools
from typing import Any, Dict, List, Optional, Set, Tuple

from ..core import fde, guards as G
from ..core.classworld import ClassWorld
from ..core.fde import IndexOutOfRange, Obj, Raised, Tag, Undecided
from ..core.findings import Report
from ..core.loader import AnalysisError, Repo, dotted, norm, short, strip_docstring
from . import c03
from . import exprmodel as EM
from .solverworld import solver_self, solver_world

SOLVER = "cspuz/solver.py"


def _is_solve_call(n: ast.AST) -> Optional[str]:
    """'<recv>' if n is `<recv>.solve()`"""
    if isinstance(n, ast.Call) and isinstance(n.func, ast.Attribute) and n.func.attr == "solve" and not n.args:
        return norm(n.func.value)
    return None


def check_loop(repo: Repo, rep: Report) -> None:
    rep.rule("REF-1", "in the refinement loop the candidate array only ever receives None, under candidate[i] != fresh sol of the same variable")
    rep.rule("REF-2", "the loop is left only by break under `not backend.solve()`; no return, no iteration cap")
    rep.rule("REF-3", "each iteration adds OR over exactly the undemoted keys of (variable != candidate), built afresh")
    rep.rule("REF-4", "after the loop every key gets sol = candidate; nothing else is stored to sol; True is returned")
    rep.rule("REF-5", "an unsatisfiable first solve returns False before any candidate is recorded; candidates start as the first model on keys, None elsewhere")
    mod = repo.mod(SOLVER)
    fn = mod.func("Solver.solve")
    rep.saw(SOLVER, "Solver.solve")
    body = strip_docstring(fn.body)
    loops = [s for s in body if isinstance(s, ast.While)]
    if len(loops) != 1:
        raise AnalysisError(f"Solver.solve: expected exactly one top-level refinement loop, found {len(loops)} "
                            "(the loop was moved out of the vocabulary of REF)")
    loop = loops[0]
    li = body.index(loop)
    pre, post = body[:li], body[li + 1:]

    # collect facts at every statement / expression
    stmt_facts: Dict[int, G.Facts] = {}
    expr_facts: Dict[int, G.Facts] = {}
    w = G.Walker(on_expr=lambda n, f: expr_facts.setdefault(id(n), f), on_stmt=lambda s, f: stmt_facts.setdefault(id(s), f))
    w.run_function(fn)

    # backend receiver: the object whose .solve() is tested
    recvs = {r for n in ast.walk(fn) for r in [_is_solve_call(n)] if r}
    if len(recvs) != 1:
        raise AnalysisError(f"Solver.solve: cannot identify the backend object (receivers of .solve(): {sorted(recvs)})")
    recv = recvs.pop()
    solve_txt = f"{recv}.solve()"

    # the candidate array: the subscripted name stored into inside the loop or initialised before it
    cand_names = set()
    for n in ast.walk(loop):
        if isinstance(n, ast.Subscript) and isinstance(n.ctx, ast.Store) and isinstance(n.value, ast.Name):
            cand_names.add(n.value.id)
    init_names = {t.id for s in pre for t in getattr(s, "targets", []) + ([s.target] if isinstance(s, ast.AnnAssign) else [])
                  if isinstance(t, ast.Name) and isinstance(getattr(s, "value", None), ast.BinOp)}
    cands = (cand_names & init_names) or cand_names or init_names
    if len(cands) != 1:
        raise AnalysisError(f"Solver.solve: cannot identify the candidate array ({sorted(cands)})")
    cand = cands.pop()

    # ---- REF-5 -------------------------------------------------------------------------------
    first_ok = False
    for s in pre:
        if isinstance(s, ast.If) and isinstance(s.test, ast.UnaryOp) and isinstance(s.test.op, ast.Not) and _is_solve_call(s.test.operand) == recv:
            rets = [x for x in s.body if isinstance(x, ast.Return)]
            if rets and isinstance(rets[0].value, ast.Constant) and rets[0].value.value is False and not s.orelse:
                before = pre[: pre.index(s)]
                if not any(isinstance(x, ast.Attribute) and x.attr == "sol" and isinstance(x.ctx, ast.Store) for b in before for x in ast.walk(b)):
                    first_ok = True
    if first_ok:
        rep.ok("REF-5", "first solve(): `if not backend.solve(): return False` precedes every store")
    else:
        rep.finding("REF-5", SOLVER, "Solver.solve", "first solve verdict",
                    "the fallback route does not return False exactly when the first backend.solve() fails", fn.lineno)
    # initialisation of the candidate: [None] * n, then candidate[i] = variables[i].sol under is_answer_key[i]
    init_none = False
    init_keys = False
    for s in pre:
        v = getattr(s, "value", None)
        tg = (s.targets[0] if isinstance(s, ast.Assign) else getattr(s, "target", None))
        if isinstance(tg, ast.Name) and tg.id == cand and isinstance(v, ast.BinOp) and isinstance(v.op, ast.Mult):
            lst = v.left if isinstance(v.left, ast.List) else v.right
            if isinstance(lst, ast.List) and len(lst.elts) == 1 and isinstance(lst.elts[0], ast.Constant) and lst.elts[0].value is None:
                init_none = True
        for n in ast.walk(s):
            if isinstance(n, ast.Assign) and len(n.targets) == 1 and isinstance(n.targets[0], ast.Subscript) and norm(n.targets[0].value) == cand:
                idx = norm(n.targets[0].slice)
                f = stmt_facts.get(id(n))
                if norm(n.value) == f"self.variables[{idx}].sol" and f is not None and f.knows(f"self.is_answer_key[{idx}]") is True:
                    init_keys = True
                else:
                    rep.finding("REF-5", SOLVER, "Solver.solve", short(n),
                                "the initial candidate of an index is not the first model's value of that same key variable (or is recorded for a non-key)", n.lineno)
    if init_none and init_keys:
        rep.ok("REF-5", f"candidates: `{cand} = [None] * n`, then {cand}[i] = variables[i].sol for keys only")
    elif not init_none or not init_keys:
        rep.finding("REF-5", SOLVER, "Solver.solve", "candidate initialisation",
                    "candidate array is not initialised to None everywhere and to the first model on the answer keys", fn.lineno)

    # ---- REF-2 -------------------------------------------------------------------------------
    if not G.is_true_const(loop.test):
        rep.finding("REF-2", SOLVER, "Solver.solve", f"while {norm(loop.test)}",
                    "the refinement loop has its own termination condition: it can stop before the backend reports UNSAT", loop.lineno)
    exits = []
    for b in loop.body:
        for n in G._walk_same_loop(b):
            if isinstance(n, (ast.Break, ast.Return, ast.Raise)):
                exits.append(n)
    good_exit = 0
    for e in exits:
        # control dependence inside the loop: chain of (If, branch) from the loop body down to the exit
        chain = []
        p = getattr(e, "_parent", None)
        child = e
        while p is not None and p is not loop:
            if isinstance(p, ast.If):
                chain.append((p, "body" if any(child is x for x in p.body) else "else"))
            elif not isinstance(p, (ast.If,)):
                chain.append((p, "other"))
            child = p
            p = getattr(p, "_parent", None)
        okay = False
        if isinstance(e, ast.Break) and len(chain) == 1 and isinstance(chain[0][0], ast.If):
            t = chain[0][0].test
            if chain[0][1] == "body" and isinstance(t, ast.UnaryOp) and isinstance(t.op, ast.Not) and _is_solve_call(t.operand) == recv:
                okay = True
            if chain[0][1] == "else" and _is_solve_call(t) == recv:
                okay = True
        if okay:
            good_exit += 1
            rep.ok("REF-2", f"loop exit: break under `not {solve_txt}` only")
        else:
            rep.finding("REF-2", SOLVER, "Solver.solve", f"loop exit {short(e)}",
                        f"the refinement loop can be left by `{short(e)}` under conditions other than exactly `not {solve_txt}`: "
                        "a key on which solutions still differ may be reported as decided", e.lineno)
    if good_exit == 0 and not any(True for _ in exits):
        rep.finding("REF-2", SOLVER, "Solver.solve", "loop exit", "the refinement loop has no UNSAT exit", loop.lineno)
    # nested loops other than `for i in range(n)` would be iteration caps
    for n in ast.walk(loop):
        if isinstance(n, ast.For) and any(isinstance(x, ast.While) for x in ast.walk(n)):
            rep.finding("REF-2", SOLVER, "Solver.solve", "nested loop", "a loop wraps the refinement loop (iteration cap)", n.lineno)
    # the solve() in the loop must come after the add_constraint of this iteration
    order = []
    for b in loop.body:
        for n in ast.walk(b):
            if isinstance(n, ast.Call):
                if isinstance(n.func, ast.Attribute) and n.func.attr == "add_constraint" and norm(n.func.value) == recv:
                    order.append(("add", n))
                elif _is_solve_call(n) == recv:
                    order.append(("solve", n))
        order.sort(key=lambda t: (t[1].lineno, t[1].col_offset))
    kinds = [k for k, _ in sorted(order, key=lambda t: (t[1].lineno, t[1].col_offset))]
    if kinds != ["add", "solve"]:
        rep.finding("REF-2", SOLVER, "Solver.solve", "iteration order",
                    f"each iteration must add one refuting clause and then call solve() once; found {kinds}", loop.lineno)
    else:
        rep.ok("REF-2", "each iteration: one add_constraint, then one solve()", nontrivial=False)

    # ---- REF-1 -------------------------------------------------------------------------------
    n_store = 0
    for n in ast.walk(loop):
        if isinstance(n, (ast.Assign, ast.AugAssign, ast.AnnAssign)):
            tgts = n.targets if isinstance(n, ast.Assign) else [n.target]
            for t in tgts:
                if isinstance(t, ast.Subscript) and norm(t.value) == cand:
                    n_store += 1
                    idx = norm(t.slice)
                    f = stmt_facts.get(id(n), G.Facts())
                    val = getattr(n, "value", None)
                    differs = (f.knows(f"{cand}[{idx}] != self.variables[{idx}].sol") is True
                               or f.knows(f"self.variables[{idx}].sol != {cand}[{idx}]") is True
                               or f.knows(f"{cand}[{idx}] == self.variables[{idx}].sol") is False
                               or f.knows(f"self.variables[{idx}].sol == {cand}[{idx}]") is False)
                    after_solve = any(k == "solve" and (m.lineno, m.col_offset) < (n.lineno, n.col_offset) for k, m in order)
                    if isinstance(n, ast.Assign) and isinstance(val, ast.Constant) and val.value is None and differs and after_solve:
                        rep.ok("REF-1", f"{cand}[{idx}] = None under {cand}[{idx}] != self.variables[{idx}].sol, after this iteration's solve()")
                    else:
                        rep.finding("REF-1", SOLVER, "Solver.solve", short(n),
                                    f"inside the refinement loop `{short(n)}` is not a demotion to None guarded by "
                                    f"`{cand}[{idx}] != self.variables[{idx}].sol` (fresh model of the same variable)", n.lineno)
                elif isinstance(t, ast.Name) and t.id == cand:
                    rep.finding("REF-1", SOLVER, "Solver.solve", short(n), "the candidate array is rebound inside the loop", n.lineno)
    if n_store == 0:
        rep.finding("REF-1", SOLVER, "Solver.solve", "no demotion", "no candidate is ever demoted to None in the loop: differing keys are reported as decided", loop.lineno)

    # ---- REF-3 -------------------------------------------------------------------------------
    adds = [n for k, n in order if k == "add"]
    if len(adds) == 1:
        add = adds[0]
        arg = add.args[0] if add.args else None
        lst_name = None
        ok_shape = False
        if isinstance(arg, ast.Call) and dotted(arg.func) == "BoolExpr" and len(arg.args) == 2 and norm(arg.args[0]) == "Op.OR":
            if isinstance(arg.args[1], ast.Name):
                lst_name = arg.args[1].id
                ok_shape = True
        elif isinstance(arg, ast.Call) and dotted(arg.func) in ("fold_or",) and len(arg.args) == 1 and isinstance(arg.args[0], ast.Name):
            lst_name = arg.args[0].id
            ok_shape = True
        if not ok_shape:
            rep.finding("REF-3", SOLVER, "Solver.solve", short(add),
                        "the refuting constraint is not a disjunction (Op.OR) over a list built in this iteration", add.lineno)
        else:
            fresh = any(isinstance(s, ast.Assign) and isinstance(s.targets[0], ast.Name) and s.targets[0].id == lst_name
                        and isinstance(s.value, ast.List) and not s.value.elts for s in loop.body)
            if not fresh:
                rep.finding("REF-3", SOLVER, "Solver.solve", f"{lst_name} not rebuilt",
                            f"`{lst_name}` is not reset to [] at the start of each iteration: demoted keys stay in the refuting clause", add.lineno)
            appends = [n for n in ast.walk(loop) if isinstance(n, ast.Call) and isinstance(n.func, ast.Attribute)
                       and n.func.attr == "append" and norm(n.func.value) == lst_name]
            if not appends:
                rep.finding("REF-3", SOLVER, "Solver.solve", "empty refuting clause", "nothing is appended to the refuting clause", add.lineno)
            for ap in appends:
                f = expr_facts.get(id(ap), G.Facts())
                v = ap.args[0]
                good = False
                why = ""
                if isinstance(v, ast.Compare) and len(v.ops) == 1 and isinstance(v.ops[0], ast.NotEq):
                    a, b = v.left, v.comparators[0]
                    if not (isinstance(a, ast.Subscript) and norm(a.value) == "self.variables"):
                        a, b = b, a
                    if isinstance(a, ast.Subscript) and norm(a.value) == "self.variables":
                        idx = norm(a.slice)
                        bt = norm(b)
                        if isinstance(b, ast.Name):
                            bt = f.definition(b.id) or bt
                        is_key = f.knows(f"self.is_answer_key[{idx}]") is True
                        not_none = (f.knows(f"{norm(b)} is None") is False) or (f.knows(f"{cand}[{idx}] is None") is False)
                        if bt != f"{cand}[{idx}]":
                            why = f"compares variable {idx} with `{bt}`, not with its own candidate {cand}[{idx}]"
                        elif not is_key:
                            why = "operand is not restricted to answer keys"
                        elif not not_none:
                            why = "operand is not restricted to undemoted (non-None) candidates"
                        else:
                            good = True
                    else:
                        why = "operand does not compare a solver variable"
                else:
                    why = "operand is not of the form variable != candidate"
                if good:
                    rep.ok("REF-3", f"refuting operand `{short(v)}` for keys with a non-None candidate, clause rebuilt each iteration")
                else:
                    rep.finding("REF-3", SOLVER, "Solver.solve", short(ap), f"refuting clause: {why}", ap.lineno)

    # ---- REF-4 -------------------------------------------------------------------------------
    sol_stores = [n for n in ast.walk(fn) if isinstance(n, ast.Assign) and any(
        isinstance(t, ast.Attribute) and t.attr == "sol" for t in n.targets)]
    good_wb = 0
    for n in sol_stores:
        t = n.targets[0]
        inside_post = any(n is x for s in post for x in ast.walk(s))
        f = stmt_facts.get(id(n), G.Facts())
        if isinstance(t, ast.Attribute) and isinstance(t.value, ast.Subscript) and norm(t.value.value) == "self.variables":
            idx = norm(t.value.slice)
            if inside_post and norm(n.value) == f"{cand}[{idx}]" and f.knows(f"self.is_answer_key[{idx}]") is True:
                good_wb += 1
                rep.ok("REF-4", f"write-back self.variables[{idx}].sol = {cand}[{idx}] for keys, after the loop")
                continue
        rep.finding("REF-4", SOLVER, "Solver.solve", short(n),
                    "a store to .sol that is not the key-guarded write-back of the candidate after the loop", n.lineno)
    if good_wb == 0:
        rep.finding("REF-4", SOLVER, "Solver.solve", "write-back missing", "candidates are never written back to the key variables' sol", fn.lineno)
    # the write-back loop must range over all variables
    wb_loops = [s for s in post if isinstance(s, ast.For)]
    for s in wb_loops:
        rb = G.range_bounds(s.iter)
        if rb is None or rb[0] is not None or norm(rb[1]) not in ("n_var", "len(self.variables)"):
            rep.finding("REF-4", SOLVER, "Solver.solve", f"for {norm(s.target)} in {norm(s.iter)}", "the write-back does not range over all variables", s.lineno)
    last = post[-1] if post else None
    if isinstance(last, ast.Return) and isinstance(last.value, ast.Constant) and last.value.value is True:
        rep.ok("REF-4", "returns True after the write-back", nontrivial=False)
    else:
        rep.finding("REF-4", SOLVER, "Solver.solve", "final return", "the fallback route does not end with `return True`", fn.lineno)
    # all index loops inside the refinement loop range over all variables
    for n in ast.walk(loop):
        if isinstance(n, ast.For):
            rb = G.range_bounds(n.iter)
            if rb is None or rb[0] is not None or norm(rb[1]) not in ("n_var", "len(self.variables)"):
                rep.finding("REF-3", SOLVER, "Solver.solve", f"for {norm(n.target)} in {norm(n.iter)}",
                            "a pass of the refinement loop does not range over all variables", n.lineno)


# ------------------------------------------------------------------------------------------
# REF-E : Solver.solve interpreted against a scripted, model-enumerating backend
# ------------------------------------------------------------------------------------------

VAR_KINDS = (("b", (False, True)), ("i", (0, 1, 300)), ("b", (False, True)))


def _fresh(x: Any) -> Any:
    """Backends hand back newly built numbers: equal values are not the same object."""
    return int(str(x)) if isinstance(x, int) and not isinstance(x, bool) else x


class _Diverges(Exception):
    pass


def _show(c: Any) -> str:
    if isinstance(c, Obj):
        if "leaf" in c.attrs:
            return str(c.attrs["leaf"])
        op = c.attrs.get("op")
        return f"{getattr(op, 'name', op)}({', '.join(_show(x) for x in c.attrs.get('operands', []))})"
    return repr(c)


class _ModelBackend:
    """A backend whose solve() returns the first assignment of `order` that satisfies every constraint it was
    given (constraints are the DSL's own trees, denoted with the reference semantics of C01)."""

    def __init__(self, ew: EM.ExprWorld, order: List[Tuple[Any, ...]], native: Optional[Tuple[Any, List[Any]]] = None,
                 clobber: bool = False):
        self.ew, self.order, self.native = ew, order, native
        self.clobber = clobber  # on UNSAT the text backends reset every sol to None, z3 leaves the last model: both are modelled
        self.vars: List[Any] = []
        self.cons: List[Any] = []
        self.solves = 0
        self.news = 0
        self.native_args: List[Any] = []
        self.pending: List[str] = []
        self.history: List[Any] = []
        self.obj = Obj(["Backend"], add_constraint=self.add, solve=self.solve, solve_irrefutably=self.irr, name="backend")

    def ctor(self, variables: Any) -> Obj:
        self.news += 1
        self.vars = list(variables)
        return self.obj

    def add(self, c: Any) -> None:
        cs = c if isinstance(c, list) else [c]
        self.cons.extend(cs)
        self.pending.extend(_show(x) for x in cs)

    def holds(self, m: Tuple[Any, ...]) -> bool:
        val = {v.attrs["leaf"]: x for v, x in zip(self.vars, m)}
        for c in self.cons:
            r = self.ew.denote(c, val)
            if not isinstance(r, bool):
                raise Undecided(f"constraint denotes non-boolean {r!r}")
            if not r:
                return False
        return True

    def solve(self) -> bool:
        self.solves += 1
        found = next((m for m in self.order if self.holds(m)), None)
        self.history.append((found, tuple(self.pending)))
        self.pending = []
        if self.solves > 4 * len(self.order) + 8:
            if len(set(self.history[-4:])) == 1:
                # the deterministic backend was handed the same clause and returned the same model four times running
                raise _Diverges(f"after {self.solves} backend calls every round adds the clause {self.history[-1][1]} and gets the model "
                                f"{self.history[-1][0]} again")
            raise Undecided("refinement not finished within the round budget")
        if found is None:
            if self.clobber:
                for v in self.vars:
                    v.attrs["sol"] = None
            return False
        for v, x in zip(self.vars, found):
            v.attrs["sol"] = _fresh(x)
        return True

    def irr(self, keys: Any) -> Any:
        if self.native is None:
            raise Raised("NotImplementedError()")
        self.native_args.append(list(keys))
        verdict, sols = self.native
        for v, x in zip(self.vars, sols):
            v.attrs["sol"] = x
        return verdict


def _ref_world(repo: Repo) -> Tuple[EM.ExprWorld, ClassWorld]:
    ew = EM.ExprWorld(repo)
    pre = {k: v for k, v in ew.genv.items() if k in ("BoolExpr", "IntExpr", "Op", "flatten_iterator", "BoolVar", "IntVar")}
    cw = solver_world(repo, pre_env=pre)
    cw.ev.max_steps = 400000
    ew.ev.max_steps = 400000
    return ew, cw


def _run_solve(ew: EM.ExprWorld, cw: ClassWorld, kinds: List[str], keys: List[bool], models: List[Tuple[Any, ...]],
               order: List[Tuple[Any, ...]], native: Optional[Tuple[Any, List[Any]]] = None, clobber: bool = False, stale: bool = False):
    def stale_of(kind: str) -> Any:
        return True if kind == "b" else 299

    vs = []
    for i, k in enumerate(kinds):
        v = ew.leaf(k, f"v{i}")
        v.classes |= {"BoolVar"} if k == "b" else {"IntVar"}
        # `sol` may still hold what an earlier find_answer()/solve() on the same Solver left there: half of the scenarios start from
        # such stale values (chosen different from every model), which solve() must not rely on
        v.attrs.update(id=i, sol=(stale_of(k) if stale else None), lo=0, hi=300)
        vs.append(v)
    # the program: exactly the assignments in `models` (a DNF over the variables, as DSL trees)
    def lit(v: Obj, x: Any) -> Obj:
        return ew.term("BoolExpr", Tag("Op.IFF" if isinstance(x, bool) else "Op.EQ"), [v, x])
    prog = ew.term("BoolExpr", Tag("Op.OR"), [ew.term("BoolExpr", Tag("Op.AND"), [lit(v, x) for v, x in zip(vs, m)]) for m in models])
    be = _ModelBackend(ew, order, native, clobber)
    selfo = solver_self(cw, variables=vs, is_answer_key=list(keys), constraints=[prog], name="self")
    cw.ev.steps = 0
    ew.ev.steps = 0
    r = cw.method(selfo, "solve")(be.ctor)
    return r, vs, be, selfo


def _typed_eq(a: Any, b: Any) -> bool:
    return type(a) is type(b) and a == b


def semantic_scenarios(tier: str):
    """(kinds, key mask, model list in enumeration order).  Solver.solve touches values only through
    candidate != fresh value and `is None` tests, so the behaviour depends on the equality pattern among the
    models per variable and on the order in which the backend enumerates them; falsy values (False, 0) are present
    in every domain."""
    import itertools
    nv = 2 if tier == "quick" else 3
    kinds = [k for k, _ in VAR_KINDS[:nv]]
    universe = list(itertools.product(*[d for _, d in VAR_KINDS[:nv]]))
    masks = list(itertools.product([False, True], repeat=nv))
    if tier != "quick":
        universe = [u for u in universe if u[1] != 300 or u[2] is False]  # 8 of 12: keeps every per-variable pattern over <= 3 models
    for size in range(0, 4):
        for ms in itertools.permutations(universe, size):
            for mask in masks:
                yield kinds, list(mask), list(ms)
    # degenerate programs: no variable at all (the program is a constant: satisfiable or not), a single variable
    for kinds1 in ([], ["b"], ["i"]):
        doms1 = [next(d for kk, d in VAR_KINDS if kk == k) for k in kinds1]
        universe1 = list(itertools.product(*doms1))
        for size in range(0, min(3, len(universe1)) + 1):
            for ms in itertools.permutations(universe1, size):
                for mask in itertools.product([False, True], repeat=len(kinds1)):
                    yield kinds1, list(mask), list(ms)


def check_semantics(repo: Repo, rep: Report, tier: str = "quick") -> bool:
    rep.rule("REF-E", "Solver.solve, interpreted against a backend that enumerates a given finite model set in a given order, "
                      "returns True iff the set is non-empty and leaves on every key the common value or None; "
                      "native deduction verdicts and values pass through untouched")
    ew, cw = _ref_world(repo)
    fn = repo.mod(SOLVER).func("Solver.solve")
    n = 0
    try:
        for kinds, keys, models in semantic_scenarios(tier):
            doms = [next(d for kk, d in VAR_KINDS if kk == k) for k in kinds]
            rest = [u for u in itertools.product(*doms) if u not in models]
            # non-models come first in the backend's enumeration: a dropped constraint shows as a wrong model
            for clobber in (False, True):
              r, vs, be, selfo = _run_solve(ew, cw, kinds, keys, models, rest[:2] + list(models) + rest[2:], clobber=clobber, stale=not clobber)
              n += 1
              want_sat = bool(models)
              bad = None
              if r is not want_sat:
                  bad = f"returns {r!r}"
              elif want_sat:
                  for i, (v, k) in enumerate(zip(vs, keys)):
                      if not k:
                          continue
                      vals = {m[i] for m in models}
                      want = next(iter(vals)) if len(vals) == 1 else None
                      got = v.attrs.get("sol")
                      if not ((want is None and got is None) or (want is not None and _typed_eq(got, want))):
                          bad = f"key variable #{i} gets sol={got!r}, expected {want!r}"
                          break
              if be.news != 1:
                  bad = bad or f"{be.news} backend objects were created for one solve()"
              if len(be.vars) != len(vs) or any(a is not b for a, b in zip(be.vars, vs)):
                  bad = bad or "the backend is not built over exactly self.variables"
              if bad:
                  rep.finding("REF-E", SOLVER, "Solver.solve", "fallback route result",
                              f"with variables {kinds}, answer keys {keys} and the satisfying assignments {models} "
                              f"(enumerated in that order by a backend without native deduction{' that resets every sol on UNSAT' if clobber else ''}) solve() {bad}", fn.lineno)
                  return False
        # refinement length: a chain of n keys needs n demotion rounds; n is taken from the integer constants of
        # the code reachable from solve() so that a literal iteration cap is witnessed
        consts = sorted({c for c in _int_constants(repo) if 2 <= c <= 400})
        for nkeys in sorted({5} | {c + 1 for c in consts}):
            kinds = ["b"] * nkeys
            models = [tuple([j < k for j in range(nkeys)]) for k in range(nkeys + 1)]
            r, vs, be, selfo = _run_solve(ew, cw, kinds, [True] * nkeys, models, models, clobber=True)
            n += 1
            got = [v.attrs.get("sol") for v in vs]
            if r is not True or any(g is not None for g in got):
                rep.finding("REF-E", SOLVER, "Solver.solve", "refinement length",
                            f"a chain of {nkeys} boolean keys whose models are revealed one demotion at a time ends with "
                            f"sol={got[:6]}{'...' if nkeys > 6 else ''} (all must be None): the refinement stops before the backend reports UNSAT",
                            fn.lineno)
                return False
        # native route: verdict and values are the backend's
        for verdict in (True, False):
            for keys in ([True, False], [False, False], [True, True]):
                sent = [Tag("native-sol-0"), Tag("native-sol-1")]
                r, vs, be, selfo = _run_solve(ew, cw, ["b", "i"], keys, [(True, 1)], [(True, 1)], native=(verdict, sent))
                n += 1
                got = [v.attrs.get("sol") for v in vs]
                if r is not verdict or got != sent or be.native_args != [keys] or be.solves:
                    rep.finding("REF-E", SOLVER, "Solver.solve", "native route result",
                                f"with a backend that implements solve_irrefutably (verdict {verdict}) solve() returns {r!r}, "
                                f"hands it {be.native_args!r} for is_answer_key={keys}, calls solve() {be.solves} time(s) and leaves sol={got!r}",
                                fn.lineno)
                    return False
    except _Diverges as ex:
        rep.finding("REF-E", SOLVER, "Solver.solve", "refinement does not terminate",
                    f"solve() does not terminate on a program with {len(models)} satisfying assignment(s) {models} (keys {keys}): {ex}", fn.lineno)
        return False
    except EM.IllFormed as ex:
        rep.finding("REF-E", SOLVER, "Solver.solve", "ill-formed constraint", f"solve() hands the backend an ill-formed constraint: {ex}", fn.lineno)
        return False
    except (Undecided, IndexOutOfRange) as ex:
        rep.undecide("REF-E", f"Solver.solve: {ex}")
        return False
    except Raised as ex:
        rep.finding("REF-E", SOLVER, "Solver.solve", "exception", f"solve() raises {ex.what} on a well-formed program", fn.lineno)
        return False
    rep.ok("REF-E", f"{n} scenarios (model sets of size 0..3 in every enumeration order x every key mask; demotion chains; native verdicts)", points=n)
    return True


def _local_classes(repo: Repo) -> Dict[str, List[str]]:
    """private helper classes of solver.py (other than Solver) -> their method names"""
    mod = repo.mod(SOLVER)
    out: Dict[str, List[str]] = {}
    for q in mod.funcs:
        parts = q.split(".")
        if len(parts) == 2 and parts[0] != "Solver" and parts[0] in mod.classes:
            out.setdefault(parts[0], []).append(parts[1])
    return out


def _reachable(repo: Repo) -> List[ast.AST]:
    mod = repo.mod(SOLVER)
    helpers = _local_classes(repo)
    seen: Dict[str, ast.AST] = {}
    todo = ["Solver.solve"]
    while todo:
        q = todo.pop()
        if q in seen or q not in mod.funcs:
            continue
        seen[q] = mod.funcs[q]
        owner = q.split(".")[0] if "." in q else None
        for n in ast.walk(mod.funcs[q]):
            if isinstance(n, ast.Call):
                d = dotted(n.func)
                if d and d.startswith("self.") and owner:
                    todo.append(owner + "." + d[5:])
                elif d and d in mod.funcs:
                    todo.append(d)
                elif d and d in helpers:
                    # a helper object is created: every method of its class may run
                    todo.extend(f"{d}.{m}" for m in helpers[d])
    return list(seen.values())


def _value_free(repo: Repo) -> Set[str]:
    """module-level functions of solver.py that can never see a variable, a candidate or a model value: at every call from reachable
    code their arguments are only the `backend` argument of the entry point, constants, `config.<attr>`, or parameters of a function
    that is itself value-free (backend selection: which class is used is C20's business, not the refinement loop's)"""
    mod = repo.mod(SOLVER)
    entry = mod.funcs.get("Solver.solve")
    free_names = {a.arg for a in entry.args.args if a.arg != "self"} if entry is not None else set()
    cand = {q for q in mod.funcs if "." not in q}
    calls: Dict[str, List[Tuple[str, ast.Call]]] = {q: [] for q in cand}
    for q, f in mod.funcs.items():
        for n in ast.walk(f):
            if isinstance(n, ast.Call) and isinstance(n.func, ast.Name) and n.func.id in cand:
                calls[n.func.id].append((q, n))
    vf: Set[str] = set(q for q in cand if calls[q])
    changed = True
    while changed:
        changed = False
        for q in sorted(vf):
            for caller, call in calls[q]:
                ok_names = set(free_names) if caller == "Solver.solve" or caller.startswith("Solver.") else set()
                if caller in vf:
                    ok_names = {a.arg for a in mod.funcs[caller].args.args}
                fine = all(
                    isinstance(a, ast.Constant) or (isinstance(a, ast.Name) and a.id in ok_names) or (dotted(a) or "").startswith("config.")
                    for a in list(call.args) + [k.value for k in call.keywords])
                if not fine:
                    vf.discard(q)
                    changed = True
                    break
    return vf


def _int_constants(repo: Repo) -> Set[int]:
    out: Set[int] = set()
    for f in _reachable(repo):
        for n in ast.walk(f):
            if isinstance(n, ast.Constant) and isinstance(n.value, int) and not isinstance(n.value, bool):
                out.add(n.value)
    return out


def check_partition(repo: Repo, rep: Report) -> None:
    rep.rule("REF-6", "backends without native deduction (z3, sugar) raise NotImplementedError from solve_irrefutably; the others implement it; Solver.solve selects by try/except only")
    cw = ClassWorld([repo.mod("cspuz/backend/backend.py"), repo.mod("cspuz/backend/sugar_like.py"), repo.mod("cspuz/backend/z3.py")])
    for name, (cls, _entry) in c03.ENTRY.items():
        owner, fn = cw.find_method(cls, "solve_irrefutably")
        if fn is None:
            raise AnalysisError(f"{cls}.solve_irrefutably does not resolve")
        body = strip_docstring(fn.body)
        raises = len(body) == 1 and isinstance(body[0], ast.Raise) and "NotImplementedError" in norm(body[0])
        native = not raises
        if native == c03.NATIVE_ROUTE[name]:
            rep.ok("REF-6", f"{name}: {cls}.solve_irrefutably resolves to {owner} -> {'native deduction' if native else 'refute-and-resolve fallback'}")
        else:
            rep.finding("REF-6", "cspuz/backend/sugar_like.py" if cls != "Z3Backend" else "cspuz/backend/z3.py", f"{cls}.solve_irrefutably",
                        f"route of backend {name}",
                        f"backend {name!r} takes the {'native' if native else 'fallback'} route; the property assigns it the other one")


def check_selector(repo: Repo, rep: Report) -> None:
    # selector in Solver.solve
    fn = repo.mod(SOLVER).func("Solver.solve")
    tries = [n for n in ast.walk(fn) if isinstance(n, ast.Try)]
    okay = False
    for t in tries:
        if len(t.body) == 1 and isinstance(t.body[0], ast.Return) and isinstance(t.body[0].value, ast.Call):
            c = t.body[0].value
            if isinstance(c.func, ast.Attribute) and c.func.attr == "solve_irrefutably" and len(c.args) == 1 and norm(c.args[0]) == "self.is_answer_key":
                if len(t.handlers) == 1 and t.handlers[0].type is not None and norm(t.handlers[0].type) == "NotImplementedError":
                    hb = t.handlers[0].body
                    if all(isinstance(s, ast.Pass) for s in hb):
                        okay = True
    if okay:
        rep.ok("REF-6", "Solver.solve returns backend.solve_irrefutably(self.is_answer_key) and falls back only on NotImplementedError")
    else:
        rep.finding("REF-6", SOLVER, "Solver.solve", "route selector",
                    "the native route is not `return backend.solve_irrefutably(self.is_answer_key)` guarded by `except NotImplementedError: pass`", fn.lineno)
    # the backend object must be fresh, over all variables and constraints
    src = norm(fn)
    if "backend_type(self.variables)" in src and ".add_constraint(self.constraints)" in src:
        rep.ok("REF-6", "fresh backend over self.variables with all of self.constraints", nontrivial=False)
    else:
        rep.finding("REF-6", SOLVER, "Solver.solve", "backend construction", "the backend is not built from self.variables and all of self.constraints", fn.lineno)


class _Capture:
    """Collects what the shape rules would report, so that the verdict can be combined with REF-E."""

    def __init__(self, rep: Report):
        self.rep = rep
        self.oks: List[Tuple[Any, ...]] = []
        self.finds: List[Tuple[Any, ...]] = []
        self.rules: List[Tuple[str, str]] = []

    def rule(self, r: str, d: str) -> None:
        self.rules.append((r, d))

    def ok(self, *a: Any, **k: Any) -> None:
        self.oks.append((a, k))

    def finding(self, *a: Any, **k: Any) -> None:
        self.finds.append((a, k))

    def saw(self, *a: Any) -> None:
        self.rep.saw(*a)


ALLOWED_CALLS = {"any", "all", "range", "len", "enumerate", "zip", "list", "tuple", "isinstance", "BoolExpr", "fold_or", "cast", "getattr",
                 "warnings.warn", "ValueError", "TypeError", "map", "filter", "reversed"}
ALLOWED_METHODS = {"add_constraint", "solve", "solve_irrefutably", "append", "extend", "format"}


def check_vocabulary(repo: Repo, rep: Report) -> List[str]:
    """REF-V: the code reachable from Solver.solve treats all variables and all refinement rounds alike.
    Returns the list of constructs outside the vocabulary (empty = uniform)."""
    bad: List[str] = []
    mod = repo.mod(SOLVER)
    skip = {mod.funcs[q] for q in _value_free(repo)}
    funcs = [f for f in _reachable(repo) if f not in skip]
    local_funcs = {q.split(".")[-1] for q in mod.funcs}
    helpers = _local_classes(repo)
    helper_methods = {m for ms in helpers.values() for m in ms}
    for f in funcs:
        tests: List[ast.AST] = []
        for n in ast.walk(f):
            if isinstance(n, ast.While):
                if not G.is_true_const(n.test):
                    tests.append(n.test)
            elif isinstance(n, (ast.If, ast.IfExp, ast.Assert)):
                tests.append(n.test)
            elif isinstance(n, ast.comprehension):
                tests.extend(n.ifs)
            elif isinstance(n, ast.Subscript):
                sl = n.slice
                if isinstance(sl, ast.Slice) or (isinstance(sl, ast.Constant) and isinstance(sl.value, int)) or isinstance(sl, (ast.BinOp, ast.UnaryOp)):
                    bad.append(f"{f.name}: `{short(n)}` addresses a fixed or computed position")
            elif isinstance(n, ast.Call):
                d = dotted(n.func)
                if d is None and isinstance(n.func, ast.Attribute) and isinstance(n.func.value, ast.Constant) and isinstance(n.func.value.value, str):
                    pass
                elif d is None:
                    bad.append(f"{f.name}: call `{short(n)}`")
                elif d in ALLOWED_CALLS or d.split(".")[-1] in ALLOWED_METHODS:
                    pass
                elif d in helpers or ("." in d and d.split(".")[-1] in helper_methods):
                    pass  # a private helper class of solver.py: its methods are analysed as reachable code
                elif d.startswith("self.") and d[5:] in local_funcs or d in mod.funcs:
                    pass
                elif isinstance(n.func, ast.Name) and any(isinstance(a, ast.Name) and a.id == d and isinstance(a.ctx, ast.Store)
                                                           for a in ast.walk(f)):
                    pass  # a local (the backend class picked by _get_backend)
                elif d.startswith("backend."):
                    pass
                else:
                    bad.append(f"{f.name}: call of `{d}` is outside the vocabulary")
            elif isinstance(n, (ast.For,)):
                it = n.iter
                if isinstance(it, ast.Call) and dotted(it.func) == "range":
                    if len(it.args) != 1 or any(isinstance(x, (ast.Constant, ast.BinOp)) for x in ast.walk(it.args[0])):
                        bad.append(f"{f.name}: `for ... in {short(it)}` does not range over a whole list")
        for t in tests:
            for x in ast.walk(t):
                if isinstance(x, ast.Constant) and isinstance(x.value, (int, float)) and not isinstance(x.value, bool):
                    bad.append(f"{f.name}: test `{short(t)}` mentions the number {x.value}")
                elif isinstance(x, ast.Compare) and any(isinstance(o, (ast.Lt, ast.LtE, ast.Gt, ast.GtE)) for o in x.ops):
                    bad.append(f"{f.name}: test `{short(t)}` orders values")
                elif isinstance(x, ast.BinOp):
                    bad.append(f"{f.name}: test `{short(t)}` computes")
                elif isinstance(x, ast.Compare) and any(isinstance(o, (ast.Is, ast.IsNot)) for o in x.ops) and not any(
                        isinstance(c, ast.Constant) and c.value in (None, True, False) for c in [x.left] + x.comparators):
                    bad.append(f"{f.name}: test `{short(t)}` compares values by identity")
                elif isinstance(x, ast.Call) and dotted(x.func) == "len":
                    bad.append(f"{f.name}: test `{short(t)}` depends on a length")
    return bad


def run(repo: Repo, rep: Report) -> None:
    # which variables are answer keys is part of C02's input: every form of add_answer_key's argument registers every variable (VID-5)
    from . import z3m

    z3m.check_posting(repo, rep)
    # the z3 route's backend (anchored here too): bounds, read-back, verdict, every posted constraint - constants included - asserted
    z3m.check_z3_backend(repo, rep)
    sem_ok = check_semantics(repo, rep, rep.tier)
    sem_found = any(f.rule == "REF-E" for f in rep.findings)
    cap = _Capture(rep)
    shape_err: Optional[str] = None
    try:
        check_loop(repo, cap)  # type: ignore[arg-type]
        check_selector(repo, cap)  # type: ignore[arg-type]
    except AnalysisError as ex:
        shape_err = str(ex)
    for r, d in cap.rules:
        rep.rule(r, d)
    rep.rule("REF-V", "when the loop is not in the catalogued shape: the code reachable from Solver.solve is uniform in the variable index "
                      "and in the round number (no numeric tests, no positional access, closed call vocabulary), so REF-E's finite scenarios generalise")
    if shape_err is None and not cap.finds:
        for a, k in cap.oks:
            rep.ok(*a, **k)
        rep.floor("REF-1", 1)
        rep.floor("REF-3", 1)
    elif sem_found:
        # a witnessed violation: the shape deviations localise it
        for a, k in cap.finds:
            rep.finding(*a, **k)
    elif sem_ok:
        devs = [f"{a[0]}: {a[4]}" for a, _k in cap.finds] + ([shape_err] if shape_err else [])
        rep.info("Solver.solve is not in the catalogued refute-and-resolve shape (" + "; ".join(devs)[:600] + "); deciding by REF-E + REF-V")
        bad = check_vocabulary(repo, rep)
        if bad:
            rep.undecide("REF-V", "uncatalogued loop shape and non-uniform constructs: " + "; ".join(bad)[:600])
        else:
            rep.ok("REF-V", "uncatalogued loop shape; reachable code is index- and round-uniform, REF-E scenarios generalise")
    else:
        rep.undecide("REF-1", "loop shape not recognised and REF-E undecided: " + (shape_err or "; ".join(a[4] for a, _k in cap.finds))[:400])
    check_partition(repo, rep)
    h = c03.Harness(repo)
    jp = c03.JavaProtocol(repo)
    c03.check_protocol(repo, rep, h, jp)
    rep.assume("the idea of refute-and-resolve itself (intersection of all models is reached when the refuting clause becomes UNSAT) "
               "is taken as correct; REF-1..5 decide that Solver.solve has that shape, REF-E that it behaves so on every small model set")
    rep.assume("REF-E generalises from model sets of size <= 3 over 2-3 variables because Solver.solve inspects values only through "
               "equality with the previous candidate and `is None`, one variable at a time (checked by REF-1..5 or REF-V)")
