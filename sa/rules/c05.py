"""C05 - division_connected (spanning-forest encoding, primitive route, roots conversion)."""

from __future__ import annotations

import itertools
from typing import Any, Dict, List, Optional, Set, Tuple

from ..core.fde import IndexOutOfRange, Obj, Raised, Undecided
from ..core.findings import Report
from ..core.loader import Repo
from .c04 import adjacency, triage
from .encodings import work_now, GRAPHS, Canon, Instance, RefArray, compare
from .graphnative import GRAPH


def valid_labelings(n: int, edges: List[Tuple[int, int]], k: int, allow_empty: bool, roots: Optional[List[Optional[int]]]) -> Set[Tuple[int, ...]]:
    adj = adjacency(n, edges)
    out = set()
    for lab in itertools.product(range(k), repeat=n):
        ok = True
        for r in range(k):
            cls = [i for i in range(n) if lab[i] == r]
            if not cls:
                if not allow_empty:
                    ok = False
                    break
                continue
            seen = {cls[0]}
            st = [cls[0]]
            while st:
                v = st.pop()
                for u in adj[v]:
                    if lab[u] == r and u not in seen:
                        seen.add(u)
                        st.append(u)
            if len(seen) != len(cls):
                ok = False
                break
        if ok and roots is not None:
            for i, r in enumerate(roots):
                if r is not None and lab[r] != i:
                    ok = False
        if ok:
            out.add(lab)
    return out


def ref_forest(n: int, edges: List[Tuple[int, int]], k: int, allow_empty: bool, roots: Optional[List[Optional[int]]]):
    cn = Canon({})
    D = lambda i: ("D", i)  # noqa: E731
    R = lambda i: ("rank", i)  # noqa: E731
    Z = lambda i: ("root", i)  # noqa: E731
    F = lambda e: ("forest", e)  # noqa: E731
    inc: List[List[Tuple[int, int]]] = [[] for _ in range(n)]
    for e, (a, b) in enumerate(edges):
        inc[a].append((b, e))
        inc[b].append((a, e))

    def cons() -> List[Tuple]:
        out = []
        for i in range(n):
            terms = []
            for j, e in inc[i]:
                terms.append(("b2i", cn.nary("and", [F(e), cn.cmp(">", R(i), R(j))])))
                if i < j:
                    out.append(cn.nary("or", [cn.neg(F(e)), cn.nary("and", [cn.cmp("==", D(i), D(j)), cn.cmp("!=", R(i), R(j))])]))
            out.append(cn.cmp("==", cn.add(terms), ("b2i", cn.neg(Z(i)))))
        for r in range(k):
            cnt = cn.add([("b2i", cn.nary("and", [Z(v), cn.cmp("==", D(v), ("c", r))])) for v in range(n)])
            out.append(cn.cmp("<=" if allow_empty else "==", cnt, ("c", 1)))
        if roots is not None:
            for i, r in enumerate(roots):
                if r is not None:
                    out.append(cn.cmp("==", D(r), ("c", i)))
                    out.append(Z(r))
        return out

    return [RefArray("rank", "i", n, need=n), RefArray("root", "b", n), RefArray("forest", "b", len(edges))], cons


def ref_native(n: int, edges: List[Tuple[int, int]], k: int, allow_empty: bool, roots: Optional[List[Optional[int]]]):
    cn = Canon({})
    D = lambda i: ("D", i)  # noqa: E731

    def cons() -> List[Tuple]:
        out = []
        for r in range(k):
            G = lambda v, r=r: (f"region{r}", v)  # noqa: E731
            for v in range(n):
                out.append(cn.iff(G(v), cn.cmp("==", D(v), ("c", r))))
            out.append(cn.native("GRAPH_ACTIVE_VERTICES_CONNECTED", [("c", n), ("c", len(edges))] + [G(v) for v in range(n)]
                                 + [("c", x) for e in edges for x in e]))
            if not allow_empty:
                out.append(cn.cmp(">=", cn.add([("b2i", G(v)) for v in range(n)]), ("c", 1)))
        if roots is not None:
            for i, r in enumerate(roots):
                if r is not None:
                    out.append(cn.cmp("==", D(r), ("c", i)))
        return out

    return [RefArray(f"region{r}", "b", n) for r in range(k)], cons


def run(repo: Repo, rep: Report) -> None:
    from .encodings import engine_selfcheck
    engine_selfcheck(rep)
    rep.rule("ENC-S", "division_connected posts the reference spanning-forest schema / the per-label native schema (deviations triaged by projection)")
    rep.rule("ALG-10", "grid form: roots given as (y, x) become y * width + x; None entries kept; the label array is flattened row-major onto the grid graph")
    rep.saw(GRAPH, "_division_connected")
    small = [g for g in GRAPHS if g[1] <= 4]
    from .encodings import standard_history
    standard_history(repo, rep, "division_connected", "labels")
    xitems: List[Any] = []
    all_ok = True
    for native in (False, True):
        for as_list in (False, True):
            deviating = []
            n_ok = 0
            label = f"division_connected({'primitive' if native else 'forest'} route, division as {'list' if as_list else 'IntArray1D'})"
            try:
                for gname, n, edges in small:
                    for k, allow_empty, roots in ((1, False, None), (2, False, None), (2, True, None), (2, False, [n - 1, None]), (2, True, [None, 0])):
                        inst = Instance(repo, prim=native)
                        div = inst.user_ints(n, 0, k - 1, "D")
                        g = inst.w.graph(n, edges)
                        arg = list(div.attrs["data"]) if as_list else div
                        inst.w.call("division_connected", inst.s, arg, k, g, roots=roots, allow_empty_group=allow_empty)
                        refs, cons = (ref_native if native else ref_forest)(n, edges, k, allow_empty, roots)
                        same, diff = compare(inst, refs, cons)
                        if n <= 4 and not as_list:
                            xitems.append((f"{'primitive' if native else 'forest'} route, {gname} {edges}, {k} regions, allow_empty_group={allow_empty}, roots={roots}", inst,
                                           [a for a in inst.arrays if a["user"]][0]["ids"],
                                           (lambda n=n, edges=edges, k=k, allow_empty=allow_empty, roots=roots: valid_labelings(n, edges, k, allow_empty, roots))))
                        if same:
                            n_ok += 1
                        else:
                            deviating.append((f"{gname}, {k} regions, allow_empty_group={allow_empty}, roots={roots}", n, edges, inst, diff, k, allow_empty, roots))
            except Undecided as ex:
                rep.undecide("ENC-S", f"{label}: {ex}")
                continue
            except (Raised, IndexOutOfRange) as ex:
                rep.finding("ENC-S", GRAPH, "_division_connected", f"{label} raises", f"posting the constraint raises {ex}")
                continue
            if not deviating:
                rep.ok("ENC-S", f"{label}: constraint set equals the reference schema on {n_ok} instances", points=n_ok)
                continue
            all_ok = False
            deviating.sort(key=lambda d: (d[1], len(d[2]), -d[5]))
            _triage_div(rep, label, deviating)
    if all_ok:
        from .encodings import cross_check

        cross_check(rep, "division_connected", "_division_connected", xitems, total_budget_s=10.0, what="labelling")
    # grid form / roots conversion
    try:
        bad = None
        n_i = 0
        # None entries before, between and after coordinates: each root keeps the label of its own position in the list
        # the root list is also handed over as a tuple and as a one-shot iterable (compass.py passes a `map` object)
        from ..core.fde import OneShot
        for h, w, roots, form in ((2, 3, [(0, 2), None], "list"), (3, 2, [(2, 1), (0, 0)], "list"), (2, 2, None, "list"), (2, 3, [None, (0, 0)], "list"),
                                  (1, 3, [None, (0, 2)], "list"), (3, 2, [None, None], "list"), (2, 3, [(1, 0), (0, 2)], "map"), (2, 2, [(0, 0), (1, 1)], "map"),
                                  (1, 3, [None, (0, 2)], "map"), (3, 2, [(2, 1), None], "tuple")):
            n_i += 1
            inst = Instance(repo)
            arr = inst.s.attrs["int_array"]((h, w), 0, 1)
            inst.arrays[-1]["user"] = "D"
            given = roots if form == "list" or roots is None else (OneShot(list(roots)) if form == "map" else tuple(roots))
            inst.w.call("division_connected", inst.s, arr, 2, roots=given)
            edges = [(y * w + x, y * w + x + 1) for y in range(h) for x in range(w - 1)] + [(y * w + x, (y + 1) * w + x) for y in range(h - 1) for x in range(w)]
            # the library's own edge order is (right, down) per cell; the schema comparison is order-insensitive in edges only up to forest naming,
            # so rebuild the edge list in the library's documented order
            edges = []
            for y in range(h):
                for x in range(w):
                    if x < w - 1:
                        edges.append((y * w + x, y * w + x + 1))
                    if y < h - 1:
                        edges.append((y * w + x, (y + 1) * w + x))
            conv = None if roots is None else [None if r is None else r[0] * w + r[1] for r in roots]
            refs, cons = ref_forest(h * w, edges, 2, False, conv)
            same, diff = compare(inst, refs, cons)
            if not same:
                bad = f"division_connected on a {h}x{w} IntArray2D with roots {roots}{' given as a one-shot iterable (map object)' if form == 'map' else ''}: {diff}"
                break
        inst = Instance(repo)
        arr = inst.s.attrs["int_array"]((2, 2), 0, 1)
        try:
            inst.w.call("division_connected", inst.s, arr, 2, roots=[3, None])
            bad = bad or "integer roots are accepted for an IntArray2D (they must be (y, x) pairs)"
        except Raised as ex:
            if "TypeError" not in ex.what:
                bad = bad or f"integer roots for an IntArray2D raise {ex.what}"
        if bad:
            rep.finding("ALG-10", GRAPH, "division_connected", "grid roots", bad)
        else:
            rep.ok("ALG-10", f"grid form: {n_i} shapes/root lists give the reference schema on the row-major grid graph with roots y*width+x; int roots rejected", points=n_i)
    except Undecided as ex:
        rep.undecide("ALG-10", str(ex))
    except (Raised, IndexOutOfRange) as ex:
        rep.finding("ALG-10", GRAPH, "division_connected", "grid roots", f"raises {ex}")
    rep.assume("reference schemas (spanning forest with one root per label; one connected indicator array per label) are exact: DESIGN.md C05")


def _triage_div(rep: Report, label: str, devs: List[Any]) -> None:
    from .encodings import projection

    import time

    undecided = None
    t0 = work_now()
    for desc, n, edges, inst, diff, k, allow_empty, roots in devs:
        if work_now() - t0 > 25:
            break
        ids = [a for a in inst.arrays if a["user"]][0]["ids"]
        proj = projection(inst, ids, budget_s=3.0)
        if proj is None:
            undecided = f"{label} [{desc}]: deviates from the reference schema ({diff}); projection enumeration exceeded its budget"
            continue
        want = valid_labelings(n, edges, k, allow_empty, roots)
        acc, rej = sorted(proj - want), sorted(want - proj)
        if acc or rej:
            w_ = acc[0] if acc else rej[0]
            rep.finding("ENC-S", GRAPH, "_division_connected", f"{label} encoding",
                        f"{label} on [{desc}] (edges {edges}): the constraints deviate from the reference schema ({diff}) and "
                        f"{'admit' if acc else 'reject'} the labelling {list(w_)}, which is {'not ' if acc else ''}a valid connected division")
            return
    rep.undecide("ENC-S", undecided or f"{label}: deviates from the reference schema ({devs[0][4]}) but no differing labelling was found on the small graphs")
