"""Abstract-evaluation world for cspuz/problem_serializer.py and the puzzle codecs."""

from __future__ import annotations

import ast
import itertools
from typing import Any, Dict, List, Optional, Set, Tuple

from ..core import fde
from ..core.classworld import ClassWorld
from ..core.fde import IndexOutOfRange, Obj, Raised, Tag, Undecided
from ..core.loader import AnalysisError, Repo

SER = "cspuz/problem_serializer.py"
UTIL = "cspuz/puzzle/util.py"


class SerWorld:
    def __init__(self, repo: Repo, puzzle: Optional[str] = None):
        self.repo = repo
        mods = [repo.mod(SER), repo.mod(UTIL)]
        self.pmod = None
        if puzzle:
            self.pmod = repo.mod(f"cspuz/puzzle/{puzzle}.py")
            mods.append(self.pmod)
        self.cw = ClassWorld(mods)
        self.cw.ev.max_steps = 2_000_000
        g = self.cw.genv
        for n in [q for q in repo.mod(UTIL).funcs if "." not in q]:
            if n in g:
                g["util." + n] = g[n]
        # module-level combinator constants of the puzzle module (evaluated, not listed)
        self.constants: Dict[str, Any] = {}
        if self.pmod is not None:
            for st in self.pmod.tree.body:
                if isinstance(st, ast.Assign) and len(st.targets) == 1 and isinstance(st.targets[0], ast.Name) \
                        and isinstance(st.value, ast.Call) and st.targets[0].id.isupper():
                    try:
                        self.cw.ev.steps = 0
                        v = self.cw.ev.eval(st.value, g)
                    except (Undecided, Raised):
                        continue
                    g[st.targets[0].id] = v
                    self.constants[st.targets[0].id] = v

    def new(self, cls: str, *a: Any, **k: Any) -> Obj:
        self.cw.ev.steps = 0
        return self.cw.new(cls, *a, **k)

    def call(self, name: str, *a: Any, **k: Any) -> Tuple[str, Any]:
        self.cw.ev.steps = 0
        self.cw.ev.depth = 0
        try:
            return "ok", self.cw.call(name, *a, **k)
        except Raised as ex:
            return "raise", ex.what.split("(")[0]
        except IndexOutOfRange:
            return "raise", "IndexError"

    def meth(self, obj: Obj, name: str, *a: Any, **k: Any) -> Tuple[str, Any]:
        self.cw.ev.steps = 0
        self.cw.ev.depth = 0
        try:
            return "ok", self.cw.method(obj, name)(*a, **k)
        except Raised as ex:
            return "raise", ex.what.split("(")[0]
        except IndexOutOfRange:
            return "raise", "IndexError"

    def env(self, height: int, width: int) -> Obj:
        return self.new("CombinatorEnv", height, width)

    def roundtrip(self, comb: Obj, value: Any, height: int, width: int) -> Optional[str]:
        try:
            return self._roundtrip(comb, value, height, width)
        except (TypeError, ValueError, IndexError, KeyError) as ex:
            return f"malformed result ({type(ex).__name__}: {ex})"

    def _roundtrip(self, comb: Obj, value: Any, height: int, width: int) -> Optional[str]:
        """None if serialize -> deserialize returns the value and consumes exactly the text; else a message."""
        env = self.env(height, width)
        st, r = self.meth(comb, "serialize", env, [value], 0)
        if st != "ok":
            return f"serialize raises {r}"
        if r is None:
            return "serialize rejects the value"
        if not (isinstance(r, tuple) and len(r) == 2 and isinstance(r[1], str)):
            return f"serialize returns {r!r}"
        n_items, text = r
        if n_items != 1:
            return f"serialize reports {n_items} items consumed for one value"
        # the produced text exactly (value at the very end of the string) ...
        st, d = self.meth(comb, "deserialize", env, text, 0)
        if st != "ok":
            return f"text {text!r} (nothing after it): deserialize raises {d}"
        if d is None:
            return f"text {text!r} (nothing after it): deserialize rejects what serialize produced"
        if d[0] != len(text) or not (isinstance(d[1], list) and len(d[1]) == 1 and same_value(d[1][0], value)):
            return f"text {text!r} (nothing after it): deserialize yields {d!r}"
        # ... and followed by junk (exact consumption)
        st, d = self.meth(comb, "deserialize", env, text + "~~", 0)
        if st != "ok":
            return f"text {text!r}: deserialize raises {d}"
        if d is None:
            return f"text {text!r}: deserialize rejects what serialize produced"
        n_read, vals = d
        if n_read != len(text):
            return f"text {text!r}: deserialize consumes {n_read} of {len(text)} characters"
        if not (isinstance(vals, list) and len(vals) == 1):
            return f"text {text!r}: deserialize yields {vals!r}"
        if not same_value(vals[0], value):
            return f"text {text!r}: deserialize yields {vals[0]!r}"
        # ... and in the middle of a longer text / a longer value list (a part of a Tupl never starts at position 0): the start position
        # is where reading and writing begin, the count returned is relative to it
        for pre in ("0g", "7"):
            st, d = self.meth(comb, "deserialize", env, pre + text + "~~", len(pre))
            if st != "ok":
                return f"text {text!r} placed at offset {len(pre)} (after {pre!r}): deserialize raises {d}"
            if d is None or d[0] != len(text) or not (isinstance(d[1], list) and len(d[1]) == 1 and same_value(d[1][0], value)):
                return f"text {text!r} placed at offset {len(pre)} (after {pre!r}): deserialize yields {d!r} instead of ({len(text)}, [value])"
        st, r2 = self.meth(comb, "serialize", env, [None, value], 1)
        if st != "ok" or r2 != r:
            return f"serialize of the value at position 1 of the value list gives {r2!r}, at position 0 it gives {r!r}"
        return None


def same_value(a: Any, b: Any) -> bool:
    if isinstance(a, (list, tuple)) and isinstance(b, (list, tuple)):
        return type(a) is type(b) and len(a) == len(b) and all(same_value(x, y) for x, y in zip(a, b))
    return type(a) is type(b) and a == b


def int_constants(fn: ast.AST) -> Set[int]:
    """integer constants a function compares against (the breakpoints of its branch structure)"""
    out: Set[int] = set()
    for n in ast.walk(fn):
        if isinstance(n, ast.Compare):
            for s in [n.left] + list(n.comparators):
                for c in ast.walk(s):
                    if isinstance(c, ast.Constant) and isinstance(c.value, int) and not isinstance(c.value, bool):
                        out.add(c.value)
    return out


def boundary_grid(consts: Set[int], lo: int, hi: int) -> List[int]:
    vals = {lo, hi, 0, 1}
    for c in consts:
        vals |= {c - 1, c, c + 1}
    return sorted(v for v in vals if lo <= v <= hi)


def connected_partitions(h: int, w: int, limit: int = 400) -> List[List[List[Tuple[int, int]]]]:
    """all partitions of an h x w board into orthogonally connected rooms (rooms and cells in canonical order)"""
    cells = [(y, x) for y in range(h) for x in range(w)]
    out: List[List[List[Tuple[int, int]]]] = []

    def connected(block: List[Tuple[int, int]]) -> bool:
        bs = set(block)
        seen = {block[0]}
        st = [block[0]]
        while st:
            y, x = st.pop()
            for dy, dx in ((1, 0), (-1, 0), (0, 1), (0, -1)):
                p = (y + dy, x + dx)
                if p in bs and p not in seen:
                    seen.add(p)
                    st.append(p)
        return len(seen) == len(bs)

    def rec(i: int, blocks: List[List[Tuple[int, int]]]) -> None:
        if len(out) >= limit:
            return
        if i == len(cells):
            if all(connected(b) for b in blocks):
                out.append([list(b) for b in blocks])
            return
        for b in blocks:
            b.append(cells[i])
            rec(i + 1, blocks)
            b.pop()
        blocks.append([cells[i]])
        rec(i + 1, blocks)
        blocks.pop()

    rec(0, [])
    return out


def canon_rooms(rooms: Any) -> Any:
    return frozenset(frozenset(tuple(c) for c in r) for r in rooms)
