"""C16 - puzzle URL codecs round-trip and agree with the puzz.link / pzv format.

URL-RT   decode(encode(p)) == p (and the dimensions) on non-square boards, per module (abstract evaluation).
URL-HDR  every produced URL is <prefix>?<name>/<width>/<height>/<body>.
URL-REF  an independent reference decoder of the pzpr body encodings (sa/rules/pzpr_ref.py) reads the
         body back as the same problem.
URL-LEG  legacy helper encoders (util.encode_array, util.encode_grid_segmentation) and the combinator
         codecs produce identical text for identical data.
DK-5     format strings of URL writers that are not evaluated put width before height.
"""

from __future__ import annotations

import ast
import re
from typing import Any, Callable, Dict, List, Optional, Tuple

from ..core.fde import Obj, Raised, Undecided
from ..core.findings import Report
from ..core.loader import AnalysisError, Repo, norm, qualname, short
from . import pzpr_ref as P
from .c15 import _grid_values
from .serworld import SerWorld, canon_rooms, connected_partitions, same_value

BOARDS = [(2, 3), (3, 2), (1, 4), (4, 5)]


def boards(vals: List[Any], blank: Any) -> List[Tuple[int, int, List[List[Any]]]]:
    out = []
    for h, w in BOARDS:
        for b in _grid_values(h, w, vals, blank):
            out.append((h, w, b))
    return out


def flat(b: List[List[Any]]) -> List[Any]:
    return [x for r in b for x in r]


def header_ok(url: Any, names: List[str], h: int, w: int) -> Optional[str]:
    if not isinstance(url, str):
        return f"not a string: {url!r}"
    sp = P.split_url(url)
    if sp is None:
        return f"{url!r} is not <scheme>://host/p?name/..."
    name, fields = sp
    if name not in names:
        return f"puzzle name {name!r}, expected one of {names}"
    if len(fields) < 3 or fields[0] != str(w) or fields[1] != str(h):
        return f"dimension fields {fields[:2]} for a board of width {w}, height {h} (puzz.link order is width/height)"
    return None


GRID_MODULES: Dict[str, Dict[str, Any]] = {
    "nurikabe": dict(names=["nurikabe"], vals=[1, 9, 15, 16, 255, 256, -1], blank=0,
                     ref=lambda body, h, w: [(-1 if v == "?" else v) for v in P.number16(body, h * w, 0, "?")[0]]),
    "sudoku": dict(names=["sudoku"], vals=[1, 9, 15, 16, 25], blank=0,
                   ref=lambda body, h, w: P.number16(body, h * w, 0, "?")[0]),
    "nurimisaki": dict(names=["nurimisaki"], vals=[0, 1, 2, 15, 16, 255], blank=-1,
                       ref=lambda body, h, w: [(0 if v == "?" else v) for v in P.number16(body, h * w, -1, "?")[0]]),
    "slitherlink": dict(names=["slither"], vals=[0, 1, 2, 3, 4], blank=-1,
                        ref=lambda body, h, w: P.cell4(body, h * w, -1)[0]),
    "masyu": dict(names=["masyu", "mashu"], vals=[1, 2], blank=0,
                  ref=lambda body, h, w: P.circle3(body, h * w)[0]),
    "yajilin": dict(names=["yajilin"], vals=["^0", "v1", "<2", ">3", "^15", "??"], blank="..",
                    ref=lambda body, h, w: P.arrow16(body, h * w)[0]),
}


def check_grid_modules(repo: Repo, rep: Report) -> None:
    for modname, spec in GRID_MODULES.items():
        file = f"cspuz/puzzle/{modname}.py"
        short_name = modname if modname != "slitherlink" else "slitherlink"
        ser, des = f"serialize_{short_name}", f"deserialize_{short_name}"
        rep.saw(file, ser)
        try:
            w = SerWorld(repo, modname)
        except Undecided as ex:
            rep.undecide("URL-RT", f"{modname}: {ex}")
            continue
        if ser not in w.cw.genv or des not in w.cw.genv:
            raise AnalysisError(f"anchor vanished: {file}::{ser}/{des}")
        bad: Dict[str, Optional[str]] = {"URL-RT": None, "URL-HDR": None, "URL-REF": None}
        n = 0
        try:
            for h, wd, board in boards(spec["vals"], spec["blank"]):
                n += 1
                st, url = w.call(ser, board)
                if st != "ok":
                    bad["URL-RT"] = bad["URL-RT"] or f"{ser}({board}) raises {url}"
                    continue
                msg = header_ok(url, spec["names"], h, wd)
                if msg:
                    bad["URL-HDR"] = bad["URL-HDR"] or f"{ser}({board}) -> {url!r}: {msg}"
                    continue
                st, back = w.call(des, url)
                if st != "ok" or not same_value(back, board):
                    bad["URL-RT"] = bad["URL-RT"] or f"{ser}({board}) -> {url!r} -> {des} gives {st} {back!r}"
                body = P.split_url(url)[1][2]
                try:
                    ref = spec["ref"](body, h, wd)
                    if ref != flat(board):
                        bad["URL-REF"] = bad["URL-REF"] or f"body {body!r} of a {h}x{wd} board {board}: the reference pzpr decoder reads {ref}"
                except (P.Bad, ValueError, IndexError) as ex:
                    bad["URL-REF"] = bad["URL-REF"] or f"body {body!r} of board {board}: not decodable by the reference pzpr decoder ({ex})"
        except Undecided as ex:
            rep.undecide("URL-RT", f"{modname}: {ex}")
            continue
        for rule, msg in bad.items():
            if msg:
                rep.finding(rule, file, ser if rule != "URL-RT" or "gives" not in msg else des, f"{modname} {rule}", msg)
            else:
                rep.ok(rule, f"{modname}: {n} non-square boards", points=n)
        # wrong puzzle name must be rejected with ValueError (allowed_puzzles)
        try:
            st, url = w.call(ser, [[spec["blank"]] * 2])
            if st == "ok" and isinstance(url, str):
                other = url.replace("?" + P.split_url(url)[0] + "/", "?someotherpuzzle/")
                st2, r2 = w.call(des, other)
                if st2 == "raise" and r2 == "ValueError":
                    rep.ok("URL-RT", f"{modname}: a URL of another puzzle is rejected with ValueError", nontrivial=False)
                else:
                    rep.finding("URL-RT", file, des, f"{modname} allowed_puzzles", f"{des}({other!r}) gives {st2} {r2!r} instead of ValueError")
        except Undecided as ex:
            rep.undecide("URL-RT", f"{modname} allowed_puzzles: {ex}")


def room_cases() -> List[Tuple[int, int, List[List[Tuple[int, int]]]]]:
    out = []
    for h, wd in [(2, 3), (3, 2), (1, 4), (3, 1)]:
        parts = connected_partitions(h, wd, 60)
        for rooms in parts[:: max(1, len(parts) // 25)]:
            out.append((h, wd, rooms))
            out.append((h, wd, [list(reversed(r)) for r in reversed(rooms)]))
    # non-convex rooms: a U whose arms both reach the top row, a C, a ring around a single cell, an S
    out += [(2, 3, [[(0, 0), (1, 0), (1, 1), (1, 2), (0, 2)], [(0, 1)]]),
            (3, 2, [[(0, 0), (0, 1), (1, 0), (2, 0), (2, 1)], [(1, 1)]]),
            (3, 3, [[(0, 0), (0, 1), (0, 2), (1, 0), (1, 2), (2, 0), (2, 1), (2, 2)], [(1, 1)]]),
            (3, 3, [[(0, 0), (1, 0), (2, 0), (2, 1), (2, 2), (1, 2), (0, 2)], [(0, 1), (1, 1)]]),
            (2, 4, [[(0, 0), (0, 1), (1, 1), (1, 2)], [(1, 0)], [(0, 2), (0, 3), (1, 3)]])]
    return out


def check_room_modules(repo: Repo, rep: Report) -> None:
    for modname, name in (("lits", "lits"), ("norinori", "norinori")):
        file = f"cspuz/puzzle/{modname}.py"
        ser, des = f"serialize_{modname}", f"deserialize_{modname}"
        rep.saw(file, ser)
        try:
            w = SerWorld(repo, modname)
            bad: Dict[str, Optional[str]] = {"URL-RT": None, "URL-HDR": None, "URL-REF": None}
            n = 0
            for h, wd, rooms in room_cases():
                n += 1
                st, url = w.call(ser, h, wd, rooms)
                if st != "ok":
                    bad["URL-RT"] = bad["URL-RT"] or f"{ser}({h}, {wd}, {rooms}) raises {url}"
                    continue
                msg = header_ok(url, [name], h, wd)
                if msg:
                    bad["URL-HDR"] = bad["URL-HDR"] or f"{ser}({h}, {wd}, ...) -> {url!r}: {msg}"
                    continue
                st, back = w.call(des, url)
                okay = st == "ok" and isinstance(back, tuple) and len(back) == 3 and back[0] == h and back[1] == wd and \
                    canon_rooms(back[2]) == canon_rooms(rooms)
                if not okay:
                    bad["URL-RT"] = bad["URL-RT"] or f"{ser}({h}, {wd}, {rooms}) -> {url!r} -> {des} gives {st} {back!r}"
                body = P.split_url(url)[1][2]
                try:
                    ref, _ = P.border(body, h, wd)
                    if canon_rooms(ref) != canon_rooms(rooms):
                        bad["URL-REF"] = bad["URL-REF"] or f"body {body!r} ({h}x{wd}, rooms {rooms}): reference border decoder reads {ref}"
                except (P.Bad, ValueError, IndexError) as ex:
                    bad["URL-REF"] = bad["URL-REF"] or f"body {body!r}: not decodable by the reference border decoder ({ex})"
        except Undecided as ex:
            rep.undecide("URL-RT", f"{modname}: {ex}")
            continue
        for rule, msg in bad.items():
            if msg:
                rep.finding(rule, file, ser, f"{modname} {rule}", msg)
            else:
                rep.ok(rule, f"{modname}: {n} room partitions on non-square boards", points=n)
    # heyawake
    file = "cspuz/puzzle/heyawake.py"
    rep.saw(file, "serialize_heyawake")
    try:
        w = SerWorld(repo, "heyawake")
        bad = {"URL-RT": None, "URL-HDR": None, "URL-REF": None}
        n = 0
        for h, wd, rooms in room_cases():
            clues = [(-1 if i % 3 == 1 else (i * 7) % 20) for i in range(len(rooms))]
            n += 1
            st, url = w.call("serialize_heyawake", h, wd, rooms, clues)
            if st != "ok":
                bad["URL-RT"] = bad["URL-RT"] or f"serialize_heyawake({h}, {wd}, {rooms}, {clues}) raises {url}"
                continue
            msg = header_ok(url, ["heyawake"], h, wd)
            if msg:
                bad["URL-HDR"] = bad["URL-HDR"] or f"-> {url!r}: {msg}"
                continue
            st, back = w.call("deserialize_heyawake", url)
            want = {frozenset(map(tuple, r)): c for r, c in zip(rooms, clues)}
            okay = False
            if st == "ok" and isinstance(back, tuple) and len(back) == 3 and back[0] == h and back[1] == wd:
                br, bc = back[2]
                okay = {frozenset(map(tuple, r)): c for r, c in zip(br, bc)} == want
            if not okay:
                bad["URL-RT"] = bad["URL-RT"] or f"serialize_heyawake({h}, {wd}, {rooms}, {clues}) -> {url!r} -> deserialize gives {st} {back!r}"
            body = P.split_url(url)[1][2]
            try:
                ref, used = P.border(body, h, wd)
                vals, _ = P.number16(body[used:], len(ref), -1, "?")
                got = {frozenset(r): v for r, v in zip(ref, vals)}
                if got != want:
                    bad["URL-REF"] = bad["URL-REF"] or f"body {body!r}: reference decoder reads rooms/clues {list(zip(ref, vals))}, problem is {list(zip(rooms, clues))}"
            except (P.Bad, ValueError, IndexError) as ex:
                bad["URL-REF"] = bad["URL-REF"] or f"body {body!r}: not decodable by the reference decoder ({ex})"
        for rule, msg in bad.items():
            if msg:
                rep.finding(rule, file, "serialize_heyawake", f"heyawake {rule}", msg)
            else:
                rep.ok(rule, f"heyawake: {n} valued room partitions on non-square boards", points=n)
    except Undecided as ex:
        rep.undecide("URL-RT", f"heyawake: {ex}")


def check_legacy(repo: Repo, rep: Report) -> None:
    """compass (to_/parse_), aquarium, star_battle, and legacy-vs-combinator agreement."""
    # ---- compass ---------------------------------------------------------------------------
    file = "cspuz/puzzle/compass.py"
    rep.saw(file, "to_puzz_link_url")
    try:
        w = SerWorld(repo, "compass")
        cases = [
            (5, 4, [(1, 1, 1, 2, -1, 3), (2, 3, -1, 6, -1, -1), (3, 1, 4, -1, -1, 5)]),
            (2, 5, [(0, 0, 1, -1, 2, 3), (1, 4, 16, 0, 255, -1)]),
            (4, 2, [(3, 1, -1, -1, -1, -1)]),
            (3, 7, [(0, 6, 15, 16, 17, 1), (2, 0, 0, 0, 0, 0)]),
        ]
        bad = {"URL-RT": None, "URL-HDR": None, "URL-REF": None}
        for h, wd, pos in cases:
            st, url = w.call("to_puzz_link_url", h, wd, pos)
            if st != "ok":
                bad["URL-RT"] = bad["URL-RT"] or f"to_puzz_link_url({h}, {wd}, {pos}) raises {url}"
                continue
            msg = header_ok(url, ["compass"], h, wd)
            if msg:
                bad["URL-HDR"] = bad["URL-HDR"] or f"to_puzz_link_url({h}, {wd}, ...) -> {url!r}: {msg}"
                continue
            st, back = w.call("parse_puzz_link_url", url)
            okay = st == "ok" and isinstance(back, tuple) and len(back) == 3 and back[0] == h and back[1] == wd and \
                sorted(map(tuple, back[2])) == sorted(pos)
            if not okay:
                bad["URL-RT"] = bad["URL-RT"] or (f"to_puzz_link_url({h}, {wd}, {pos}) -> {url!r} -> parse_puzz_link_url gives {st} {back!r}; "
                                                  f"expected ({h}, {wd}, {pos})")
            body = P.split_url(url)[1][2]
            try:
                cells: List[Any] = []
                i = 0
                while len(cells) < h * wd and i < len(body):
                    c = body[i]
                    if "g" <= c <= "z":
                        cells.extend([None] * (P.B36.index(c) - 15))
                        i += 1
                    else:
                        four = []
                        for _ in range(4):
                            v, i = P.number16_token(body, i)
                            four.append(-1 if v == "?" else v)
                        cells.append(tuple(four))
                got = sorted((k // wd, k % wd, c[0], c[2], c[1], c[3]) for k, c in enumerate(cells[: h * wd]) if c is not None)
                if got != sorted(pos):
                    bad["URL-REF"] = bad["URL-REF"] or f"body {body!r} of a {h}x{wd} board: reference decoder reads clues {got}, problem is {sorted(pos)}"
            except (P.Bad, ValueError, IndexError) as ex:
                bad["URL-REF"] = bad["URL-REF"] or f"body {body!r}: not decodable ({ex})"
        for rule, msg in bad.items():
            if msg:
                rep.finding(rule, file, "parse_puzz_link_url" if rule == "URL-RT" else "to_puzz_link_url", f"compass {rule}", msg)
            else:
                rep.ok(rule, f"compass: {len(cases)} clue sets on non-square boards", points=len(cases))
    except Undecided as ex:
        rep.undecide("URL-RT", f"compass: {ex}")
    # ---- aquarium / star_battle (writers only) --------------------------------------------------
    for modname, fn in (("aquarium", "problem_to_url"), ("star_battle", "problem_to_pzv_url")):
        file = f"cspuz/puzzle/{modname}.py"
        rep.saw(file, fn)
        try:
            w = SerWorld(repo, modname)
            bad = {"URL-HDR": None, "URL-REF": None}
            n = 0
            if modname == "aquarium":
                for h, wd, rooms in room_cases()[:30]:
                    n += 1
                    row = [(-1 if i % 2 else i + 1) for i in range(h)]
                    col = [(i * 9) % 20 for i in range(wd)]
                    st, url = w.call(fn, h, wd, rooms, row, col)
                    if st != "ok":
                        bad["URL-REF"] = bad["URL-REF"] or f"{fn}({h}, {wd}, ...) raises {url}"
                        continue
                    msg = header_ok(url, ["aquarium"], h, wd)
                    if msg:
                        bad["URL-HDR"] = bad["URL-HDR"] or f"{fn}({h}, {wd}, ...) -> {url!r}: {msg}"
                        continue
                    fields = P.split_url(url)[1]
                    try:
                        ref, _ = P.border(fields[2], h, wd)
                        vals, _ = P.number16(fields[3], h + wd, -1, "?")
                        if canon_rooms(ref) != canon_rooms(rooms) or vals != col + row:
                            bad["URL-REF"] = bad["URL-REF"] or f"{url!r}: reference decoder reads rooms {ref} clues {vals}; problem has rooms {rooms}, column clues {col}, row clues {row}"
                    except (P.Bad, ValueError, IndexError) as ex:
                        bad["URL-REF"] = bad["URL-REF"] or f"{url!r}: not decodable ({ex})"
            else:
                for h, wd, rooms in [c for c in room_cases() if c[0] == c[1]] + [(2, 2, r) for r in connected_partitions(2, 2)] + \
                        [(3, 3, r) for r in connected_partitions(3, 3, 40)[::4]]:
                    n += 1
                    bid = [[-1] * wd for _ in range(h)]
                    for i, r in enumerate(rooms):
                        for y, x in r:
                            bid[y][x] = i
                    st, url = w.call(fn, h, 2, bid)
                    if st != "ok":
                        bad["URL-REF"] = bad["URL-REF"] or f"{fn}({h}, 2, {bid}) raises {url}"
                        continue
                    msg = header_ok(url, ["starbattle"], h, wd)
                    if msg:
                        bad["URL-HDR"] = bad["URL-HDR"] or f"{fn} -> {url!r}: {msg}"
                        continue
                    fields = P.split_url(url)[1]
                    try:
                        ref, _ = P.border(fields[3], h, wd)
                        if fields[2] != "2" or canon_rooms(ref) != canon_rooms(rooms):
                            bad["URL-REF"] = bad["URL-REF"] or f"{url!r}: reference decoder reads k={fields[2]} rooms {ref}; problem has k=2 rooms {rooms}"
                    except (P.Bad, ValueError, IndexError) as ex:
                        bad["URL-REF"] = bad["URL-REF"] or f"{url!r}: not decodable ({ex})"
            for rule, msg in bad.items():
                if msg:
                    rep.finding(rule, file, fn, f"{modname} {rule}", msg)
                else:
                    rep.ok(rule, f"{modname}: {n} problems", points=n)
        except Undecided as ex:
            rep.undecide("URL-REF", f"{modname}: {ex}")
    # ---- legacy helpers vs combinators ------------------------------------------------------------
    rep.saw("cspuz/puzzle/util.py", "encode_array")
    try:
        w = SerWorld(repo, "sudoku")
        bad_l = None
        n = 0
        for h, wd, board in boards([1, 9, 15, 16, 255, 256, 4095], 0):
            n += 1
            st, a = w.call("encode_array", board, empty=0)
            st2, b = w.call("serialize_problem", w.constants["SUDOKU_COMBINATOR"], board, height=h, width=wd)
            if st != "ok" or st2 != "ok" or a != b:
                bad_l = f"board {board}: util.encode_array gives {a!r}, the Grid(OneOf(Spaces, HexInt)) combinator gives {b!r}"
                break
        # runs of empty cells around the longest run one character can carry (and twice that): the flush boundary
        for run in (19, 20, 21, 22, 39, 40, 41, 42, 61):
            for tail in ([5], []):
                row = [3] + [0] * run + tail
                n += 1
                st, a = w.call("encode_array", [row], empty=0)
                st2, b = w.call("serialize_problem", w.constants["SUDOKU_COMBINATOR"], [row], height=1, width=len(row))
                if st != "ok" or st2 != "ok" or a != b:
                    bad_l = bad_l or (f"a row with {run} consecutive empty cells{' at the end' if not tail else ''}: util.encode_array gives {a!r}, "
                                      f"the Grid(OneOf(Spaces, HexInt)) combinator gives {b!r}")
                    break
        for h, wd, rooms in room_cases():
            n += 1
            bid = [[-1] * wd for _ in range(h)]
            for i, r in enumerate(rooms):
                for y, x in r:
                    bid[y][x] = i
            st, a = w.call("encode_grid_segmentation", h, wd, bid)
            st2, b = w.call("serialize_problem", w.new("Rooms"), rooms, height=h, width=wd)
            if st != "ok" or st2 != "ok" or a != b:
                bad_l = bad_l or f"rooms {rooms} on {h}x{wd}: util.encode_grid_segmentation gives {a!r}, the Rooms combinator gives {b!r}"
                break
        if bad_l:
            rep.finding("URL-LEG", "cspuz/puzzle/util.py", "encode_array", "legacy vs combinator", bad_l)
        else:
            rep.ok("URL-LEG", f"legacy encoders and combinator codecs agree on {n} data sets", points=n)
    except Undecided as ex:
        rep.undecide("URL-LEG", str(ex))
    except KeyError:
        raise AnalysisError("anchor vanished: SUDOKU_COMBINATOR")


def _slalom_expect(h: int, w: int, extra_black: List[Tuple[int, int]], gates: List[Tuple[int, int, int, int, int]]):
    """what the URL has to say: gate cells ('2' vertical, '3' horizontal), black cells = the given ones plus the in-board cells at
    both ends of every gate, and for each numbered gate its number on at least one of its end cells"""
    cell: Dict[Tuple[int, int], str] = {c: "1" for c in extra_black}
    ends_of = []
    for (y, x, d, ln, n) in gates:
        ends = []
        for i in range(ln):
            cell[(y, x + i) if d == 0 else (y + i, x)] = "3" if d == 0 else "2"
        for c in (((y, x - 1), (y, x + ln)) if d == 0 else ((y - 1, x), (y + ln, x))):
            if 0 <= c[0] < h and 0 <= c[1] < w:
                ends.append(c)
                cell[c] = "1"
        ends_of.append((n, ends))
    return cell, ends_of


def check_extra_writers(repo: Repo, rep: Report) -> None:
    """URL writers of modules the property's module list does not name (its statement says 'every URL-producing function'):
    nanro, nurimaze, slalom.  Nothing raises on well-formed problems of non-square boards, header order, and the body is read back
    by reference decoders (border bits, number16, run-length cells)."""
    from ..core.fde import KInt

    rep.rule("URL-W", "further URL writers (nanro, nurimaze, slalom): nothing raises on non-square boards, no height/width role is exchanged, "
                      "and a reference decoder reads the body back as the problem")
    # ---- nanro: borders + number16 ---------------------------------------------------------------
    file, fn = "cspuz/puzzle/nanro.py", "problem_to_pzv_url"
    if repo.has(file) and fn in repo.mod(file).funcs:
        rep.saw(file, fn)
        try:
            w = SerWorld(repo, "nanro")
            bad = None
            n = 0
            for h, wd, rooms in room_cases()[::2] + [(1, 23, [[(0, x) for x in range(23)]])]:
                for fill in (0, 1):
                    n += 1
                    num = [[((y * wd + x) % 3 + 14 * ((y + x) % 2)) * fill if (y, x) != (h - 1, wd - 1) else 2 for x in range(wd)] for y in range(h)]
                    st, url = w.call(fn, h, wd, rooms, num)
                    if st != "ok":
                        bad = bad or f"{fn}({h}, {wd}, {rooms}, {num}) raises {url}"
                        continue
                    msg = header_ok(url, ["nanro"], h, wd)
                    if msg:
                        bad = bad or f"{fn}({h}, {wd}, ...) -> {url!r}: {msg}"
                        continue
                    body = P.split_url(url)[1][2]
                    try:
                        ref, i = P.border(body, h, wd)
                        vals, _ = P.number16(body[i:], h * wd, 0, "?")
                        if canon_rooms(ref) != canon_rooms(rooms) or vals != flat(num):
                            bad = bad or f"{url!r}: reference decoder reads rooms {ref} numbers {vals}; problem has rooms {rooms}, numbers {flat(num)}"
                    except (P.Bad, ValueError, IndexError) as ex:
                        bad = bad or f"{url!r}: not decodable ({ex})"
            if bad:
                rep.finding("URL-W", file, fn, "nanro URL", bad)
            else:
                rep.ok("URL-W", f"nanro: {n} problems on non-square boards read back by the reference decoder", points=n)
        except Undecided as ex:
            rep.undecide("URL-W", f"nanro: {ex}")
    # ---- nurimaze: raw border bits + S/G/circle/triangle cells -------------------------------------
    file = "cspuz/puzzle/nurimaze.py"
    if repo.has(file) and fn in repo.mod(file).funcs:
        rep.saw(file, fn)
        try:
            w = SerWorld(repo, "nurimaze")
            bad = None
            n = 0
            for h, wd in ((2, 3), (3, 2), (1, 4), (4, 1), (3, 4), (2, 20)):
                for variant in range(3):
                    n += 1
                    wv = [[(x + y + variant) % 2 for x in range(wd - 1)] for y in range(h)]
                    wh = [[(x * 2 + y + variant) % 3 % 2 for x in range(wd)] for y in range(h - 1)]
                    mark = [[0] * wd for _ in range(h)]
                    start, goal = (0, 0), (h - 1, wd - 1)
                    if variant == 1:
                        start, goal = goal, start
                    if variant >= 1 and h * wd >= 4:
                        mark[0][wd - 1] = 1
                        mark[h - 1][0] = 2
                    st, url = w.call(fn, h, wd, wv, wh, mark, start, goal)
                    if st != "ok":
                        bad = bad or f"{fn}({h}, {wd}, ...) raises {url}"
                        continue
                    msg = header_ok(url, ["nurimaze"], h, wd)
                    if msg:
                        bad = bad or f"{fn}({h}, {wd}, ...) -> {url!r}: {msg}"
                        continue
                    body = P.split_url(url)[1][2]
                    try:
                        vb, hb, i = P.border_bits(body, h, wd)
                        cells, _ = P.run_cells(body[i:], h * wd, "1234", "5")
                        want = []
                        for y in range(h):
                            for x in range(wd):
                                want.append(str(mark[y][x] + 2) if mark[y][x] else ("1" if (y, x) == start else ("2" if (y, x) == goal else None)))
                        if vb != flat(wv) or hb != flat(wh) or cells != want:
                            bad = bad or (f"{url!r}: reference decoder reads walls {vb} / {hb} and cells {cells}; the problem has walls {flat(wv)} / {flat(wh)} "
                                          f"and cells {want} (1 = S, 2 = G, 3 = circle, 4 = triangle)")
                    except (P.Bad, ValueError, IndexError) as ex:
                        bad = bad or f"{url!r}: not decodable ({ex})"
            if bad:
                rep.finding("URL-W", file, fn, "nurimaze URL", bad)
            else:
                rep.ok("URL-W", f"nurimaze: {n} problems on non-square boards read back by the reference decoder", points=n)
        except Undecided as ex:
            rep.undecide("URL-W", f"nurimaze: {ex}")
    # ---- slalom: cell kinds, clue numbers on the gate ends, origin ------------------------------------
    file = "cspuz/puzzle/slalom.py"
    if repo.has(file) and fn in repo.mod(file).funcs:
        rep.saw(file, fn)
        try:
            bad = None
            n = 0
            cases = []
            for h, wd in ((2, 3), (3, 2), (4, 2), (2, 4), (3, 4), (4, 3)):
                # a vertical gate over the full height, one from the top edge ending inside the board, a horizontal one likewise
                cases.append((h, wd, ((0, 0), [], [(0, wd - 1, 1, h, -1)])))
                if h >= 3:
                    cases.append((h, wd, ((h - 1, 0), [], [(0, wd - 1, 1, h - 1, -1)])))
                    cases.append((h, wd, ((0, 0), [(0, 1)] if wd > 2 else [], [(1, wd - 1, 1, h - 1, 1)])))
                if wd >= 3:
                    cases.append((h, wd, ((h - 1, wd - 1), [], [(0, 0, 0, wd - 1, -1)])))
                    cases.append((h, wd, ((h - 1, 0), [], [(0, 1, 0, wd - 1, 2)])))
                if h >= 3 and wd >= 3:
                    cases.append((h, wd, ((0, 0), [(h - 1, wd - 1)], [(1, 1, 1, 1, 17)] + ([(0, 3, 0, 1, -1)] if wd >= 4 else []))))
            for h, wd, problem in cases:
                n += 1
                w = SerWorld(repo, "slalom")
                w.cw.ev.strict_index = True
                st, url = w.call(fn, KInt(h, "R", "ext"), KInt(wd, "C", "ext"), problem)
                if st != "ok":
                    bad = bad or f"{fn}({h}, {wd}, {problem}) raises {url}"
                    continue
                for text, comp, k, axis, line in w.cw.ev.kind_events[:1]:
                    if str(axis).startswith("cmp:"):
                        bad = bad or (f"{fn}({h}, {wd}, {problem}): `{text}` bounds the {'column' if k == 'C' else 'row'} position `{comp}` by the board's "
                                      f"{'width' if axis[4:] == 'C' else 'height'} (line {line})")
                    else:
                        bad = bad or f"{fn}({h}, {wd}, {problem}): `{text}` uses the {'width' if k == 'C' else 'height'}-derived value `{comp}` on the other axis (line {line})"
                if url is None:
                    bad = bad or f"{fn}({h}, {wd}, {problem}) gives no URL for a well-formed problem"
                    continue
                sp = P.split_url(url) if isinstance(url, str) else None
                if sp is None or sp[0] != "slalom" or len(sp[1]) < 5 or sp[1][1] != str(wd) or sp[1][2] != str(h):
                    bad = bad or f"{fn}({h}, {wd}, ...) -> {url!r}: expected slalom/<variant>/{wd}/{h}/<body>/<origin>"
                    continue
                body, origin = sp[1][3], sp[1][4]
                want_cell, ends_of = _slalom_expect(h, wd, problem[1], problem[2])
                try:
                    cells, i = P.run_cells(body, h * wd, "123", "4")
                    want = [want_cell.get((y, x)) for y in range(h) for x in range(wd)]
                    if cells != want:
                        bad = bad or (f"{url!r}: reference decoder reads cells {cells}; the problem {problem} on a {h}x{wd} board has {want} "
                                      "(1 = black incl. both ends of every gate, 2 / 3 = vertical / horizontal gate)")
                        continue
                    blacks = [(k // wd, k % wd) for k, c in enumerate(cells) if c == "1"]
                    rest = body[i:]
                    j = 0
                    clue: Dict[Tuple[int, int], int] = {}
                    b = 0
                    while b < len(blacks):
                        if j >= len(rest):
                            raise P.Bad("clue section too short")
                        c = rest[j]
                        if "g" <= c <= "z":
                            b += P.B36.index(c) - 15
                            j += 1
                        elif c in "0123456789":
                            nd = 2 if int(c) >= 5 else 1
                            clue[blacks[b]] = int(rest[j + 1:j + 1 + nd], 16)
                            j += 1 + nd
                            b += 1
                        else:
                            raise P.Bad(f"unexpected character {c!r} in the clue section")
                    for nn, ends in ends_of:
                        if nn != -1 and not any(clue.get(e) == nn for e in ends):
                            bad = bad or f"{url!r}: gate number {nn} is on none of its end cells {ends} (clues read: {clue})"
                    if origin != str(problem[0][0] * wd + problem[0][1]):
                        bad = bad or f"{url!r}: origin field {origin}, expected {problem[0][0] * wd + problem[0][1]} (row-major index of {problem[0]})"
                except (P.Bad, ValueError, IndexError) as ex:
                    bad = bad or f"{url!r}: not decodable ({ex})"
            if bad:
                rep.finding("URL-W", file, fn, "slalom URL", bad)
            else:
                rep.ok("URL-W", f"slalom: {n} problems on non-square boards (gates touching every edge) read back by the reference decoder", points=n)
        except Undecided as ex:
            rep.undecide("URL-W", f"slalom: {ex}")


URL_FMT = re.compile(r"\?\w+(/\w+)?/\{[^}]*\}/\{[^}]*\}")


def check_format_order(repo: Repo, rep: Report) -> None:
    rep.rule("DK-5", "URL format strings put the width expression before the height expression")
    n = 0
    for m in repo.iter("cspuz/"):
        for node in ast.walk(m.tree):
            lit = None
            args: List[ast.AST] = []
            if isinstance(node, ast.Call) and isinstance(node.func, ast.Attribute) and node.func.attr == "format" and \
                    isinstance(node.func.value, ast.Constant) and isinstance(node.func.value.value, str):
                lit = node.func.value.value
                args = list(node.args)
            elif isinstance(node, ast.JoinedStr):
                lit = "".join(v.value if isinstance(v, ast.Constant) else "{}" for v in node.values)
                args = [v.value for v in node.values if isinstance(v, ast.FormattedValue)]
            if lit is None:
                continue
            mm = re.search(r"\?(\{\}|\w+)(/\w+)?/\{\}/\{\}", re.sub(r"\{[^}]*\}", "{}", lit))
            if not mm:
                continue
            k = re.sub(r"\{[^}]*\}", "{}", lit)[: mm.end()].count("{}") - 2
            if k < 0 or k + 1 >= len(args):
                continue
            n += 1
            a, b = norm(args[k]), norm(args[k + 1])
            kind = lambda t: "w" if "width" in t else ("h" if "height" in t else "?")  # noqa: E731
            if (kind(a), kind(b)) == ("h", "w"):
                rep.finding("DK-5", m.rel, qualname(node), short(node), f"URL is written as .../{{{a}}}/{{{b}}}/...: puzz.link order is width/height", node.lineno)
            else:
                rep.ok("DK-5", f"{m.rel}::{qualname(node)} writes {a}/{b}", nontrivial=(kind(a), kind(b)) == ("w", "h"))
    if n < 5:
        raise AnalysisError(f"DK-5 found only {n} URL format sites")
    # readers
    rep.rule("DK-6", "regex groups of the URL reader are bound width=group 2, height=group 3; get_puzzle_info_from_url returns (name, height, width)")
    w = SerWorld(repo)
    try:
        st, r = w.call("get_puzzle_info_from_url", "https://puzz.link/p?nurikabe/7/4/abc")
        if st == "ok" and tuple(r) == ("nurikabe", 4, 7):
            rep.ok("DK-6", "get_puzzle_info_from_url('.../nurikabe/7/4/...') = ('nurikabe', height 4, width 7)")
        else:
            rep.finding("DK-6", "cspuz/problem_serializer.py", "get_puzzle_info_from_url", "reader order", f"returns {st} {r!r} for .../nurikabe/7/4/...; expected ('nurikabe', 4, 7)")
        for url in ("http://pzv.jp/p.html?nurikabe/7/4/abc", "https://example.org/p?x/1/2/"):
            st, r = w.call("get_puzzle_info_from_url", url)
            if not (st == "ok" and r is not None):
                rep.finding("DK-6", "cspuz/problem_serializer.py", "get_puzzle_info_from_url", f"url form {url}", f"a well-formed URL {url!r} is not recognised ({st} {r!r})")
        st, r = w.call("get_puzzle_info_from_url", "not a url")
        if st == "ok" and r is None:
            rep.ok("DK-6", "a non-URL yields None", nontrivial=False)
        else:
            rep.finding("DK-6", "cspuz/problem_serializer.py", "get_puzzle_info_from_url", "non-url", f"a non-URL gives {st} {r!r}")
    except Undecided as ex:
        rep.undecide("DK-6", str(ex))


def run(repo: Repo, rep: Report) -> None:
    rep.rule("URL-RT", "decode(encode(problem)) == problem with its dimensions, on non-square boards")
    rep.rule("URL-HDR", "produced URLs carry <name>/<width>/<height>/<body>")
    rep.rule("URL-REF", "an independent reference decoder of the pzpr encodings reads the body back as the same problem")
    rep.rule("URL-LEG", "legacy helper encoders and combinator codecs agree")
    check_grid_modules(repo, rep)
    check_room_modules(repo, rep)
    check_legacy(repo, rep)
    check_extra_writers(repo, rep)
    check_format_order(repo, rep)
    rep.floor("URL-RT", 9)
    rep.assume("the reference decoders in sa/rules/pzpr_ref.py follow the published pzpr conventions (number16, 4-cell, base-3 circles, border bits, arrow numbers)")
