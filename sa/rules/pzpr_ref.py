"""Independent reference decoders of the pzpr/puzz.link body encodings (the specification side of
C16's "an independent decoder reads back the same problem").  Written from the published pzpr
encoding conventions, not from cspuz' code."""

from __future__ import annotations

from typing import Any, List, Optional, Tuple

B36 = "0123456789abcdefghijklmnopqrstuvwxyz"


class Bad(Exception):
    pass


def number16_token(s: str, i: int) -> Tuple[Any, int]:
    """one number token: hex digit | -hh | +hhh | . (question mark)"""
    c = s[i]
    if c == ".":
        return "?", i + 1
    if c == "-":
        return int(s[i + 1:i + 3], 16), i + 3
    if c == "+":
        return int(s[i + 1:i + 4], 16), i + 4
    if c in "0123456789abcdef":
        return int(c, 16), i + 1
    raise Bad(f"unexpected character {c!r}")


def number16(s: str, n: int, blank: Any, qmark: Any) -> Tuple[List[Any], int]:
    """n cells: number tokens, g..z = 1..20 blank cells"""
    out: List[Any] = []
    i = 0
    while len(out) < n:
        if i >= len(s):
            raise Bad("body too short")
        c = s[i]
        if "g" <= c <= "z":
            out.extend([blank] * (B36.index(c) - 15))
            i += 1
        else:
            v, i = number16_token(s, i)
            out.append(qmark if v == "?" else v)
    return out[:n], i


def cell4(s: str, n: int, blank: Any) -> Tuple[List[Any], int]:
    """slitherlink-style: 0-4 number, 5-9 number+1 blank, a-e number+2 blanks, g-z blanks"""
    out: List[Any] = []
    i = 0
    while len(out) < n:
        if i >= len(s):
            raise Bad("body too short")
        c = s[i]
        v = B36.index(c)
        if v <= 4:
            out.append(v)
        elif v <= 9:
            out.extend([v - 5, blank])
        elif v <= 14:
            out.extend([v - 10, blank, blank])
        elif v >= 16:
            out.extend([blank] * (v - 15))
        else:
            raise Bad("unexpected 'f'")
        i += 1
    return out[:n], i


def circle3(s: str, n: int) -> Tuple[List[int], int]:
    """masyu: three base-3 digits per character"""
    out: List[int] = []
    i = 0
    while len(out) < n:
        v = B36.index(s[i])
        if v >= 27:
            raise Bad("digit group out of range")
        out.extend([v // 9, (v // 3) % 3, v % 3])
        i += 1
    return out[:n], i


def border(s: str, h: int, w: int) -> Tuple[List[List[Tuple[int, int]]], int]:
    """room borders: vertical borders (h x (w-1)) then horizontal ((h-1) x w), 5 bits per base-32 character"""
    def bits(start: int, count: int) -> Tuple[List[int], int]:
        nchar = (count + 4) // 5
        out: List[int] = []
        for k in range(nchar):
            v = B36.index(s[start + k])
            if v >= 32:
                raise Bad("border digit out of range")
            out.extend([(v >> (4 - j)) & 1 for j in range(5)])
        return out[:count], start + nchar

    vb, i = bits(0, h * (w - 1))
    hb, i = bits(i, (h - 1) * w)
    room = [[-1] * w for _ in range(h)]
    rooms: List[List[Tuple[int, int]]] = []
    for y0 in range(h):
        for x0 in range(w):
            if room[y0][x0] != -1:
                continue
            rid = len(rooms)
            cells = []
            stack = [(y0, x0)]
            room[y0][x0] = rid
            while stack:
                y, x = stack.pop()
                cells.append((y, x))
                nb = []
                if x + 1 < w and not vb[y * (w - 1) + x]:
                    nb.append((y, x + 1))
                if x > 0 and not vb[y * (w - 1) + x - 1]:
                    nb.append((y, x - 1))
                if y + 1 < h and not hb[y * w + x]:
                    nb.append((y + 1, x))
                if y > 0 and not hb[(y - 1) * w + x]:
                    nb.append((y - 1, x))
                for p in nb:
                    if room[p[0]][p[1]] == -1:
                        room[p[0]][p[1]] = rid
                        stack.append(p)
            rooms.append(sorted(cells))
    return rooms, i


def arrow16(s: str, n: int) -> Tuple[List[Any], int]:
    """yajilin: direction digit 1-4 + hex digit (or '.'), a-z = 1..26 blank cells, 0x = clue without arrow"""
    out: List[Any] = []
    i = 0
    dirs = {1: "^", 2: "v", 3: "<", 4: ">"}
    while len(out) < n:
        c = s[i]
        if "a" <= c <= "z":
            out.extend([".."] * (ord(c) - ord("a") + 1))
            i += 1
        elif c in "01234":
            d = int(c)
            t = s[i + 1]
            if d == 0 or t == ".":
                out.append("??")
            else:
                out.append(f"{dirs[d]}{int(t, 16)}")
            i += 2
        else:
            raise Bad(f"unexpected character {c!r}")
    return out[:n], i


def split_url(url: str) -> Optional[Tuple[str, List[str]]]:
    """('name', [fields...]) for https://host/p?name/f1/f2/... or https://host/p.html?name/..."""
    if "?" not in url:
        return None
    head, tail = url.split("?", 1)
    if not (head.startswith("http://") or head.startswith("https://")):
        return None
    parts = tail.split("/")
    return parts[0], parts[1:]


def border_bits(s: str, h: int, w: int) -> Tuple[List[int], List[int], int]:
    """raw border bits: h x (w-1) vertical-border flags, then (h-1) x w horizontal ones, 5 per base-32 character; returns the index
    of the first character after them"""
    def bits(start: int, count: int) -> Tuple[List[int], int]:
        nchar = (count + 4) // 5
        out: List[int] = []
        for k in range(nchar):
            if start + k >= len(s):
                raise Bad("border section too short")
            v = B36.index(s[start + k])
            if v >= 32:
                raise Bad("border digit out of range")
            out.extend([(v >> (4 - j)) & 1 for j in range(5)])
        if any(out[count:]):
            raise Bad("padding bits set")
        return out[:count], start + nchar

    vb, i = bits(0, h * (w - 1))
    hb, i = bits(i, (h - 1) * w)
    return vb, hb, i


def run_cells(s: str, n: int, digits: str, first_run: str) -> Tuple[List[Any], int]:
    """cells written as single characters from `digits`, with runs of empty cells as one base-36 character each
    (`first_run` = one empty cell, the next character two, ... up to 'z')"""
    out: List[Any] = []
    i = 0
    base = B36.index(first_run)
    while len(out) < n:
        if i >= len(s):
            raise Bad("cell section too short")
        c = s[i]
        i += 1
        if c in digits:
            out.append(c)
        elif c in B36 and B36.index(c) >= base:
            out.extend([None] * (B36.index(c) - base + 1))
        else:
            raise Bad(f"unexpected character {c!r}")
    if len(out) != n:
        raise Bad("a run of empty cells overshoots the board")
    return out, i
