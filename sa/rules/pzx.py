"""PZ-X: the constraints a bundled solver posts, projected on its answer variables, against the puzzle's published rules.

For the puzzles whose rules fit in a few lines, `solve_<puzzle>` is evaluated abstractly (as in C11's other rules: the
source is interpreted, `Solver.solve` is a token) on tiny boards; the posted constraint trees are then *decided* for
every assignment of the answer variables (three-valued backtracking over the auxiliary variables, encodings.Extender)
and the set of extendable assignments must equal the set of grids that obey the rules as written down here, each rule a
direct transcription of the published rule text (brute force over all grids; nothing of the repository is consulted).

Together with C02 (solve() reports exactly the common facts of the solution set) equality of the two sets on an
instance gives C11's statement for that instance.  What is decided is therefore: the listed puzzles, on the listed tiny
instances.  Every other puzzle and every larger board is outside this rule (stated in the evidence).
"""

from __future__ import annotations

import itertools
import time
from concurrent.futures import ProcessPoolExecutor
from typing import Any, Callable, Dict, List, Optional, Sequence, Set, Tuple

from ..core.fde import IndexOutOfRange, Raised, Undecided
from ..core.findings import Report
from ..core.loader import Repo
from .encodings import Extender

Cell = Tuple[int, int]


# ------------------------------------------------------------------------------------------
# small geometry helpers for the rule oracles
# ------------------------------------------------------------------------------------------


def cells(h: int, w: int) -> List[Cell]:
    return [(y, x) for y in range(h) for x in range(w)]


def nb4(h: int, w: int, c: Cell) -> List[Cell]:
    y, x = c
    return [(yy, xx) for yy, xx in ((y - 1, x), (y + 1, x), (y, x - 1), (y, x + 1)) if 0 <= yy < h and 0 <= xx < w]


def connected(h: int, w: int, on: Set[Cell]) -> bool:
    """orthogonally connected; the empty set counts as connected (the library's documented convention)"""
    if not on:
        return True
    start = next(iter(on))
    seen = {start}
    st = [start]
    while st:
        c = st.pop()
        for d in nb4(h, w, c):
            if d in on and d not in seen:
                seen.add(d)
                st.append(d)
    return len(seen) == len(on)


def components(h: int, w: int, on: Set[Cell]) -> List[Set[Cell]]:
    out = []
    left = set(on)
    while left:
        start = left.pop()
        comp = {start}
        st = [start]
        while st:
            c = st.pop()
            for d in nb4(h, w, c):
                if d in left:
                    left.discard(d)
                    comp.add(d)
                    st.append(d)
        out.append(comp)
    return out


def grid_of(h: int, w: int, pat: Sequence[bool]) -> Dict[Cell, bool]:
    return {(y, x): pat[y * w + x] for y in range(h) for x in range(w)}


def frame_edges(H: int, W: int) -> List[Tuple[Cell, Cell]]:
    """edges of the lattice with (H+1) x (W+1) points in the order BoolGridFrame lists them: horizontal (H+1 rows of W),
    then vertical (H rows of W+1)"""
    out = []
    for y in range(H + 1):
        for x in range(W):
            out.append(((y, x), (y, x + 1)))
    for y in range(H):
        for x in range(W + 1):
            out.append(((y, x), (y + 1, x)))
    return out


def single_loop_or_empty(edges: List[Tuple[Cell, Cell]], pat: Sequence[bool]) -> bool:
    on = [e for e, b in zip(edges, pat) if b]
    if not on:
        return True
    deg: Dict[Cell, int] = {}
    adj: Dict[Cell, List[Cell]] = {}
    for a, b in on:
        deg[a] = deg.get(a, 0) + 1
        deg[b] = deg.get(b, 0) + 1
        adj.setdefault(a, []).append(b)
        adj.setdefault(b, []).append(a)
    if any(d != 2 for d in deg.values()):
        return False
    start = on[0][0]
    seen = {start}
    st = [start]
    while st:
        c = st.pop()
        for d in adj[c]:
            if d not in seen:
                seen.add(d)
                st.append(d)
    return len(seen) == len(deg)


# ------------------------------------------------------------------------------------------
# rule oracles: (instance arguments) -> predicate over the answer pattern (in the order the solver returns it)
# ------------------------------------------------------------------------------------------


def rule_heyawake(h: int, w: int, rooms: List[List[Cell]], clues: List[int]) -> Callable[[Sequence[bool]], bool]:
    room_of = {c: i for i, r in enumerate(rooms) for c in r}

    def ok(pat: Sequence[bool]) -> bool:
        black = grid_of(h, w, pat)
        for c in cells(h, w):
            if black[c] and any(black[d] for d in nb4(h, w, c)):
                return False
        if not connected(h, w, {c for c in cells(h, w) if not black[c]}):
            return False
        for i, r in enumerate(rooms):
            if clues[i] >= 0 and sum(black[c] for c in r) != clues[i]:
                return False
        # a straight run of white cells may not cross two room borders
        lines = [[(y, x) for x in range(w)] for y in range(h)] + [[(y, x) for y in range(h)] for x in range(w)]
        for line in lines:
            crossed = 0
            for a, b in zip(line, line[1:]):
                if black[a] or black[b]:
                    crossed = 0
                    continue
                if room_of[a] != room_of[b]:
                    crossed += 1
                    if crossed >= 2:
                        return False
        return True

    return ok


def rule_akari(h: int, w: int, problem: List[List[int]]) -> Callable[[Sequence[bool]], bool]:
    white = {c for c in cells(h, w) if problem[c[0]][c[1]] < -1}

    def sight(c: Cell) -> List[Cell]:
        out = []
        for dy, dx in ((-1, 0), (1, 0), (0, -1), (0, 1)):
            y, x = c[0] + dy, c[1] + dx
            while 0 <= y < h and 0 <= x < w and (y, x) in white:
                out.append((y, x))
                y, x = y + dy, x + dx
        return out

    def ok(pat: Sequence[bool]) -> bool:
        light = grid_of(h, w, pat)
        for c in cells(h, w):
            if c not in white:
                if light[c]:
                    return False
                n = problem[c[0]][c[1]]
                if n >= 0 and sum(light[d] for d in nb4(h, w, c) if d in white) != n:
                    return False
            else:
                seen = [d for d in sight(c) if light[d]]
                if light[c] and seen:
                    return False
                if not light[c] and not seen:
                    return False
        return True

    return ok


def rule_nurikabe(h: int, w: int, problem: List[List[int]], unknown_low: Optional[int] = None) -> Callable[[Sequence[bool]], bool]:
    clue = {c: problem[c[0]][c[1]] for c in cells(h, w) if problem[c[0]][c[1]] >= 1 or problem[c[0]][c[1]] == -1}

    def ok(pat: Sequence[bool]) -> bool:
        white = grid_of(h, w, pat)
        ws = {c for c in cells(h, w) if white[c]}
        if any(c not in ws for c in clue):
            return False
        for comp in components(h, w, ws):
            cl = [c for c in comp if c in clue]
            if len(cl) != 1:
                return False
            n = clue[cl[0]]
            if n > 0 and len(comp) != n:
                return False
            if n == -1 and unknown_low is not None and len(comp) < unknown_low:
                return False
        if not connected(h, w, {c for c in cells(h, w) if not white[c]}):
            return False
        for y in range(h - 1):
            for x in range(w - 1):
                if not (white[(y, x)] or white[(y + 1, x)] or white[(y, x + 1)] or white[(y + 1, x + 1)]):
                    return False
        return True

    return ok


def rule_norinori(h: int, w: int, blocks: List[List[Cell]]) -> Callable[[Sequence[bool]], bool]:
    def ok(pat: Sequence[bool]) -> bool:
        black = grid_of(h, w, pat)
        for c in cells(h, w):
            if black[c] and sum(black[d] for d in nb4(h, w, c)) != 1:
                return False
        return all(sum(black[c] for c in b) == 2 for b in blocks)

    return ok


def rule_yinyang(h: int, w: int, problem: List[List[int]]) -> Callable[[Sequence[bool]], bool]:
    def ok(pat: Sequence[bool]) -> bool:
        black = grid_of(h, w, pat)
        for c in cells(h, w):
            v = problem[c[0]][c[1]]
            if (v == 1 and black[c]) or (v == 2 and not black[c]):
                return False
        for colour in (True, False):
            if not connected(h, w, {c for c in cells(h, w) if black[c] is colour}):
                return False
        for y in range(h - 1):
            for x in range(w - 1):
                q = [black[(y, x)], black[(y + 1, x)], black[(y, x + 1)], black[(y + 1, x + 1)]]
                if all(q) or not any(q):
                    return False
        return True

    return ok


def rule_creek(h: int, w: int, problem: List[List[int]]) -> Callable[[Sequence[bool]], bool]:
    def ok(pat: Sequence[bool]) -> bool:
        white = grid_of(h, w, pat)
        if not connected(h, w, {c for c in cells(h, w) if white[c]}):
            return False
        for y in range(h + 1):
            for x in range(w + 1):
                n = problem[y][x]
                if n >= 0:
                    around = [(yy, xx) for yy in (y - 1, y) for xx in (x - 1, x) if 0 <= yy < h and 0 <= xx < w]
                    if sum(not white[c] for c in around) != n:
                        return False
        return True

    return ok


def rule_star_battle(n: int, blocks: List[List[int]], k: int) -> Callable[[Sequence[bool]], bool]:
    def ok(pat: Sequence[bool]) -> bool:
        star = grid_of(n, n, pat)
        for i in range(n):
            if sum(star[(i, x)] for x in range(n)) != k or sum(star[(y, i)] for y in range(n)) != k:
                return False
            if sum(star[c] for c in cells(n, n) if blocks[c[0]][c[1]] == i) != k:
                return False
        for (y, x) in cells(n, n):
            if star[(y, x)]:
                for dy in (-1, 0, 1):
                    for dx in (-1, 0, 1):
                        if (dy or dx) and star.get((y + dy, x + dx), False):
                            return False
        return True

    return ok


def rule_slitherlink(h: int, w: int, problem: List[List[int]]) -> Callable[[Sequence[bool]], bool]:
    edges = frame_edges(h, w)

    def ok(pat: Sequence[bool]) -> bool:
        if not single_loop_or_empty(edges, pat):
            return False
        on = {e for e, b in zip(edges, pat) if b}
        for y in range(h):
            for x in range(w):
                n = problem[y][x]
                if n >= 0:
                    around = [((y, x), (y, x + 1)), ((y + 1, x), (y + 1, x + 1)), ((y, x), (y + 1, x)), ((y, x + 1), (y + 1, x + 1))]
                    if sum(e in on for e in around) != n:
                        return False
        return True

    return ok


def rule_masyu(h: int, w: int, problem: List[List[int]]) -> Callable[[Sequence[bool]], bool]:
    """cells are the lattice points; 1 = white circle, 2 = black circle"""
    edges = frame_edges(h - 1, w - 1)

    def ok(pat: Sequence[bool]) -> bool:
        if not single_loop_or_empty(edges, pat):
            return False
        on = {e for e, b in zip(edges, pat) if b}

        def has(a: Cell, b: Cell) -> bool:
            return (a, b) in on or (b, a) in on

        def arms(c: Cell) -> List[Cell]:
            return [d for d in nb4(h, w, c) if has(c, d)]

        for c in cells(h, w):
            v = problem[c[0]][c[1]]
            if v not in (1, 2):
                continue
            a = arms(c)
            if len(a) != 2:
                return False
            straight = (a[0][0] == a[1][0]) or (a[0][1] == a[1][1])
            if v == 1:
                if not straight:
                    return False
                # the loop must turn in the previous and/or the next cell
                turns = 0
                for d in a:
                    da = arms(d)
                    if not (len(da) == 2 and ((da[0][0] == da[1][0]) or (da[0][1] == da[1][1]))):
                        turns += 1
                if turns == 0:
                    return False
            else:
                if straight:
                    return False
                # the loop must go straight through the cells before and after
                for d in a:
                    da = arms(d)
                    if not (len(da) == 2 and ((da[0][0] == da[1][0]) or (da[0][1] == da[1][1]))):
                        return False
        return True

    return ok


def rule_gokigen(h: int, w: int, problem: List[List[int]]) -> Callable[[Sequence[bool]], bool]:
    """answer: per cell True = backslash (top-left to bottom-right), False = slash"""

    def ok(pat: Sequence[bool]) -> bool:
        back = grid_of(h, w, pat)
        parent: Dict[Cell, Cell] = {}

        def find(a: Cell) -> Cell:
            while parent.setdefault(a, a) != a:
                parent[a] = parent[parent[a]]
                a = parent[a]
            return a

        touch: Dict[Cell, int] = {}
        for (y, x) in cells(h, w):
            a, b = ((y, x), (y + 1, x + 1)) if back[(y, x)] else ((y, x + 1), (y + 1, x))
            touch[a] = touch.get(a, 0) + 1
            touch[b] = touch.get(b, 0) + 1
            ra, rb = find(a), find(b)
            if ra == rb:
                return False
            parent[ra] = rb
        for y in range(h + 1):
            for x in range(w + 1):
                if problem[y][x] >= 0 and touch.get((y, x), 0) != problem[y][x]:
                    return False
        return True

    return ok


def rule_aquarium(h: int, w: int, blocks: List[List[Cell]], clue_row: List[int], clue_col: List[int]) -> Callable[[Sequence[bool]], bool]:
    def ok(pat: Sequence[bool]) -> bool:
        water = grid_of(h, w, pat)
        for y in range(h):
            if clue_row[y] >= 0 and sum(water[(y, x)] for x in range(w)) != clue_row[y]:
                return False
        for x in range(w):
            if clue_col[x] >= 0 and sum(water[(y, x)] for y in range(h)) != clue_col[x]:
                return False
        # one water level per aquarium: a filled cell means every cell of the same aquarium at the same height or lower is filled
        for b in blocks:
            filled_rows = [y for (y, x) in b if water[(y, x)]]
            if filled_rows:
                top = min(filled_rows)
                if any(not water[(y, x)] for (y, x) in b if y >= top):
                    return False
        return True

    return ok


# ------------------------------------------------------------------------------------------
# instances
# ------------------------------------------------------------------------------------------

W_ = -2  # akari: white cell


def _rows(h: int, w: int) -> List[List[Cell]]:
    return [[(y, x) for x in range(w)] for y in range(h)]


def _cols(h: int, w: int) -> List[List[Cell]]:
    return [[(y, x) for y in range(h)] for x in range(w)]


def instances(tier: str) -> List[Tuple[str, tuple, dict, Callable[..., Callable[[Sequence[bool]], bool]]]]:
    """(puzzle, positional arguments, keyword arguments, rule oracle factory taking the same arguments)"""
    I: List[Tuple[str, tuple, dict, Any]] = []
    deep = tier != "quick"
    # heyawake: three rooms stacked / side by side (the run rule needs two borders), L-shaped room, free and fixed clues
    I += [("heyawake", (3, 2, _rows(3, 2), [-1, -1, -1]), {}, rule_heyawake),
          ("heyawake", (2, 3, _cols(2, 3), [-1, -1, -1]), {}, rule_heyawake),
          ("heyawake", (3, 3, [[(0, 0), (0, 1), (0, 2)], [(1, 0), (1, 1), (1, 2)], [(2, 0), (2, 1), (2, 2)]], [1, -1, 1]), {}, rule_heyawake),
          ("heyawake", (3, 3, [[(0, 0), (1, 0), (2, 0), (2, 1), (2, 2)], [(0, 1), (0, 2)], [(1, 1), (1, 2)]], [2, 0, -1]), {}, rule_heyawake),
          ("heyawake", (1, 4, [[(0, 0)], [(0, 1), (0, 2)], [(0, 3)]], [-1, -1, -1]), {}, rule_heyawake)]
    if deep:
        I += [("heyawake", (4, 2, [[(0, 0), (0, 1)], [(1, 0), (1, 1), (2, 0), (2, 1)], [(3, 0), (3, 1)]], [-1, -1, -1]), {}, rule_heyawake),
              ("heyawake", (2, 4, [[(0, 0), (1, 0)], [(0, 1), (1, 1), (0, 2), (1, 2)], [(0, 3), (1, 3)]], [-1, -1, -1]), {}, rule_heyawake),
              ("heyawake", (4, 3, _rows(4, 3), [-1, 1, -1, -1]), {}, rule_heyawake)]
    # akari
    I += [("akari", (2, 3, [[W_, W_, W_], [W_, -1, W_]]), {}, rule_akari),
          ("akari", (3, 3, [[W_, W_, W_], [W_, 1, W_], [W_, W_, W_]]), {}, rule_akari),
          ("akari", (3, 2, [[0, W_], [W_, W_], [W_, 2]]), {}, rule_akari),
          ("akari", (1, 4, [[W_, -1, W_, W_]]), {}, rule_akari)]
    if deep:
        I += [("akari", (3, 3, [[W_, -1, W_], [W_, W_, W_], [2, W_, W_]]), {}, rule_akari),
              ("akari", (3, 3, [[W_, W_, 1], [W_, W_, W_], [0, W_, W_]]), {}, rule_akari)]
    # nurikabe
    I += [("nurikabe", (2, 3, [[1, 0, 0], [0, 0, 2]]), {}, rule_nurikabe),
          ("nurikabe", (3, 3, [[2, 0, 0], [0, 0, 0], [0, 0, -1]]), {}, rule_nurikabe),
          ("nurikabe", (3, 2, [[-1, 0], [0, 0], [0, 3]]), {"unknown_low": 2}, rule_nurikabe),
          ("nurikabe", (1, 4, [[1, 0, 0, 1]]), {}, rule_nurikabe)]
    # norinori
    I += [("norinori", (2, 3, [[(0, 0), (0, 1), (1, 0)], [(0, 2), (1, 1), (1, 2)]]), {}, rule_norinori),
          ("norinori", (3, 3, [[(0, 0), (0, 1), (0, 2), (1, 0)], [(1, 1), (1, 2), (2, 0), (2, 1), (2, 2)]]), {}, rule_norinori),
          ("norinori", (1, 4, [[(0, 0), (0, 1)], [(0, 2), (0, 3)]]), {}, rule_norinori)]
    # yinyang
    I += [("yinyang", (2, 3, [[0, 0, 0], [0, 0, 0]]), {}, rule_yinyang),
          ("yinyang", (3, 3, [[1, 0, 0], [0, 0, 0], [0, 0, 2]]), {}, rule_yinyang),
          ("yinyang", (3, 2, [[0, 2], [0, 0], [1, 0]]), {}, rule_yinyang)]
    if deep:
        I += [("yinyang", (1, 4, [[0, 0, 0, 0]]), {}, rule_yinyang), ("yinyang", (3, 3, [[0] * 3] * 3), {}, rule_yinyang)]
    # creek
    I += [("creek", (2, 2, [[-1, -1, -1], [-1, 2, -1], [-1, -1, 0]]), {}, rule_creek),
          ("creek", (2, 3, [[0, -1, -1, 1], [-1, -1, 2, -1], [1, -1, -1, -1]]), {}, rule_creek),
          ("creek", (3, 2, [[-1, 1, -1], [-1, -1, -1], [2, -1, -1], [-1, -1, 1]]), {}, rule_creek)]
    # star battle
    I += [("star_battle", (4, [[0, 0, 1, 1], [0, 0, 1, 1], [2, 2, 3, 3], [2, 2, 3, 3]], 1), {}, rule_star_battle),
          ("star_battle", (4, [[0, 1, 1, 1], [0, 1, 2, 2], [0, 3, 3, 2], [0, 3, 3, 2]], 1), {}, rule_star_battle)]
    # slitherlink
    I += [("slitherlink", (2, 2, [[-1, -1], [-1, -1]]), {}, rule_slitherlink),
          ("slitherlink", (2, 2, [[3, -1], [-1, 0]]), {}, rule_slitherlink),
          ("slitherlink", (1, 3, [[2, -1, 3]]), {}, rule_slitherlink)]
    if deep:
        I += [("slitherlink", (2, 3, [[-1, 2, -1], [1, -1, 3]]), {}, rule_slitherlink), ("slitherlink", (3, 2, [[0, -1], [-1, 2], [3, -1]]), {}, rule_slitherlink)]
    # masyu (cells are lattice points)
    I += [("masyu", (3, 3, [[0, 0, 0], [0, 0, 0], [0, 0, 0]]), {}, rule_masyu),
          ("masyu", (3, 3, [[2, 0, 0], [0, 0, 0], [0, 1, 0]]), {}, rule_masyu),
          ("masyu", (3, 3, [[0, 1, 0], [0, 0, 0], [0, 0, 0]]), {}, rule_masyu)]
    if deep:
        I += [("masyu", (3, 4, [[2, 0, 0, 0], [0, 0, 0, 1], [0, 0, 0, 0]]), {}, rule_masyu), ("masyu", (4, 3, [[0, 0, 2], [1, 0, 0], [0, 0, 0], [0, 0, 0]]), {}, rule_masyu)]
    # gokigen
    I += [("gokigen", (2, 2, [[-1, -1, -1], [-1, -1, -1], [-1, -1, -1]]), {}, rule_gokigen),
          ("gokigen", (2, 3, [[0, -1, -1, 1], [-1, 2, -1, -1], [-1, -1, -1, 0]]), {}, rule_gokigen),
          ("gokigen", (3, 2, [[-1, 1, -1], [-1, -1, 2], [1, -1, -1], [-1, -1, -1]]), {}, rule_gokigen)]
    # aquarium: L- and U-shaped tanks (the water level is one per tank)
    I += [("aquarium", (2, 3, [[(0, 0), (1, 0), (1, 1)], [(0, 1), (0, 2), (1, 2)]], [-1, -1], [-1, -1, -1]), {}, rule_aquarium),
          ("aquarium", (2, 3, [[(0, 0), (1, 0), (1, 1), (1, 2), (0, 2)], [(0, 1)]], [-1, -1], [-1, -1, -1]), {}, rule_aquarium),
          ("aquarium", (3, 2, [[(0, 0), (0, 1)], [(1, 0), (2, 0), (2, 1)], [(1, 1)]], [1, -1, 2], [-1, 2]), {}, rule_aquarium)]
    return I


# ------------------------------------------------------------------------------------------
# evaluation
# ------------------------------------------------------------------------------------------


class _Posted:
    """what encodings.Extender needs: the domains of all variables and the posted constraint trees"""

    def __init__(self, solver: Any):
        self._doms: Dict[int, List[Any]] = {}
        for v in solver.attrs["variables"]:
            if v.attrs.get("__class__") == "BoolVar":
                self._doms[v.attrs["id"]] = [False, True]
            else:
                self._doms[v.attrs["id"]] = list(range(v.attrs["lo"], v.attrs["hi"] + 1))
        self._cons = list(solver.attrs["constraints"])

    def domains(self) -> Dict[int, List[Any]]:
        return self._doms

    def constraints(self) -> List[Any]:
        return self._cons


def _job(args) -> Tuple[str, str, int]:
    root, overrides, idx, tier = args
    from .c11 import SolverWorld, variables_of  # late import: c11 imports this module's run hook

    repo = Repo(root, overrides)
    name, a, kw, rule = instances(tier)[idx]
    fn = f"solve_{name}"
    label = f"{fn}{_brief(a)}{' ' + str(kw) if kw else ''}"
    try:
        # graph constraints are posted as the native operators (their documented meaning is evaluated directly); that the
        # rank encodings used otherwise mean the same is what C04-C07 decide, that only the flag chooses is C20's CFG-4
        w = SolverWorld(repo, name, primitives=True)
        w.cw.ev.strict_index = False
        res = w.cw.call(fn, *a, **kw)
        if not isinstance(res, tuple) or len(res) != 2 or len(w.solvers) != 1:
            return "undecided", f"{label}: unexpected result shape", 0
        vs = variables_of(w, res[1])
        if vs is None:
            return "undecided", f"{label}: the answer is not made of variables", 0
        ids = [v.attrs["id"] for v in vs]
        ok = rule(*a, **kw)
        ext = Extender(_Posted(w.solvers[0]), 100.0 if tier != "quick" else 40.0)
        n = 0
        for pat in itertools.product([False, True], repeat=len(ids)):
            n += 1
            got = ext.sat(dict(zip(ids, pat)))
            want = ok(pat)
            if got != want:
                return "bad", (f"{label}: the posted constraints {'admit' if got else 'reject'} the answer {_show(pat)} "
                               f"which the published rules {'reject' if got else 'admit'}"), n
        return "ok", label, n
    except TimeoutError:
        return "undecided", f"{label}: enumeration budget exceeded", 0
    except Undecided as ex:
        return "undecided", f"{label}: {ex}", 0
    except (Raised, IndexOutOfRange) as ex:
        return "bad", f"{label}: raises {ex}", 0


def _brief(a: Any) -> str:
    s = repr(a).replace(" ", "")
    return s if len(s) < 150 else s[:147] + "..."


def _show(pat: Sequence[bool]) -> str:
    return "".join("#" if b else "." for b in pat)


def run(repo: Repo, rep: Report) -> None:
    rep.rule("PZ-X", "for the puzzles with compact published rules: on every tiny instance the answers the posted constraints admit "
                     "are exactly the grids that obey the rules (brute force over all answers; rules transcribed in pzx.py)")
    insts = instances(rep.tier)
    jobs = [(repo.root, repo.overrides, i, rep.tier) for i in range(len(insts))]
    with ProcessPoolExecutor(max_workers=16) as ex:
        results = list(ex.map(_job, jobs))
    per: Dict[str, List[Tuple[str, str, int]]] = {}
    for (name, _a, _k, _r), r in zip(insts, results):
        per.setdefault(name, []).append(r)
    for name, rs in per.items():
        file, fn = f"cspuz/puzzle/{name}.py", f"solve_{name}"
        rep.saw(file, fn)
        bad = [r for r in rs if r[0] == "bad"]
        und = [r for r in rs if r[0] == "undecided"]
        if bad:
            rep.finding("PZ-X", file, fn, f"{fn} rules", bad[0][1])
        elif und:
            rep.undecide("PZ-X", und[0][1])
        else:
            rep.ok("PZ-X", f"{fn}: admitted answers == rule-obeying grids on {len(rs)} instances ({sum(r[2] for r in rs)} answers decided)",
                   points=sum(r[2] for r in rs))
    rep.floor("PZ-X", 8)
    rep.assume("PZ-X covers " + ", ".join(sorted(per)) + " on boards of at most 12 answer variables; the other bundled solvers' rules "
               "(and all larger boards) are compared with nothing")
