"""PZ-X: the constraints a bundled solver posts, projected on its answer variables, against the puzzle's published rules.

For the puzzles whose rules fit in a few lines, `solve_<puzzle>` is evaluated abstractly (as in C11's other rules: the
source is interpreted, `Solver.solve` is a token) on tiny boards; the posted constraint trees are then *decided* for
every assignment of the answer variables (three-valued backtracking over the auxiliary variables, encodings.Extender)
and the set of extendable assignments must equal the set of grids that obey the rules as written down here, each rule a
direct transcription of the published rule text (brute force over all grids; nothing of the repository is consulted).

Together with C02 (solve() reports exactly the common facts of the solution set) equality of the two sets on an
instance gives C11's statement for that instance.  What is decided is therefore: the listed puzzles, on the listed tiny
instances.  Every other puzzle and every larger board is outside this rule (stated in the evidence).
"""

from __future__ import annotations

import itertools
import time
from concurrent.futures import ProcessPoolExecutor
from typing import Any, Callable, Dict, List, Optional, Sequence, Set, Tuple

from ..core.fde import IndexOutOfRange, Raised, Undecided
from ..core.findings import Report
from ..core.loader import Repo
from .encodings import Extender

Cell = Tuple[int, int]


# ------------------------------------------------------------------------------------------
# small geometry helpers for the rule oracles
# ------------------------------------------------------------------------------------------


def cells(h: int, w: int) -> List[Cell]:
    return [(y, x) for y in range(h) for x in range(w)]


def nb4(h: int, w: int, c: Cell) -> List[Cell]:
    y, x = c
    return [(yy, xx) for yy, xx in ((y - 1, x), (y + 1, x), (y, x - 1), (y, x + 1)) if 0 <= yy < h and 0 <= xx < w]


def connected(h: int, w: int, on: Set[Cell]) -> bool:
    """orthogonally connected; the empty set counts as connected (the library's documented convention)"""
    if not on:
        return True
    start = next(iter(on))
    seen = {start}
    st = [start]
    while st:
        c = st.pop()
        for d in nb4(h, w, c):
            if d in on and d not in seen:
                seen.add(d)
                st.append(d)
    return len(seen) == len(on)


def components(h: int, w: int, on: Set[Cell]) -> List[Set[Cell]]:
    out = []
    left = set(on)
    while left:
        start = left.pop()
        comp = {start}
        st = [start]
        while st:
            c = st.pop()
            for d in nb4(h, w, c):
                if d in left:
                    left.discard(d)
                    comp.add(d)
                    st.append(d)
        out.append(comp)
    return out


def grid_of(h: int, w: int, pat: Sequence[bool]) -> Dict[Cell, bool]:
    return {(y, x): pat[y * w + x] for y in range(h) for x in range(w)}


def frame_edges(H: int, W: int) -> List[Tuple[Cell, Cell]]:
    """edges of the lattice with (H+1) x (W+1) points in the order BoolGridFrame lists them: horizontal (H+1 rows of W),
    then vertical (H rows of W+1)"""
    out = []
    for y in range(H + 1):
        for x in range(W):
            out.append(((y, x), (y, x + 1)))
    for y in range(H):
        for x in range(W + 1):
            out.append(((y, x), (y + 1, x)))
    return out


def single_loop_or_empty(edges: List[Tuple[Cell, Cell]], pat: Sequence[bool]) -> bool:
    on = [e for e, b in zip(edges, pat) if b]
    if not on:
        return True
    deg: Dict[Cell, int] = {}
    adj: Dict[Cell, List[Cell]] = {}
    for a, b in on:
        deg[a] = deg.get(a, 0) + 1
        deg[b] = deg.get(b, 0) + 1
        adj.setdefault(a, []).append(b)
        adj.setdefault(b, []).append(a)
    if any(d != 2 for d in deg.values()):
        return False
    start = on[0][0]
    seen = {start}
    st = [start]
    while st:
        c = st.pop()
        for d in adj[c]:
            if d not in seen:
                seen.add(d)
                st.append(d)
    return len(seen) == len(deg)


# ------------------------------------------------------------------------------------------
# rule oracles: (instance arguments) -> predicate over the answer pattern (in the order the solver returns it)
# ------------------------------------------------------------------------------------------


def rule_heyawake(h: int, w: int, rooms: List[List[Cell]], clues: List[int]) -> Callable[[Sequence[bool]], bool]:
    room_of = {c: i for i, r in enumerate(rooms) for c in r}

    def ok(pat: Sequence[bool]) -> bool:
        black = grid_of(h, w, pat)
        for c in cells(h, w):
            if black[c] and any(black[d] for d in nb4(h, w, c)):
                return False
        if not connected(h, w, {c for c in cells(h, w) if not black[c]}):
            return False
        for i, r in enumerate(rooms):
            if clues[i] >= 0 and sum(black[c] for c in r) != clues[i]:
                return False
        # a straight run of white cells may not cross two room borders
        lines = [[(y, x) for x in range(w)] for y in range(h)] + [[(y, x) for y in range(h)] for x in range(w)]
        for line in lines:
            crossed = 0
            for a, b in zip(line, line[1:]):
                if black[a] or black[b]:
                    crossed = 0
                    continue
                if room_of[a] != room_of[b]:
                    crossed += 1
                    if crossed >= 2:
                        return False
        return True

    return ok


def rule_akari(h: int, w: int, problem: List[List[int]]) -> Callable[[Sequence[bool]], bool]:
    white = {c for c in cells(h, w) if problem[c[0]][c[1]] < -1}

    def sight(c: Cell) -> List[Cell]:
        out = []
        for dy, dx in ((-1, 0), (1, 0), (0, -1), (0, 1)):
            y, x = c[0] + dy, c[1] + dx
            while 0 <= y < h and 0 <= x < w and (y, x) in white:
                out.append((y, x))
                y, x = y + dy, x + dx
        return out

    def ok(pat: Sequence[bool]) -> bool:
        light = grid_of(h, w, pat)
        for c in cells(h, w):
            if c not in white:
                if light[c]:
                    return False
                n = problem[c[0]][c[1]]
                if n >= 0 and sum(light[d] for d in nb4(h, w, c) if d in white) != n:
                    return False
            else:
                seen = [d for d in sight(c) if light[d]]
                if light[c] and seen:
                    return False
                if not light[c] and not seen:
                    return False
        return True

    return ok


def rule_nurikabe(h: int, w: int, problem: List[List[int]], unknown_low: Optional[int] = None) -> Callable[[Sequence[bool]], bool]:
    clue = {c: problem[c[0]][c[1]] for c in cells(h, w) if problem[c[0]][c[1]] >= 1 or problem[c[0]][c[1]] == -1}

    def ok(pat: Sequence[bool]) -> bool:
        white = grid_of(h, w, pat)
        ws = {c for c in cells(h, w) if white[c]}
        if any(c not in ws for c in clue):
            return False
        for comp in components(h, w, ws):
            cl = [c for c in comp if c in clue]
            if len(cl) != 1:
                return False
            n = clue[cl[0]]
            if n > 0 and len(comp) != n:
                return False
            if n == -1 and unknown_low is not None and len(comp) < unknown_low:
                return False
        if not connected(h, w, {c for c in cells(h, w) if not white[c]}):
            return False
        for y in range(h - 1):
            for x in range(w - 1):
                if not (white[(y, x)] or white[(y + 1, x)] or white[(y, x + 1)] or white[(y + 1, x + 1)]):
                    return False
        return True

    return ok


def rule_norinori(h: int, w: int, blocks: List[List[Cell]]) -> Callable[[Sequence[bool]], bool]:
    def ok(pat: Sequence[bool]) -> bool:
        black = grid_of(h, w, pat)
        for c in cells(h, w):
            if black[c] and sum(black[d] for d in nb4(h, w, c)) != 1:
                return False
        return all(sum(black[c] for c in b) == 2 for b in blocks)

    return ok


def rule_yinyang(h: int, w: int, problem: List[List[int]]) -> Callable[[Sequence[bool]], bool]:
    def ok(pat: Sequence[bool]) -> bool:
        black = grid_of(h, w, pat)
        for c in cells(h, w):
            v = problem[c[0]][c[1]]
            if (v == 1 and black[c]) or (v == 2 and not black[c]):
                return False
        for colour in (True, False):
            if not connected(h, w, {c for c in cells(h, w) if black[c] is colour}):
                return False
        for y in range(h - 1):
            for x in range(w - 1):
                q = [black[(y, x)], black[(y + 1, x)], black[(y, x + 1)], black[(y + 1, x + 1)]]
                if all(q) or not any(q):
                    return False
        return True

    return ok


def rule_creek(h: int, w: int, problem: List[List[int]]) -> Callable[[Sequence[bool]], bool]:
    def ok(pat: Sequence[bool]) -> bool:
        white = grid_of(h, w, pat)
        if not connected(h, w, {c for c in cells(h, w) if white[c]}):
            return False
        for y in range(h + 1):
            for x in range(w + 1):
                n = problem[y][x]
                if n >= 0:
                    around = [(yy, xx) for yy in (y - 1, y) for xx in (x - 1, x) if 0 <= yy < h and 0 <= xx < w]
                    if sum(not white[c] for c in around) != n:
                        return False
        return True

    return ok


def rule_star_battle(n: int, blocks: List[List[int]], k: int) -> Callable[[Sequence[bool]], bool]:
    def ok(pat: Sequence[bool]) -> bool:
        star = grid_of(n, n, pat)
        for i in range(n):
            if sum(star[(i, x)] for x in range(n)) != k or sum(star[(y, i)] for y in range(n)) != k:
                return False
            if sum(star[c] for c in cells(n, n) if blocks[c[0]][c[1]] == i) != k:
                return False
        for (y, x) in cells(n, n):
            if star[(y, x)]:
                for dy in (-1, 0, 1):
                    for dx in (-1, 0, 1):
                        if (dy or dx) and star.get((y + dy, x + dx), False):
                            return False
        return True

    return ok


def rule_slitherlink(h: int, w: int, problem: List[List[int]]) -> Callable[[Sequence[bool]], bool]:
    edges = frame_edges(h, w)

    def ok(pat: Sequence[bool]) -> bool:
        if not single_loop_or_empty(edges, pat):
            return False
        on = {e for e, b in zip(edges, pat) if b}
        for y in range(h):
            for x in range(w):
                n = problem[y][x]
                if n >= 0:
                    around = [((y, x), (y, x + 1)), ((y + 1, x), (y + 1, x + 1)), ((y, x), (y + 1, x)), ((y, x + 1), (y + 1, x + 1))]
                    if sum(e in on for e in around) != n:
                        return False
        return True

    ok.arity = len(edges)  # type: ignore[attr-defined]
    return ok


def rule_masyu(h: int, w: int, problem: List[List[int]]) -> Callable[[Sequence[bool]], bool]:
    """cells are the lattice points; 1 = white circle, 2 = black circle"""
    edges = frame_edges(h - 1, w - 1)

    def ok(pat: Sequence[bool]) -> bool:
        if not single_loop_or_empty(edges, pat):
            return False
        on = {e for e, b in zip(edges, pat) if b}

        def has(a: Cell, b: Cell) -> bool:
            return (a, b) in on or (b, a) in on

        def arms(c: Cell) -> List[Cell]:
            return [d for d in nb4(h, w, c) if has(c, d)]

        for c in cells(h, w):
            v = problem[c[0]][c[1]]
            if v not in (1, 2):
                continue
            a = arms(c)
            if len(a) != 2:
                return False
            straight = (a[0][0] == a[1][0]) or (a[0][1] == a[1][1])
            if v == 1:
                if not straight:
                    return False
                # the loop must turn in the previous and/or the next cell
                turns = 0
                for d in a:
                    da = arms(d)
                    if not (len(da) == 2 and ((da[0][0] == da[1][0]) or (da[0][1] == da[1][1]))):
                        turns += 1
                if turns == 0:
                    return False
            else:
                if straight:
                    return False
                # the loop must go straight through the cells before and after
                for d in a:
                    da = arms(d)
                    if not (len(da) == 2 and ((da[0][0] == da[1][0]) or (da[0][1] == da[1][1]))):
                        return False
        return True

    ok.arity = len(edges)  # type: ignore[attr-defined]
    return ok


def rule_gokigen(h: int, w: int, problem: List[List[int]]) -> Callable[[Sequence[bool]], bool]:
    """answer: per cell True = backslash (top-left to bottom-right), False = slash"""

    def ok(pat: Sequence[bool]) -> bool:
        back = grid_of(h, w, pat)
        parent: Dict[Cell, Cell] = {}

        def find(a: Cell) -> Cell:
            while parent.setdefault(a, a) != a:
                parent[a] = parent[parent[a]]
                a = parent[a]
            return a

        touch: Dict[Cell, int] = {}
        for (y, x) in cells(h, w):
            a, b = ((y, x), (y + 1, x + 1)) if back[(y, x)] else ((y, x + 1), (y + 1, x))
            touch[a] = touch.get(a, 0) + 1
            touch[b] = touch.get(b, 0) + 1
            ra, rb = find(a), find(b)
            if ra == rb:
                return False
            parent[ra] = rb
        for y in range(h + 1):
            for x in range(w + 1):
                if problem[y][x] >= 0 and touch.get((y, x), 0) != problem[y][x]:
                    return False
        return True

    return ok


def rule_aquarium(h: int, w: int, blocks: List[List[Cell]], clue_row: List[int], clue_col: List[int]) -> Callable[[Sequence[bool]], bool]:
    def ok(pat: Sequence[bool]) -> bool:
        water = grid_of(h, w, pat)
        for y in range(h):
            if clue_row[y] >= 0 and sum(water[(y, x)] for x in range(w)) != clue_row[y]:
                return False
        for x in range(w):
            if clue_col[x] >= 0 and sum(water[(y, x)] for y in range(h)) != clue_col[x]:
                return False
        # one water level per aquarium: a filled cell means every cell of the same aquarium at the same height or lower is filled
        for b in blocks:
            filled_rows = [y for (y, x) in b if water[(y, x)]]
            if filled_rows:
                top = min(filled_rows)
                if any(not water[(y, x)] for (y, x) in b if y >= top):
                    return False
        return True

    return ok


def rule_yajilin(h: int, w: int, problem: List[List[str]]) -> Callable[[Sequence[bool]], bool]:
    """answer = loop edges between cell centres (frame (h-1) x (w-1)), then the black-cell grid"""
    edges = frame_edges(h - 1, w - 1)
    m = len(edges)

    def ok(pat: Sequence[bool]) -> bool:
        loop, black = pat[:m], grid_of(h, w, pat[m:])
        if not single_loop_or_empty(edges, loop):
            return False
        on_loop = {c for e, b in zip(edges, loop) if b for c in e}
        for c in cells(h, w):
            clue = problem[c[0]][c[1]]
            if black[c] and any(black[d] for d in nb4(h, w, c)):
                return False
            if clue != "..":
                if black[c] or c in on_loop:
                    return False
                if clue == "??":
                    continue
                d, k = clue[0], int(clue[1:])
                y, x = c
                seen = {"^": [(yy, x) for yy in range(0, y)], "v": [(yy, x) for yy in range(y + 1, h)],
                        "<": [(y, xx) for xx in range(0, x)], ">": [(y, xx) for xx in range(x + 1, w)]}.get(d)
                if seen is not None and sum(black[q] for q in seen) != k:
                    return False
            elif black[c] == (c in on_loop):
                return False  # every other cell is either black or on the loop, not both
        return True

    ok.arity = len(edges) + h * w  # type: ignore[attr-defined]
    return ok


def rule_putteria(h: int, w: int, blocks: List[List[Cell]]) -> Callable[[Sequence[bool]], bool]:
    size = {c: len(b) for b in blocks for c in b}

    def ok(pat: Sequence[bool]) -> bool:
        num = grid_of(h, w, pat)
        if any(sum(num[c] for c in b) != 1 for b in blocks):
            return False
        on = [c for c in cells(h, w) if num[c]]
        for i, a in enumerate(on):
            for b in on[i + 1:]:
                if abs(a[0] - b[0]) + abs(a[1] - b[1]) == 1:
                    return False
                if (a[0] == b[0] or a[1] == b[1]) and size[a] == size[b]:
                    return False
        return True

    return ok


def rule_fillomino(h: int, w: int, problem: List[List[int]], checkered: bool = False) -> Callable[[Sequence[int]], bool]:
    def ok(pat: Sequence[int]) -> bool:
        val = {(y, x): pat[y * w + x] for y in range(h) for x in range(w)}
        for c in cells(h, w):
            if problem[c[0]][c[1]] >= 1 and val[c] != problem[c[0]][c[1]]:
                return False
        comp_of: Dict[Cell, int] = {}
        comps: List[Set[Cell]] = []
        for v in set(val.values()):
            for comp in components(h, w, {c for c in cells(h, w) if val[c] == v}):
                if len(comp) != v:
                    return False
                for c in comp:
                    comp_of[c] = len(comps)
                comps.append(comp)
        if checkered:
            # the blocks can be coloured with two colours so that blocks sharing an edge differ
            adj: Dict[int, Set[int]] = {i: set() for i in range(len(comps))}
            for c in cells(h, w):
                for d in nb4(h, w, c):
                    if comp_of[c] != comp_of[d]:
                        adj[comp_of[c]].add(comp_of[d])
            colour: Dict[int, int] = {}
            for s0 in adj:
                if s0 in colour:
                    continue
                colour[s0] = 0
                st = [s0]
                while st:
                    u = st.pop()
                    for v2 in adj[u]:
                        if v2 not in colour:
                            colour[v2] = 1 - colour[u]
                            st.append(v2)
                        elif colour[v2] == colour[u]:
                            return False
        return True

    # the values an answer cell can take by the rules: a solver whose variable cannot take one of them rejects every grid using it
    ok.domains = [list(range(1, h * w + 1))] * (h * w)  # type: ignore[attr-defined]
    return ok


def _tetromino_kind(cs: Set[Cell]) -> Optional[str]:
    """L, I, T, S (mirror images and rotations identified) or O; None if the four cells are not one tetromino"""
    if len(cs) != 4 or len(components(10 ** 6, 10 ** 6, set(cs))) != 1:
        return None
    ys, xs = sorted({y for y, _ in cs}), sorted({x for _, x in cs})
    hh, ww = ys[-1] - ys[0] + 1, xs[-1] - xs[0] + 1
    if {hh, ww} == {1, 4}:
        return "I"
    if hh == ww == 2:
        return "O"
    # 2x3 bounding box: by the number of neighbours of the best connected cell and the row profile
    deg = sorted(sum(1 for d in ((y - 1, x), (y + 1, x), (y, x - 1), (y, x + 1)) if d in cs) for (y, x) in cs)
    if deg == [1, 1, 1, 3]:
        return "T"
    if deg == [1, 1, 2, 2]:
        # L has three cells in one line, S has not
        lines = [sum(1 for (y, x) in cs if y == yy) for yy in ys] + [sum(1 for (y, x) in cs if x == xx) for xx in xs]
        return "L" if 3 in lines else "S"
    return None


def rule_lits(h: int, w: int, blocks: List[List[Cell]]) -> Callable[[Sequence[bool]], bool]:
    block_of = {c: i for i, b in enumerate(blocks) for c in b}

    def ok(pat: Sequence[bool]) -> bool:
        black = grid_of(h, w, pat)
        kinds = []
        for b in blocks:
            k = _tetromino_kind({c for c in b if black[c]})
            if k is None or k == "O":
                return False
            kinds.append(k)
        for y in range(h - 1):
            for x in range(w - 1):
                if black[(y, x)] and black[(y + 1, x)] and black[(y, x + 1)] and black[(y + 1, x + 1)]:
                    return False
        if not connected(h, w, {c for c in cells(h, w) if black[c]}):
            return False
        for c in cells(h, w):
            for d in nb4(h, w, c):
                if black[c] and black[d] and block_of[c] != block_of[d] and kinds[block_of[c]] == kinds[block_of[d]]:
                    return False
        return True

    return ok


def rule_building(n: int, up: List[int], dw: List[int], lf: List[int], rg: List[int]) -> Callable[[Sequence[int]], bool]:
    def visible(line: List[int]) -> int:
        best, cnt = 0, 0
        for v in line:
            if v > best:
                best, cnt = v, cnt + 1
        return cnt

    def ok(pat: Sequence[int]) -> bool:
        g = [[pat[y * n + x] for x in range(n)] for y in range(n)]
        for i in range(n):
            if sorted(g[i]) != list(range(1, n + 1)) or sorted(g[y][i] for y in range(n)) != list(range(1, n + 1)):
                return False
            col = [g[y][i] for y in range(n)]
            if up[i] >= 1 and visible(col) != up[i]:
                return False
            if dw[i] >= 1 and visible(col[::-1]) != dw[i]:
                return False
            if lf[i] >= 1 and visible(g[i]) != lf[i]:
                return False
            if rg[i] >= 1 and visible(g[i][::-1]) != rg[i]:
                return False
        return True

    # the values an answer cell can take by the rules: a solver whose variable cannot take one of them rejects every grid using it
    ok.domains = [list(range(1, n + 1))] * (n * n)  # type: ignore[attr-defined]
    return ok


def rule_doppelblock(n: int, clue_row: List[int], clue_column: List[int]) -> Callable[[Sequence[int]], bool]:
    """answer: 0 = black cell, k >= 1 = the number k"""

    def line_ok(line: List[int], clue: int) -> bool:
        if sorted(line) != [0, 0] + list(range(1, n - 1)):
            return False
        a, b = [i for i, v in enumerate(line) if v == 0]
        return clue < 0 or sum(line[a + 1:b]) == clue

    def ok(pat: Sequence[int]) -> bool:
        g = [[pat[y * n + x] for x in range(n)] for y in range(n)]
        return all(line_ok(g[i], clue_row[i]) and line_ok([g[y][i] for y in range(n)], clue_column[i]) for i in range(n))

    # the values an answer cell can take by the rules: a solver whose variable cannot take one of them rejects every grid using it
    ok.domains = [list(range(0, n - 1))] * (n * n)  # type: ignore[attr-defined]
    return ok


def rule_compass(h: int, w: int, problem: List[Tuple[int, int, int, int, int, int]]) -> Callable[[Sequence[int]], bool]:
    """clue = (y, x, up, left, down, right); answer = region index per cell"""

    def ok(pat: Sequence[int]) -> bool:
        reg = {(y, x): pat[y * w + x] for y in range(h) for x in range(w)}
        for i, (cy, cx, up, lf, dw, rg) in enumerate(problem):
            mine = {c for c in cells(h, w) if reg[c] == i}
            if (cy, cx) not in mine or not connected(h, w, mine):
                return False
            if up >= 0 and sum(1 for (y, x) in mine if y < cy) != up:
                return False
            if dw >= 0 and sum(1 for (y, x) in mine if y > cy) != dw:
                return False
            if lf >= 0 and sum(1 for (y, x) in mine if x < cx) != lf:
                return False
            if rg >= 0 and sum(1 for (y, x) in mine if x > cx) != rg:
                return False
        return True

    # the values an answer cell can take by the rules: a solver whose variable cannot take one of them rejects every grid using it
    ok.domains = [list(range(len(problem)))] * (h * w)  # type: ignore[attr-defined]
    return ok


def rule_geradeweg(h: int, w: int, problem: List[List[int]]) -> Callable[[Sequence[bool]], bool]:
    edges = frame_edges(h - 1, w - 1)

    def ok(pat: Sequence[bool]) -> bool:
        if not single_loop_or_empty(edges, pat):
            return False
        on = {e for e, b in zip(edges, pat) if b}

        def has(a: Cell, b: Cell) -> bool:
            return (a, b) in on or (b, a) in on

        def run(c: Cell, dy: int, dx: int) -> int:
            k = 0
            y, x = c
            while 0 <= y + dy < h and 0 <= x + dx < w and has((y, x), (y + dy, x + dx)):
                y, x, k = y + dy, x + dx, k + 1
            return k

        for c in cells(h, w):
            n = problem[c[0]][c[1]]
            if n >= 1:
                hz, vt = run(c, 0, -1) + run(c, 0, 1), run(c, -1, 0) + run(c, 1, 0)
                if hz == 0 and vt == 0:
                    return False  # the loop passes through every numbered cell
                if hz and hz != n:
                    return False
                if vt and vt != n:
                    return False
        return True

    ok.arity = len(edges)  # type: ignore[attr-defined]
    return ok


def rule_view(h: int, w: int, problem: List[List[int]]) -> Callable[[Sequence[Any]], bool]:
    """answer = the number grid (0 where there is none), then the has-number grid"""

    def ok(pat: Sequence[Any]) -> bool:
        num = {(y, x): pat[y * w + x] for y in range(h) for x in range(w)}
        has = {(y, x): pat[h * w + y * w + x] for y in range(h) for x in range(w)}
        if not connected(h, w, {c for c in cells(h, w) if has[c]}):
            return False
        for c in cells(h, w):
            clue = problem[c[0]][c[1]]
            if clue >= 0 and (not has[c] or num[c] != clue):
                return False
            if not has[c]:
                if num[c] != 0:
                    return False
                continue
            seen = 0
            for dy, dx in ((-1, 0), (1, 0), (0, -1), (0, 1)):
                y, x = c[0] + dy, c[1] + dx
                while 0 <= y < h and 0 <= x < w and not has[(y, x)]:
                    seen += 1
                    y, x = y + dy, x + dx
            if num[c] != seen:
                return False
            for d in nb4(h, w, c):
                if has[d] and num[d] == num[c]:
                    return False
        return True

    # a number is at most the number of other cells in its row and column
    ok.domains = [list(range(0, h + w - 1))] * (h * w) + [[False, True]] * (h * w)  # type: ignore[attr-defined]
    return ok


def rule_fivecells(h: int, w: int, problem: List[List[int]]) -> Callable[[Sequence[bool]], bool]:
    """cells with a value below -1 are holes; answer = one border flag per pair of adjacent board cells, vertical neighbour
    first then horizontal neighbour, scanning the cells row by row (the order the solver builds its graph in)"""
    board = [c for c in cells(h, w) if problem[c[0]][c[1]] >= -1]
    pairs: List[Tuple[Cell, Cell]] = []
    for (y, x) in cells(h, w):
        if (y, x) in board:
            if (y + 1, x) in board:
                pairs.append(((y, x), (y + 1, x)))
            if (y, x + 1) in board:
                pairs.append(((y, x), (y, x + 1)))

    def ok(pat: Sequence[bool]) -> bool:
        border = dict(zip(pairs, pat))
        # regions = components of the board under "no border between"
        parent = {c: c for c in board}

        def find(a: Cell) -> Cell:
            while parent[a] != a:
                parent[a] = parent[parent[a]]
                a = parent[a]
            return a

        for (a, b), br in border.items():
            if not br:
                parent[find(a)] = find(b)
        groups: Dict[Cell, List[Cell]] = {}
        for c in board:
            groups.setdefault(find(c), []).append(c)
        if any(len(g) != 5 for g in groups.values()):
            return False
        # a border flag must be set exactly between different regions
        for (a, b), br in border.items():
            if br != (find(a) != find(b)):
                return False
        for c in board:
            n = problem[c[0]][c[1]]
            if n >= 0:
                cnt = 0
                for d in ((c[0] - 1, c[1]), (c[0] + 1, c[1]), (c[0], c[1] - 1), (c[0], c[1] + 1)):
                    if d not in board or find(d) != find(c):
                        cnt += 1
                if cnt != n:
                    return False
        return True

    ok.arity = len(pairs)  # type: ignore[attr-defined]
    return ok


def rule_nurimisaki(h: int, w: int, problem: List[List[int]]) -> Callable[[Sequence[bool]], bool]:
    """-1 = plain cell, 0 = circle without a number, n >= 2 = circle with a number"""

    def ok(pat: Sequence[bool]) -> bool:
        white = grid_of(h, w, pat)
        if not connected(h, w, {c for c in cells(h, w) if white[c]}):
            return False
        for y in range(h - 1):
            for x in range(w - 1):
                q = [white[(y, x)], white[(y + 1, x)], white[(y, x + 1)], white[(y + 1, x + 1)]]
                if all(q) or not any(q):
                    return False
        for c in cells(h, w):
            n = problem[c[0]][c[1]]
            wn = [d for d in nb4(h, w, c) if white[d]]
            if n == -1:
                if white[c] and len(wn) == 1:
                    return False  # a dead end without a circle
                continue
            if not white[c] or len(wn) != 1:
                return False
            if n >= 2:
                dy, dx = wn[0][0] - c[0], wn[0][1] - c[1]
                run, (y, x) = 1, wn[0]
                while 0 <= y < h and 0 <= x < w and white[(y, x)]:
                    run += 1
                    y, x = y + dy, x + dx
                if run != n:
                    return False
        return True

    return ok


def rule_castle_wall(h: int, w: int, arrow: List[List[str]], inside: List[List[Optional[bool]]]) -> Callable[[Sequence[bool]], bool]:
    """cells are lattice points; a clue cell is off the loop; its arrow counts the loop segments from the cell to the board edge in
    that direction; inside[y][x] True / False places the clue cell inside / outside the loop"""
    edges = frame_edges(h - 1, w - 1)

    def ok(pat: Sequence[bool]) -> bool:
        if not single_loop_or_empty(edges, pat):
            return False
        on = {e for e, b in zip(edges, pat) if b}
        used = {c for e in on for c in e}

        def has(a: Cell, b: Cell) -> bool:
            return (a, b) in on or (b, a) in on

        # faces (unit squares between four points): flood fill from outside across edges that are not on the loop
        faces = {(y, x) for y in range(h - 1) for x in range(w - 1)}
        outside: Set[Cell] = set()
        st: List[Cell] = []
        for (y, x) in faces:
            border_open = ((y == 0 and not has((0, x), (0, x + 1))) or (y == h - 2 and not has((h - 1, x), (h - 1, x + 1)))
                           or (x == 0 and not has((y, 0), (y + 1, 0))) or (x == w - 2 and not has((y, w - 1), (y + 1, w - 1))))
            if border_open:
                outside.add((y, x))
                st.append((y, x))
        while st:
            y, x = st.pop()
            for (ny, nx), a, b in (((y - 1, x), (y, x), (y, x + 1)), ((y + 1, x), (y + 1, x), (y + 1, x + 1)),
                                   ((y, x - 1), (y, x), (y + 1, x)), ((y, x + 1), (y, x + 1), (y + 1, x + 1))):
                if (ny, nx) in faces and (ny, nx) not in outside and not has(a, b):
                    outside.add((ny, nx))
                    st.append((ny, nx))
        for c in cells(h, w):
            a_ = arrow[c[0]][c[1]]
            if a_ != "..":
                if c in used:
                    return False
                d = a_[0]
                y, x = c
                line = {"^": [((yy, x), (yy + 1, x)) for yy in range(0, y)], "v": [((yy, x), (yy + 1, x)) for yy in range(y, h - 1)],
                        "<": [((y, xx), (y, xx + 1)) for xx in range(0, x)], ">": [((y, xx), (y, xx + 1)) for xx in range(x, w - 1)]}.get(d)
                if line is not None and sum(1 for e in line if has(*e)) != int(a_[1:]):
                    return False
            io = inside[c[0]][c[1]]
            if io is not None:
                around = [(yy, xx) for yy in (c[0] - 1, c[0]) for xx in (c[1] - 1, c[1]) if (yy, xx) in faces]
                if c in used or not around:
                    return False if io is not None and c in used else (io is False)
                ins = [f not in outside for f in around]
                if any(v != ins[0] for v in ins):
                    return False
                if ins[0] != io:
                    return False
        return True

    ok.arity = len(edges)  # type: ignore[attr-defined]
    return ok


# quarter triangles of a cell: N, E, S, W (apex at the cell centre); a triangle of type k blackens two of them
def rule_firefly(h: int, w: int, problem: List[List[str]]) -> Callable[[Sequence[bool]], bool]:
    """answer = line segments between cell centres.  A firefly cell is '<dir><turns or ?>' ('..' = empty): one line leaves every firefly on
    the side of its dot and runs, without branching or crossing, to the body of a firefly (never into a dot); every segment belongs to one
    such line; a numbered firefly's line bends exactly that many times; all fireflies hang together through their lines"""
    edges = frame_edges(h - 1, w - 1)
    step = {"^": (-1, 0), "v": (1, 0), "<": (0, -1), ">": (0, 1)}
    flies = {(y, x): problem[y][x] for y in range(h) for x in range(w) if problem[y][x][0] != "."}

    def ok(pat: Sequence[bool]) -> bool:
        adj: Dict[Cell, List[Cell]] = {}
        for (a, b), on in zip(edges, pat):
            if on:
                adj.setdefault(a, []).append(b)
                adj.setdefault(b, []).append(a)
        for c, nb in adj.items():
            if c not in flies and len(nb) != 2:
                return False
        used = set()
        link: Dict[Cell, Cell] = {}
        for c, clue in flies.items():
            d = step[clue[0]]
            nxt = (c[0] + d[0], c[1] + d[1])
            if nxt not in adj.get(c, []):
                return False
            prev, cur, turns, heading = c, nxt, 0, d
            used.add(frozenset((prev, cur)))
            while cur not in flies:
                out = [q for q in adj[cur] if q != prev]
                if len(out) != 1:
                    return False
                nh = (out[0][0] - cur[0], out[0][1] - cur[1])
                if nh != heading:
                    turns += 1
                heading = nh
                prev, cur = cur, out[0]
                e = frozenset((prev, cur))
                if e in used:
                    return False
                used.add(e)
            # arrived at the firefly `cur` through the segment (prev, cur): not through its dot
            dd = step[flies[cur][0]]
            if (cur[0] + dd[0], cur[1] + dd[1]) == prev:
                return False
            if clue[1] != "?" and turns != int(clue[1:]):
                return False
            link[c] = cur
        if len(used) != sum(1 for on in pat if on):
            return False
        # every segment at a firefly is its own dot segment or the end of a line (covered by `used`); connectedness of the fireflies
        if flies:
            und: Dict[Cell, Set[Cell]] = {c: set() for c in flies}
            for a, b in link.items():
                und[a].add(b)
                und[b].add(a)
            start = next(iter(flies))
            seen = {start}
            st = [start]
            while st:
                c = st.pop()
                for q in und[c]:
                    if q not in seen:
                        seen.add(q)
                        st.append(q)
            if len(seen) != len(flies):
                return False
        return True

    ok.arity = len(edges)  # type: ignore[attr-defined]
    return ok


def rule_simpleloop(h: int, w: int, blocked: List[List[int]], pivot: Cell) -> Callable[[Sequence[bool]], bool]:
    """one loop through exactly the cells that are not blocked (no line at all when every cell is blocked).  The instance is
    well-formed when the pivot cell's entry agrees with the parity the solver derives for it (a loop on a grid visits an even number
    of cells) - only such instances are listed"""
    edges = frame_edges(h - 1, w - 1)
    free = {c for c in cells(h, w) if blocked[c[0]][c[1]] == 0}

    def ok(pat: Sequence[bool]) -> bool:
        if not single_loop_or_empty(edges, pat):
            return False
        return {c for e, b in zip(edges, pat) if b for c in e} == free

    ok.arity = len(edges)  # type: ignore[attr-defined]
    return ok


def rule_magnets(h: int, w: int, to_right: List[List[bool]], to_down: List[List[bool]], cond_row: List[List[int]],
                 cond_col: List[List[int]]) -> Callable[[Sequence[bool]], bool]:
    """answer = the '+' grid then the '-' grid.  Every domino is blank or carries one '+' and one '-'; equal poles never touch
    orthogonally; the row/column clues count the '+' and the '-' cells"""
    dominoes = [((y, x), (y, x + 1)) for y in range(h) for x in range(w) if to_right[y][x]]
    dominoes += [((y, x), (y + 1, x)) for y in range(h) for x in range(w) if to_down[y][x]]

    def ok(pat: Sequence[bool]) -> bool:
        plus, minus = grid_of(h, w, pat[: h * w]), grid_of(h, w, pat[h * w:])
        for c in cells(h, w):
            if plus[c] and minus[c]:
                return False
            for d in nb4(h, w, c):
                if (plus[c] and plus[d]) or (minus[c] and minus[d]):
                    return False
        for a, b in dominoes:
            if plus[a] != minus[b] or minus[a] != plus[b]:
                return False
        for y in range(h):
            if cond_row[y][0] >= 0 and sum(plus[(y, x)] for x in range(w)) != cond_row[y][0]:
                return False
            if cond_row[y][1] >= 0 and sum(minus[(y, x)] for x in range(w)) != cond_row[y][1]:
                return False
        for x in range(w):
            if cond_col[x][0] >= 0 and sum(plus[(y, x)] for y in range(h)) != cond_col[x][0]:
                return False
            if cond_col[x][1] >= 0 and sum(minus[(y, x)] for y in range(h)) != cond_col[x][1]:
                return False
        return True

    return ok


def rule_nanro(h: int, w: int, blocks: List[List[Cell]], num: List[List[int]]) -> Callable[[Sequence[int]], bool]:
    """integer answers, 0 = no number.  Every region holds at least one number and each of its numbers equals how many numbered
    cells the region has; given numbers stay; no 2x2 block of numbered cells; equal numbers never touch across a region border;
    all numbered cells are orthogonally connected"""
    room = {c: i for i, b in enumerate(blocks) for c in b}

    def ok(pat: Sequence[int]) -> bool:
        val = {(y, x): pat[y * w + x] for y in range(h) for x in range(w)}
        for b in blocks:
            k = sum(1 for c in b if val[c] != 0)
            if k == 0 or any(val[c] not in (0, k) for c in b):
                return False
        for (y, x) in cells(h, w):
            if num[y][x] > 0 and val[(y, x)] != num[y][x]:
                return False
            if y + 1 < h and x + 1 < w and all(val[q] != 0 for q in ((y, x), (y, x + 1), (y + 1, x), (y + 1, x + 1))):
                return False
            for d in nb4(h, w, (y, x)):
                if room[d] != room[(y, x)] and val[d] != 0 and val[d] == val[(y, x)]:
                    return False
        return connected(h, w, {c for c in cells(h, w) if val[c] != 0})

    # the values an answer cell can take by the rules: a solver whose variable cannot take one of them rejects every grid using it
    ok.domains = [list(range(len(blocks[room[(y, x)]]) + 1)) for y in range(h) for x in range(w)]  # type: ignore[attr-defined]
    return ok


def rule_nurimaze(h: int, w: int, wall_vertical: List[List[int]], wall_horizontal: List[List[int]], mark: List[List[int]],
                  start: Cell, goal: Cell) -> Callable[[Sequence[bool]], bool]:
    """answer = the white cells.  Cells not separated by a wall share a colour; the white cells are connected and contain no loop;
    no 2x2 block is all white or all black; S, G and every marked cell are white; the (unique) white path from S to G passes every
    circle (mark 1) and no triangle (mark 2)"""

    def ok(pat: Sequence[bool]) -> bool:
        white = grid_of(h, w, pat)
        for (y, x) in cells(h, w):
            if x + 1 < w and not wall_vertical[y][x] and white[(y, x)] != white[(y, x + 1)]:
                return False
            if y + 1 < h and not wall_horizontal[y][x] and white[(y, x)] != white[(y + 1, x)]:
                return False
            if y + 1 < h and x + 1 < w:
                four = [white[q] for q in ((y, x), (y, x + 1), (y + 1, x), (y + 1, x + 1))]
                if all(four) or not any(four):
                    return False
            if mark[y][x] != 0 and not white[(y, x)]:
                return False
        on = {c for c in cells(h, w) if white[c]}
        if start not in on or goal not in on or not connected(h, w, on):
            return False
        n_edges = sum(1 for c in on for d in nb4(h, w, c) if d in on) // 2
        if n_edges != len(on) - 1:
            return False
        # the tree path from S to G
        parent: Dict[Cell, Optional[Cell]] = {start: None}
        st = [start]
        while st:
            c = st.pop()
            for d in nb4(h, w, c):
                if d in on and d not in parent:
                    parent[d] = c
                    st.append(d)
        path = set()
        c: Optional[Cell] = goal
        while c is not None:
            path.add(c)
            c = parent[c]
        for (y, x) in cells(h, w):
            if mark[y][x] == 1 and (y, x) not in path:
                return False
            if mark[y][x] == 2 and (y, x) in path:
                return False
        return True

    return ok


def rule_slalom(h: int, w: int, origin: Cell, is_black: List[List[bool]], gates: List[Tuple[int, int, int, int, int]]) -> Callable[[Sequence[bool]], bool]:
    """answer = loop edges between cell centres.  One loop through the origin and through no black cell; it crosses every gate
    exactly once (exactly one cell of the gate is visited, and it is crossed at right angles); going round from the origin in one of
    the two directions, the k-th gate met carries the number k whenever it carries a number (n >= 1)"""
    edges = frame_edges(h - 1, w - 1)
    gate_cells = []
    for (y, x, d, ln, n) in gates:
        gate_cells.append(([(y, x + i) for i in range(ln)] if d == 0 else [(y + i, x) for i in range(ln)], d, n))

    def ok(pat: Sequence[bool]) -> bool:
        on = [e for e, b in zip(edges, pat) if b]
        if not on or not single_loop_or_empty(edges, pat):
            return False
        adj: Dict[Cell, List[Cell]] = {}
        for a, b in on:
            adj.setdefault(a, []).append(b)
            adj.setdefault(b, []).append(a)
        if origin not in adj or any(is_black[c[0]][c[1]] for c in adj):
            return False
        crossing: Dict[Cell, int] = {}
        for gi, (cs, d, n) in enumerate(gate_cells):
            hit = [c for c in cs if c in adj]
            if len(hit) != 1:
                return False
            c = hit[0]
            # at right angles: a horizontal gate (d == 0) is crossed by a vertical piece of the loop
            if any((q[0] == c[0]) == (d == 0) for q in adj[c]):
                return False
            crossing[c] = gi
        for first in adj[origin]:
            prev, cur, k, good = origin, first, 0, True
            while cur != origin:
                if cur in crossing:
                    k += 1
                    n = gate_cells[crossing[cur]][2]
                    if n >= 1 and n != k:
                        good = False
                        break
                nxt = [q for q in adj[cur] if q != prev][0]
                prev, cur = cur, nxt
            if good:
                return True
        return False

    ok.arity = len(edges)  # type: ignore[attr-defined]
    return ok


_SHAKA_BLACK = {0: set(), 1: {"N", "W"}, 2: {"W", "S"}, 3: {"S", "E"}, 4: {"N", "E"}}


def rule_shakashaka(h: int, w: int, problem: List[List[Optional[int]]]) -> Callable[[Sequence[int]], bool]:
    """answer per cell: 0 empty, 1..4 a triangle whose black half is the top-left, bottom-left, bottom-right, top-right corner;
    black cells (problem not None) stay empty and may carry the number of edge-adjacent triangles; every white region must be
    a rectangle (upright or at 45 degrees)"""

    def ok(pat: Sequence[int]) -> bool:
        val = {(y, x): pat[y * w + x] for y in range(h) for x in range(w)}
        white: Set[Tuple[int, int, str]] = set()
        for c in cells(h, w):
            pv = problem[c[0]][c[1]]
            if pv is not None:
                if val[c] != 0:
                    return False
                if pv >= 0 and sum(1 for d in nb4(h, w, c) if val[d] != 0) != pv:
                    return False
                continue
            for q in "NESW":
                if q not in _SHAKA_BLACK[val[c]]:
                    white.add((c[0], c[1], q))
        # connectivity of white quarter triangles
        def nbrs(t: Tuple[int, int, str]):
            y, x, q = t
            ring = "NESW"
            i = ring.index(q)
            yield (y, x, ring[(i + 1) % 4])
            yield (y, x, ring[(i - 1) % 4])
            dy, dx, opp = {"N": (-1, 0, "S"), "S": (1, 0, "N"), "W": (0, -1, "E"), "E": (0, 1, "W")}[q]
            yield (y + dy, x + dx, opp)

        # geometry in quarter units: cell (y, x) spans [2y, 2y+2] x [2x, 2x+2], centre (2y+1, 2x+1)
        def tri(t: Tuple[int, int, str]) -> List[Tuple[int, int]]:
            y, x, q = t
            cy, cx = 2 * y + 1, 2 * x + 1
            tl, tr, bl, br = (2 * y, 2 * x), (2 * y, 2 * x + 2), (2 * y + 2, 2 * x), (2 * y + 2, 2 * x + 2)
            return {"N": [tl, tr, (cy, cx)], "E": [tr, br, (cy, cx)], "S": [br, bl, (cy, cx)], "W": [bl, tl, (cy, cx)]}[q]

        left = set(white)
        while left:
            start = left.pop()
            comp = {start}
            st = [start]
            while st:
                t = st.pop()
                for u in nbrs(t):
                    if u in left:
                        left.discard(u)
                        comp.add(u)
                        st.append(u)
            pts = sorted({p_ for t in comp for p_ in tri(t)})
            # convex hull (monotone chain) of all corner points
            def cross(o: Tuple[int, int], a: Tuple[int, int], b: Tuple[int, int]) -> int:
                return (a[0] - o[0]) * (b[1] - o[1]) - (a[1] - o[1]) * (b[0] - o[0])

            lower: List[Tuple[int, int]] = []
            for p_ in pts:
                while len(lower) >= 2 and cross(lower[-2], lower[-1], p_) <= 0:
                    lower.pop()
                lower.append(p_)
            upper: List[Tuple[int, int]] = []
            for p_ in reversed(pts):
                while len(upper) >= 2 and cross(upper[-2], upper[-1], p_) <= 0:
                    upper.pop()
                upper.append(p_)
            hull = lower[:-1] + upper[:-1]
            if len(hull) != 4:
                return False
            area2 = abs(sum(hull[i][0] * hull[(i + 1) % 4][1] - hull[(i + 1) % 4][0] * hull[i][1] for i in range(4)))
            if area2 != 2 * len(comp):  # each quarter triangle has area 1 in these units (twice the area = 2)
                return False
            for i in range(4):
                a_, b_, c_ = hull[i], hull[(i + 1) % 4], hull[(i + 2) % 4]
                if (b_[0] - a_[0]) * (c_[0] - b_[0]) + (b_[1] - a_[1]) * (c_[1] - b_[1]) != 0:
                    return False
        return True

    # the values an answer cell can take by the rules: a solver whose variable cannot take one of them rejects every grid using it
    ok.domains = [list(range(5))] * (h * w)  # type: ignore[attr-defined]
    return ok


def decide_sudoku(a: tuple, kw: dict, ids: List[int], posted: "_Posted", ext: Extender, label: str) -> Tuple[str, str, int]:
    """the answer space (size^(size^2)) cannot be enumerated; instead
    (sound) every posted constraint is a consequence of the rules: an all-different over cells of one row, column or block, or a
            given digit;
    (complete) every way of breaking a rule is refuted whatever the other cells are: for each pair of cells in a common row, column
            or block and each digit, some posted constraint is already false under just those two values; likewise a cell that
            contradicts its given digit."""
    problem = a[0]
    n = kw.get("n", a[1] if len(a) > 1 else 3)
    size = n * n
    if len(ids) != size * size:
        return "bad", f"{label}: the answer has {len(ids)} variables, a {size}x{size} grid has {size * size}", 0
    cell_of = {vid: (k // size, k % size) for k, vid in enumerate(ids)}
    for vid in ids:
        if posted.domains()[vid] != list(range(1, size + 1)):
            return "bad", f"{label}: cell {cell_of[vid]} ranges over {posted.domains()[vid][:1]}..{posted.domains()[vid][-1:]}, digits are 1..{size}", 0
    groups = [{(y, x) for x in range(size)} for y in range(size)] + [{(y, x) for y in range(size)} for x in range(size)]
    groups += [{(by * n + dy, bx * n + dx) for dy in range(n) for dx in range(n)} for by in range(n) for bx in range(n)]
    k3 = ext.k3
    # sound
    for c in posted.constraints():
        acc: Set[int] = set()
        from .encodings import _vars_of
        _vars_of(c, acc)
        if not acc <= set(ids):
            return "undecided", f"{label}: a posted constraint mentions variables outside the answer grid", 0
        cs = {cell_of[v] for v in acc}
        op = c.attrs["op"].name.split(".")[-1] if hasattr(c, "attrs") else ""
        if op == "ALLDIFF" and all(hasattr(o, "attrs") and o.attrs["op"].name.endswith("VAR") for o in c.attrs["operands"]):
            if not any(cs <= g for g in groups):
                return "bad", f"{label}: an all-different constraint spans cells {sorted(cs)} that share no row, column or block", 0
            continue
        if len(cs) == 1:
            (y, x), = cs
            vid = next(iter(acc))
            allowed = [d for d in range(1, size + 1) if k3.ev(c, {vid: d}) is True]
            if problem[y][x] >= 1 and allowed == [problem[y][x]]:
                continue
            return "bad", f"{label}: a posted constraint restricts cell {(y, x)} to {allowed} but the given digit there is {problem[y][x]}", 0
        return "undecided", f"{label}: a posted constraint is neither an all-different of cells nor a given digit", 0
    # complete
    n_chk = 0
    pos = {c: vid for vid, c in cell_of.items()}
    for g in groups:
        cells_g = sorted(g)
        for i, c1 in enumerate(cells_g):
            for c2 in cells_g[i + 1:]:
                n_chk += 1
                d = 1 + (n_chk % size)
                part = {pos[c1]: d, pos[c2]: d}
                if not any(k3.ev(c, part) is False for c in posted.constraints()):
                    return "bad", (f"{label}: cells {c1} and {c2} share a row, column or block but may both hold {d}: "
                                   "no posted constraint is violated by that alone"), n_chk
    for y in range(size):
        for x in range(size):
            if problem[y][x] >= 1:
                wrong = problem[y][x] % size + 1
                n_chk += 1
                if not any(k3.ev(c, {pos[(y, x)]: wrong}) is False for c in posted.constraints()):
                    return "bad", f"{label}: cell {(y, x)} may hold {wrong} although the given digit is {problem[y][x]}", n_chk
    return "ok", label, n_chk


decide_sudoku.custom = True  # type: ignore[attr-defined]


# ------------------------------------------------------------------------------------------
# instances
# ------------------------------------------------------------------------------------------

W_ = -2  # akari: white cell


def _rows(h: int, w: int) -> List[List[Cell]]:
    return [[(y, x) for x in range(w)] for y in range(h)]


def _cols(h: int, w: int) -> List[List[Cell]]:
    return [[(y, x) for y in range(h)] for x in range(w)]


def instances(tier: str) -> List[Tuple[str, tuple, dict, Callable[..., Callable[[Sequence[bool]], bool]]]]:
    """(puzzle, positional arguments, keyword arguments, rule oracle factory taking the same arguments)"""
    I: List[Tuple[str, tuple, dict, Any]] = []
    deep = tier != "quick"
    # heyawake: three rooms stacked / side by side (the run rule needs two borders), L-shaped room, free and fixed clues
    I += [("heyawake", (3, 2, _rows(3, 2), [-1, -1, -1]), {}, rule_heyawake),
          ("heyawake", (2, 3, _cols(2, 3), [-1, -1, -1]), {}, rule_heyawake),
          ("heyawake", (3, 3, [[(0, 0), (0, 1), (0, 2)], [(1, 0), (1, 1), (1, 2)], [(2, 0), (2, 1), (2, 2)]], [1, -1, 1]), {}, rule_heyawake),
          ("heyawake", (3, 3, [[(0, 0), (1, 0), (2, 0), (2, 1), (2, 2)], [(0, 1), (0, 2)], [(1, 1), (1, 2)]], [2, 0, -1]), {}, rule_heyawake),
          ("heyawake", (1, 4, [[(0, 0)], [(0, 1), (0, 2)], [(0, 3)]], [-1, -1, -1]), {}, rule_heyawake),
          # one border only (no run rule applies), a cell beyond the second border, a two-cell room between the borders
          ("heyawake", (3, 2, [[(0, 0), (0, 1)], [(1, 0), (1, 1), (2, 0), (2, 1)]], [-1, -1]), {}, rule_heyawake),
          ("heyawake", (4, 1, [[(0, 0)], [(1, 0)], [(2, 0), (3, 0)]], [-1, -1, -1]), {}, rule_heyawake),
          ("heyawake", (4, 1, [[(0, 0)], [(1, 0), (2, 0)], [(3, 0)]], [-1, -1, -1]), {}, rule_heyawake),
          ("heyawake", (1, 4, [[(0, 0)], [(0, 1)], [(0, 2), (0, 3)]], [-1, -1, -1]), {}, rule_heyawake),
          ("heyawake", (1, 5, [[(0, 0), (0, 1)], [(0, 2)], [(0, 3)], [(0, 4)]], [-1, -1, -1, -1]), {}, rule_heyawake)]
    if deep:
        I += [("heyawake", (4, 2, [[(0, 0), (0, 1)], [(1, 0), (1, 1), (2, 0), (2, 1)], [(3, 0), (3, 1)]], [-1, -1, -1]), {}, rule_heyawake),
              ("heyawake", (2, 4, [[(0, 0), (1, 0)], [(0, 1), (1, 1), (0, 2), (1, 2)], [(0, 3), (1, 3)]], [-1, -1, -1]), {}, rule_heyawake),
              ("heyawake", (4, 3, _rows(4, 3), [-1, 1, -1, -1]), {}, rule_heyawake)]
    # akari
    I += [("akari", (2, 3, [[W_, W_, W_], [W_, -1, W_]]), {}, rule_akari),
          ("akari", (3, 3, [[W_, W_, W_], [W_, 1, W_], [W_, W_, W_]]), {}, rule_akari),
          ("akari", (3, 2, [[0, W_], [W_, W_], [W_, 2]]), {}, rule_akari),
          ("akari", (1, 4, [[W_, -1, W_, W_]]), {}, rule_akari),
          ("akari", (3, 2, [[W_, -1], [W_, W_], [W_, W_]]), {}, rule_akari),   # a cell lit only from the last row / last column
          ("akari", (2, 3, [[W_, W_, W_], [-1, W_, W_]]), {}, rule_akari),
          # a black cell between two white cells of a column (light must not pass), a 0 clue that matters, numbered clues off the diagonal
          ("akari", (3, 1, [[W_], [-1], [W_]]), {}, rule_akari),
          ("akari", (3, 2, [[W_, W_], [1, -1], [W_, W_]]), {}, rule_akari),
          ("akari", (2, 2, [[0, W_], [W_, W_]]), {}, rule_akari),
          ("akari", (2, 3, [[W_, 1, W_], [W_, W_, W_]]), {}, rule_akari),
          ("akari", (3, 2, [[W_, W_], [W_, 1], [W_, W_]]), {}, rule_akari)]
    if deep:
        I += [("akari", (3, 3, [[W_, -1, W_], [W_, W_, W_], [2, W_, W_]]), {}, rule_akari),
              ("akari", (3, 3, [[W_, W_, 1], [W_, W_, W_], [0, W_, W_]]), {}, rule_akari)]
    # nurikabe
    I += [("nurikabe", (2, 3, [[1, 0, 0], [0, 0, 2]]), {}, rule_nurikabe),
          ("nurikabe", (3, 3, [[2, 0, 0], [0, 0, 0], [0, 0, -1]]), {}, rule_nurikabe),
          ("nurikabe", (3, 2, [[-1, 0], [0, 0], [0, 3]]), {"unknown_low": 2}, rule_nurikabe),
          ("nurikabe", (1, 4, [[1, 0, 0, 1]]), {}, rule_nurikabe),
          # an island whose clue sits in the very first cell (vertex 0 of the grid graph) and does not fill the board
          ("nurikabe", (1, 3, [[2, 0, 0]]), {}, rule_nurikabe),
          ("nurikabe", (2, 2, [[2, 0], [0, 0]]), {}, rule_nurikabe),
          # a '?' island that could have one cell: the lower bound option decides
          ("nurikabe", (2, 3, [[-1, 0, 0], [0, 0, 1]]), {"unknown_low": 2}, rule_nurikabe),
          ("nurikabe", (2, 3, [[-1, 0, 0], [0, 0, 1]]), {"unknown_low": 3}, rule_nurikabe),
          ("nurikabe", (2, 3, [[-1, 0, 0], [0, 0, 1]]), {}, rule_nurikabe)]
    # norinori
    I += [("norinori", (2, 3, [[(0, 0), (0, 1), (1, 0)], [(0, 2), (1, 1), (1, 2)]]), {}, rule_norinori),
          ("norinori", (3, 3, [[(0, 0), (0, 1), (0, 2), (1, 0)], [(1, 1), (1, 2), (2, 0), (2, 1), (2, 2)]]), {}, rule_norinori),
          ("norinori", (1, 4, [[(0, 0), (0, 1)], [(0, 2), (0, 3)]]), {}, rule_norinori),
          ("norinori", (1, 5, [[(0, 0), (0, 1), (0, 2), (0, 3), (0, 4)]]), {}, rule_norinori),   # room for two dominoes in one block
          ("norinori", (2, 4, [[(0, 0), (0, 1), (0, 2), (0, 3), (1, 3)], [(1, 0), (1, 1), (1, 2)]]), {}, rule_norinori)]
    # yinyang
    I += [("yinyang", (2, 3, [[0, 0, 0], [0, 0, 0]]), {}, rule_yinyang),
          ("yinyang", (3, 3, [[1, 0, 0], [0, 0, 0], [0, 0, 2]]), {}, rule_yinyang),
          ("yinyang", (3, 2, [[0, 2], [0, 0], [1, 0]]), {}, rule_yinyang),
          # 3x4 is the smallest board on which a colour can be enclosed without touching the border
          ("yinyang", (3, 4, [[0] * 4] * 3), {}, rule_yinyang)]
    if deep:
        I += [("yinyang", (1, 4, [[0, 0, 0, 0]]), {}, rule_yinyang), ("yinyang", (3, 3, [[0] * 3] * 3), {}, rule_yinyang),
              ("yinyang", (4, 3, [[0] * 3] * 4), {}, rule_yinyang)]
    # creek
    I += [("creek", (2, 2, [[-1, -1, -1], [-1, 2, -1], [-1, -1, 0]]), {}, rule_creek),
          ("creek", (2, 3, [[0, -1, -1, 1], [-1, -1, 2, -1], [1, -1, -1, -1]]), {}, rule_creek),
          ("creek", (3, 2, [[-1, 1, -1], [-1, -1, -1], [2, -1, -1], [-1, -1, 1]]), {}, rule_creek)]
    # star battle
    I += [("star_battle", (4, [[0, 0, 1, 1], [0, 0, 1, 1], [2, 2, 3, 3], [2, 2, 3, 3]], 1), {}, rule_star_battle),
          ("star_battle", (4, [[0, 1, 1, 1], [0, 1, 2, 2], [0, 3, 3, 2], [0, 3, 3, 2]], 1), {}, rule_star_battle)]
    # a room that holds two stars of an otherwise admissible placement (rows, columns and the no-touch rule do not imply the room rule)
    I += [("star_battle", (4, [[0, 0, 0, 0], [1, 1, 1, 0], [1, 2, 2, 2], [3, 3, 3, 2]], 1), {}, rule_star_battle)]
    # slitherlink
    I += [("slitherlink", (2, 2, [[-1, -1], [-1, -1]]), {}, rule_slitherlink),
          ("slitherlink", (2, 2, [[3, -1], [-1, 0]]), {}, rule_slitherlink),
          ("slitherlink", (1, 3, [[2, -1, 3]]), {}, rule_slitherlink)]
    # every clue value alone in every cell of the 2x2 board
    for (cy, cx) in ((0, 0), (0, 1), (1, 0), (1, 1)):
        for v_ in (0, 1, 2, 3):
            g_ = [[-1, -1], [-1, -1]]
            g_[cy][cx] = v_
            I.append(("slitherlink", (2, 2, g_), {}, rule_slitherlink))
    if deep:
        I += [("slitherlink", (2, 3, [[-1, 2, -1], [1, -1, 3]]), {}, rule_slitherlink), ("slitherlink", (3, 2, [[0, -1], [-1, 2], [3, -1]]), {}, rule_slitherlink)]
    # masyu (cells are lattice points)
    I += [("masyu", (3, 3, [[0, 0, 0], [0, 0, 0], [0, 0, 0]]), {}, rule_masyu),
          ("masyu", (3, 3, [[2, 0, 0], [0, 0, 0], [0, 1, 0]]), {}, rule_masyu),
          ("masyu", (3, 3, [[0, 1, 0], [0, 0, 0], [0, 0, 0]]), {}, rule_masyu)]
    # a black circle in each corner (every pair of arm directions), a white circle with room to run straight on both sides (two-row boards)
    I += [("masyu", (3, 3, [[0, 0, 2], [0, 0, 0], [0, 0, 0]]), {}, rule_masyu), ("masyu", (3, 3, [[0, 0, 0], [0, 0, 0], [2, 0, 0]]), {}, rule_masyu),
          ("masyu", (3, 3, [[0, 0, 0], [0, 0, 0], [0, 0, 2]]), {}, rule_masyu),
          ("masyu", (2, 5, [[0, 0, 1, 0, 0], [0, 0, 0, 0, 0]]), {}, rule_masyu), ("masyu", (5, 2, [[0, 0], [0, 0], [0, 1], [0, 0], [0, 0]]), {}, rule_masyu),
          ("masyu", (2, 5, [[0, 0, 0, 0, 0], [0, 1, 0, 1, 0]]), {}, rule_masyu)]
    if deep:
        # black circles away from the corner need a 3x4 lattice (17 edges): thorough tier only
        I += [("masyu", (3, 4, [[2, 0, 0, 0], [0, 0, 0, 1], [0, 0, 0, 0]]), {}, rule_masyu), ("masyu", (4, 3, [[0, 0, 2], [1, 0, 0], [0, 0, 0], [0, 0, 0]]), {}, rule_masyu),
              ("masyu", (3, 4, [[0, 2, 0, 0], [0, 0, 0, 0], [0, 0, 0, 0]]), {}, rule_masyu), ("masyu", (4, 3, [[0, 0, 0], [2, 0, 0], [0, 0, 0], [0, 0, 0]]), {}, rule_masyu),
              ("masyu", (3, 4, [[0, 0, 0, 0], [0, 0, 0, 0], [0, 0, 2, 0]]), {}, rule_masyu), ("masyu", (3, 4, [[0, 0, 0, 0], [1, 0, 0, 1], [0, 0, 0, 0]]), {}, rule_masyu)]
    # gokigen
    I += [("gokigen", (2, 2, [[-1, -1, -1], [-1, -1, -1], [-1, -1, -1]]), {}, rule_gokigen),
          ("gokigen", (2, 3, [[0, -1, -1, 1], [-1, 2, -1, -1], [-1, -1, -1, 0]]), {}, rule_gokigen),
          ("gokigen", (3, 2, [[-1, 1, -1], [-1, -1, 2], [1, -1, -1], [-1, -1, -1]]), {}, rule_gokigen)]
    # no clues on non-square boards (every diamond is a cycle), a lone clue in the middle of the board
    I += [("gokigen", (2, 3, [[-1] * 4] * 3), {}, rule_gokigen), ("gokigen", (3, 2, [[-1] * 3] * 4), {}, rule_gokigen),
          ("gokigen", (2, 2, [[-1, -1, -1], [-1, 1, -1], [-1, -1, -1]]), {}, rule_gokigen),
          ("gokigen", (2, 2, [[-1, -1, -1], [-1, 3, -1], [-1, -1, -1]]), {}, rule_gokigen)]
    # aquarium: L- and U-shaped tanks (the water level is one per tank)
    I += [("aquarium", (2, 3, [[(0, 0), (1, 0), (1, 1)], [(0, 1), (0, 2), (1, 2)]], [-1, -1], [-1, -1, -1]), {}, rule_aquarium),
          ("aquarium", (2, 3, [[(0, 0), (1, 0), (1, 1), (1, 2), (0, 2)], [(0, 1)]], [-1, -1], [-1, -1, -1]), {}, rule_aquarium),
          ("aquarium", (3, 2, [[(0, 0), (0, 1)], [(1, 0), (2, 0), (2, 1)], [(1, 1)]], [1, -1, 2], [-1, 2]), {}, rule_aquarium)]
    # column clues on their own, a zero among them
    I += [("aquarium", (2, 2, [[(0, 0), (1, 0)], [(0, 1), (1, 1)]], [-1, -1], [1, 0]), {}, rule_aquarium),
          ("aquarium", (2, 3, [[(0, 0), (0, 1), (0, 2)], [(1, 0), (1, 1), (1, 2)]], [-1, -1], [-1, 0, -1]), {}, rule_aquarium),
          ("aquarium", (2, 2, [[(0, 0), (1, 0)], [(0, 1), (1, 1)]], [-1, -1], [-1, 2]), {}, rule_aquarium)]
    # the cells of a tank may be listed in any order (a generator merge appends blocks): bottom-up and mixed listings
    # a clue at an index beyond the shorter side (the last column of a wide board, the last row of a tall one) that alone decides
    # something: the row loop and the column loop have different lengths
    I += [("aquarium", (2, 3, [[(0, 0)], [(0, 1)], [(0, 2), (1, 2)], [(1, 0)], [(1, 1)]], [-1, -1], [-1, -1, 1]), {}, rule_aquarium),
          ("aquarium", (3, 2, [[(0, 0)], [(0, 1)], [(1, 0)], [(1, 1)], [(2, 0), (2, 1)]], [-1, -1, 0], [-1, -1]), {}, rule_aquarium)]
    I += [("aquarium", (3, 1, [[(2, 0), (1, 0), (0, 0)]], [-1, -1, -1], [-1]), {}, rule_aquarium),
          ("aquarium", (2, 2, [[(1, 0), (0, 0)], [(1, 1), (0, 1)]], [2, 0], [-1, -1]), {}, rule_aquarium),
          ("aquarium", (3, 2, [[(2, 1), (0, 0), (1, 0), (2, 0)], [(1, 1), (0, 1)]], [-1, -1, -1], [-1, -1]), {}, rule_aquarium)]
    # yajilin (answer: loop edges + black cells)
    I += [("yajilin", (2, 3, [["..", "..", ".."], ["..", "..", ".."]]), {}, rule_yajilin),
          ("yajilin", (2, 3, [[">1", "..", ".."], ["..", "..", ".."]]), {}, rule_yajilin),
          ("yajilin", (3, 2, [["..", "v1"], ["..", ".."], ["..", ".."]]), {}, rule_yajilin),
          ("yajilin", (2, 2, [["..", ".."], ["..", "??"]]), {}, rule_yajilin),
          ("yajilin", (2, 3, [[">0", "..", ".."], ["..", "..", ".."]]), {}, rule_yajilin),
          # boards without room for a loop: every free cell must be black, which makes each clue rule visible on its own
          ("yajilin", (1, 1, [["??"]]), {}, rule_yajilin),
          ("yajilin", (1, 3, [[">1", "??", ".."]]), {}, rule_yajilin),
          ("yajilin", (1, 3, [["..", "??", "<1"]]), {}, rule_yajilin),
          ("yajilin", (3, 1, [["v1"], ["??"], [".."]]), {}, rule_yajilin),
          ("yajilin", (3, 1, [[".."], ["??"], ["^1"]]), {}, rule_yajilin),
          # clue values that contradict what the free cells force: the clue rule alone makes these unsolvable
          ("yajilin", (1, 3, [["..", "??", "<0"]]), {}, rule_yajilin),
          ("yajilin", (3, 1, [[".."], ["??"], ["^0"]]), {}, rule_yajilin),
          ("yajilin", (1, 3, [[">0", "??", ".."]]), {}, rule_yajilin),
          ("yajilin", (3, 1, [["v0"], ["??"], [".."]]), {}, rule_yajilin)]
    if deep:
        I += [("yajilin", (2, 4, [["..", "..", "..", ".."], ["..", "..", "..", ".."]]), {}, rule_yajilin),
              ("yajilin", (3, 2, [["..", ".."], ["..", ".."], ["^0", ".."]]), {}, rule_yajilin),
              ("yajilin", (2, 3, [["..", "..", "<2"], ["..", "..", ".."]]), {}, rule_yajilin)]
    # putteria
    I += [("putteria", (2, 3, [[(0, 0), (0, 1)], [(0, 2), (1, 2)], [(1, 0), (1, 1)]]), {}, rule_putteria),
          ("putteria", (3, 3, [[(0, 0), (0, 1), (0, 2)], [(1, 0), (1, 1), (1, 2)], [(2, 0), (2, 1), (2, 2)]]), {}, rule_putteria),
          ("putteria", (3, 2, [[(0, 0)], [(0, 1), (1, 1)], [(1, 0), (2, 0)], [(2, 1)]]), {}, rule_putteria)]
    # two numbers of rooms of different sizes may still not touch, in either direction
    I += [("putteria", (2, 2, [[(0, 0)], [(1, 0), (1, 1), (0, 1)]]), {}, rule_putteria),
          ("putteria", (2, 3, [[(0, 0), (0, 1)], [(1, 0)], [(0, 2), (1, 1), (1, 2)]]), {}, rule_putteria)]
    # fillomino (integer answers)
    I += [("fillomino", (2, 2, [[0, 0], [0, 0]]), {}, rule_fillomino),
          ("fillomino", (1, 3, [[0, 2, 0]]), {}, rule_fillomino),
          ("fillomino", (2, 2, [[0, 0], [0, 3]]), {"checkered": True}, rule_fillomino),
          ("fillomino", (1, 3, [[1, 0, 0]]), {}, rule_fillomino),
          ("fillomino", (2, 2, [[1, 0], [0, 0]]), {"checkered": True}, rule_fillomino)]
    # checkered, with enough clues to stay cheap: three mutually adjacent blocks, the odd cycle running through a domino that is
    # vertical (only the horizontal-border colour rule can see that its two cells need one colour) resp. horizontal (the transpose);
    # round 13: `==` weakened to an implication in one of the two colour rules
    I += [("fillomino", (2, 3, [[2, 1, 3], [2, 0, 3]]), {"checkered": True}, rule_fillomino),
          ("fillomino", (3, 2, [[2, 2], [1, 0], [3, 3]]), {"checkered": True}, rule_fillomino),
          ("fillomino", (2, 3, [[2, 1, 3], [2, 0, 0]]), {}, rule_fillomino)]
    if deep:
        # 2x3 is the smallest board with three mutually adjacent blocks (3 / 2 / 1): valid, but not two-colourable
        I += [("fillomino", (2, 3, [[0, 0, 0], [0, 0, 0]]), {}, rule_fillomino), ("fillomino", (1, 4, [[0, 0, 0, 0]]), {"checkered": True}, rule_fillomino),
              ("fillomino", (2, 3, [[0, 0, 0], [0, 0, 0]]), {"checkered": True}, rule_fillomino)]
    # lits: two rooms of six cells side by side / stacked, and an L-shaped room
    I += [("lits", (3, 4, [[(y, x) for y in range(3) for x in range(2)], [(y, x) for y in range(3) for x in range(2, 4)]]), {}, rule_lits),
          ("lits", (4, 3, [[(y, x) for y in range(2) for x in range(3)], [(y, x) for y in range(2, 4) for x in range(3)]]), {}, rule_lits),
          ("lits", (2, 5, [[(0, 0), (0, 1), (0, 2), (0, 3), (1, 0)], [(0, 4), (1, 1), (1, 2), (1, 3), (1, 4)]]), {}, rule_lits),
          # a plus-shaped room: a T whose centre has all four neighbours in its own room
          ("lits", (3, 4, [[(0, 1), (1, 0), (1, 1), (1, 2), (2, 1)], [(0, 0), (0, 2), (0, 3), (1, 3), (2, 0), (2, 2), (2, 3)]]), {}, rule_lits)]
    # a room long enough for three cells in a row plus a separate domino (five cells with three adjacent pairs are not a tetromino)
    I += [("lits", (1, 6, [[(0, x) for x in range(6)]]), {}, rule_lits), ("lits", (6, 1, [[(y, 0) for y in range(6)]]), {}, rule_lits)]
    # building (skyscrapers), order 3
    I += [("building", (3, [0, 0, 0], [0, 0, 0], [0, 0, 0], [0, 0, 0]), {}, rule_building),
          ("building", (3, [1, 0, 2], [0, 3, 0], [2, 0, 0], [0, 0, 1]), {}, rule_building),
          ("building", (3, [0, 0, 3], [0, 1, 0], [0, 2, 0], [3, 0, 0]), {}, rule_building),
          # one clue per side on its own: each viewing direction is visible in the solution set
          ("building", (3, [2, 0, 0], [0, 0, 0], [0, 0, 0], [0, 0, 0]), {}, rule_building),
          ("building", (3, [0, 0, 0], [0, 3, 0], [0, 0, 0], [0, 0, 0]), {}, rule_building),
          ("building", (3, [0, 0, 0], [0, 0, 0], [0, 0, 3], [0, 0, 0]), {}, rule_building),
          ("building", (3, [0, 0, 0], [0, 0, 0], [0, 0, 0], [1, 0, 0]), {}, rule_building),
          # the clue 1 (the tallest building stands first) on each of the four sides
          ("building", (3, [0, 1, 0], [0, 0, 0], [0, 0, 0], [0, 0, 0]), {}, rule_building),
          ("building", (3, [0, 0, 0], [1, 0, 0], [0, 0, 0], [0, 0, 0]), {}, rule_building),
          ("building", (3, [0, 0, 0], [0, 0, 0], [0, 1, 0], [0, 0, 0]), {}, rule_building)]
    # doppelblock, order 3 (numbers 1..1)
    I += [("doppelblock", (3, [-1, -1, -1], [-1, -1, -1]), {}, rule_doppelblock),
          ("doppelblock", (3, [1, -1, 0], [-1, 0, 1]), {}, rule_doppelblock),
          # a lone clue 0 (the two black cells side by side) in a row / in a column
          ("doppelblock", (3, [0, -1, -1], [-1, -1, -1]), {}, rule_doppelblock),
          ("doppelblock", (3, [-1, -1, -1], [-1, 0, -1]), {}, rule_doppelblock)]
    # compass
    I += [("compass", (2, 3, [(0, 0, -1, -1, 1, 1), (1, 2, 1, -1, -1, -1)]), {}, rule_compass),
          ("compass", (3, 2, [(0, 0, 0, 0, -1, -1), (2, 1, -1, 1, 0, -1)]), {}, rule_compass),
          ("compass", (2, 3, [(0, 1, -1, 1, -1, -1), (1, 0, -1, -1, -1, 2), (0, 2, 0, -1, 0, 0)]), {}, rule_compass),
          # one count at a time, zero counts that forbid something
          ("compass", (2, 3, [(1, 0, 1, -1, -1, -1), (0, 2, -1, -1, -1, -1)]), {}, rule_compass),
          ("compass", (2, 3, [(0, 1, -1, 0, -1, -1), (1, 0, -1, -1, -1, -1)]), {}, rule_compass),
          ("compass", (2, 3, [(0, 1, -1, -1, 0, -1), (1, 2, -1, -1, -1, -1)]), {}, rule_compass),
          ("compass", (3, 2, [(1, 0, 0, -1, -1, 0), (2, 1, -1, -1, -1, -1)]), {}, rule_compass),
          ("compass", (2, 3, [(0, 1, -1, -1, -1, 0), (1, 0, -1, -1, -1, -1)]), {}, rule_compass)]   # a lone zero to the right
    # geradeweg
    I += [("geradeweg", (3, 3, [[0, 0, 0], [0, 0, 0], [0, 0, 2]]), {}, rule_geradeweg),
          ("geradeweg", (3, 3, [[1, 0, 0], [0, 0, 0], [0, 2, 0]]), {}, rule_geradeweg),
          ("geradeweg", (2, 3, [[2, 0, 0], [0, 0, 1]]), {}, rule_geradeweg),
          # a clue in the middle of the board: a run may leave it on one side only, in any of the four directions
          ("geradeweg", (3, 3, [[0, 0, 0], [0, 1, 0], [0, 0, 0]]), {}, rule_geradeweg),
          ("geradeweg", (3, 3, [[0, 0, 0], [0, 2, 0], [0, 0, 0]]), {}, rule_geradeweg)]
    # view (integer numbers + has-number flags)
    I += [("view", (2, 2, [[-1, -1], [-1, -1]]), {}, rule_view),
          ("view", (1, 3, [[-1, -1, 1]]), {}, rule_view),
          ("view", (2, 2, [[2, -1], [-1, -1]]), {}, rule_view),
          # one-line boards in both orientations (the sight counters run along one axis only), a clue that is met / cannot be met
          ("view", (1, 3, [[-1, -1, -1]]), {}, rule_view),
          ("view", (3, 1, [[-1], [-1], [-1]]), {}, rule_view),
          ("view", (1, 4, [[-1, -1, 2, -1]]), {}, rule_view),
          ("view", (4, 1, [[-1], [2], [-1], [-1]]), {}, rule_view),
          ("view", (2, 2, [[0, -1], [-1, -1]]), {}, rule_view)]   # a clue 0: the cell carries a number and sees nothing
    # fivecells
    I += [("fivecells", (1, 5, [[-1, 2, -1, -1, -1]]), {}, rule_fivecells),
          ("fivecells", (1, 5, [[-1, 3, -1, -1, -1]]), {}, rule_fivecells),                         # a clue no division can meet
          ("fivecells", (1, 10, [[-1, -1, -1, -1, 3, -1, -1, -1, -1, 3]]), {}, rule_fivecells),   # two pentominoes in a row
          ("fivecells", (2, 3, [[-1, -1, -1], [-1, 2, -2]]), {}, rule_fivecells),
          ("fivecells", (3, 2, [[-1, -1], [-1, 3], [-2, -1]]), {}, rule_fivecells),
          ("fivecells", (2, 5, [[-1, 0, -1, -1, -1], [-1, -1, -1, -1, -1]]), {}, rule_fivecells)]  # a clue below the number of board edges at that cell
    if deep:
        # 2x5 / 5x2: five ways to cut the board into two pentominoes; clues on the first and the last row and column (about a minute each)
        I += [("fivecells", (2, 5, [[-1] * 5, [-1] * 5]), {"__budget__": 400.0}, rule_fivecells),
              ("fivecells", (2, 5, [[2, -1, -1, -1, -1], [-1, -1, -1, -1, 2]]), {"__budget__": 400.0}, rule_fivecells),
              ("fivecells", (5, 2, [[-1, -1], [-1, -1], [-1, -1], [-1, -1], [2, -1]]), {"__budget__": 400.0}, rule_fivecells)]
    # nurimisaki
    I += [("nurimisaki", (3, 3, [[2, -1, -1], [-1, -1, -1], [-1, -1, 0]]), {}, rule_nurimisaki),
          ("nurimisaki", (2, 4, [[-1, -1, -1, 3], [0, -1, -1, -1]]), {}, rule_nurimisaki),
          ("nurimisaki", (3, 4, [[-1, -1, -1, -1], [-1, -1, -1, -1], [3, -1, -1, -1]]), {}, rule_nurimisaki),
          # a cape whose line runs down to a black cell in the bottom row (needs three rows and room beside it)
          ("nurimisaki", (3, 5, [[2, -1, -1, -1, -1], [-1, -1, -1, -1, -1], [-1, -1, -1, -1, -1]]), {}, rule_nurimisaki)]
    # a cape in the middle of each edge, its line reaching the opposite edge exactly (3) or stopped by a black cell / running along the edge (2)
    for (cy, cx) in ((2, 1), (0, 1), (1, 2), (1, 0)):
        for n_ in (3, 2):
            g_ = [[-1] * 3 for _ in range(3)]
            g_[cy][cx] = n_
            I.append(("nurimisaki", (3, 3, g_), {}, rule_nurimisaki))
    # ... and one solvable board per direction of the cape's line x (line ends at the board edge / at a black cell)
    for (h_, w_, (cy, cx), n_) in ((3, 4, (0, 0), 4), (3, 4, (0, 3), 4), (3, 4, (1, 0), 2), (3, 4, (1, 3), 2),
                                   (4, 3, (0, 0), 4), (4, 3, (0, 1), 2), (4, 3, (3, 0), 4), (4, 3, (3, 1), 2)):
        g_ = [[-1] * w_ for _ in range(h_)]
        g_[cy][cx] = n_
        I.append(("nurimisaki", (h_, w_, g_), {}, rule_nurimisaki))
    # castle wall (cells are lattice points)
    I += [("castle_wall", (3, 3, [["..", "..", ".."], ["..", ">1", ".."], ["..", "..", ".."]], [[None] * 3, [None, True, None], [None] * 3]), {}, rule_castle_wall),
          ("castle_wall", (3, 3, [["v1", "..", ".."], ["..", "..", ".."], ["..", "..", ".."]], [[False, None, None], [None] * 3, [None] * 3]), {}, rule_castle_wall),
          ("castle_wall", (3, 3, [["..", "..", ".."], ["..", "..", ".."], ["..", "..", "<1"]], [[None] * 3, [None] * 3, [None, None, None]]), {}, rule_castle_wall),
          ("castle_wall", (3, 3, [["..", "..", ">1"], ["..", "..", ".."], ["..", "..", ".."]], [[None] * 3, [None] * 3, [None] * 3]), {}, rule_castle_wall),
          ("castle_wall", (2, 4, [["..", "..", "..", ".."], ["^0", "..", "..", ".."]], [[None] * 4, [False, None, None, None]]), {}, rule_castle_wall),
          # a clue cell without an arrow ("o0") in the middle of the board: inside (only the ring encloses it) / outside (only no line at all)
          ("castle_wall", (3, 3, [["..", "..", ".."], ["..", "o0", ".."], ["..", "..", ".."]], [[None] * 3, [None, True, None], [None] * 3]), {}, rule_castle_wall),
          ("castle_wall", (3, 3, [["..", "..", ".."], ["..", "o0", ".."], ["..", "..", ".."]], [[None] * 3, [None, False, None], [None] * 3]), {}, rule_castle_wall),
          ("castle_wall", (3, 3, [["o0", "..", ".."], ["..", "..", ".."], ["..", "..", ".."]], [[False, None, None], [None] * 3, [None] * 3]), {}, rule_castle_wall),
          ("castle_wall", (3, 3, [["..", "..", ".."], ["..", "..", ".."], ["..", "o0", ".."]], [[None] * 3, [None] * 3, [None, True, None]]), {}, rule_castle_wall)]
    if deep:
        # a clue point in the third row of the lattice: its inside flag is derived through two rows of faces
        I += [("castle_wall", (4, 3, [[".."] * 3, [".."] * 3, ["..", "o0", ".."], [".."] * 3], [[None] * 3, [None] * 3, [None, True, None], [None] * 3]), {"__budget__": 400.0}, rule_castle_wall),
              ("castle_wall", (4, 3, [[".."] * 3, [".."] * 3, ["..", "o0", ".."], [".."] * 3], [[None] * 3, [None] * 3, [None, False, None], [None] * 3]), {"__budget__": 400.0}, rule_castle_wall)]
    # shakashaka (integer answers 0..4)
    I += [("shakashaka", (2, 2, [[None, None], [None, None]]), {}, rule_shakashaka),
          ("shakashaka", (2, 3, [[None, None, None], [None, None, -1]]), {}, rule_shakashaka),
          ("shakashaka", (2, 2, [[None, 1], [None, None]]), {}, rule_shakashaka),
          ("shakashaka", (2, 2, [[None, 2], [None, None]]), {}, rule_shakashaka),
          ("shakashaka", (2, 2, [[None, 0], [None, None]]), {}, rule_shakashaka),
          # a numbered black cell next to the diamond, in each orientation of the board
          ("shakashaka", (2, 3, [[None, None, None], [1, None, None]]), {}, rule_shakashaka),
          ("shakashaka", (2, 3, [[None, None, 1], [None, None, None]]), {}, rule_shakashaka),
          ("shakashaka", (3, 2, [[None, None], [None, None], [None, 1]]), {}, rule_shakashaka),
          ("shakashaka", (3, 2, [[-1, None], [None, None], [None, None]]), {}, rule_shakashaka),
          # 3x3 with a numbered black corner: 5^8 answers, so only "every admitted answer obeys the rules" is decided here
          ("shakashaka", (3, 3, [[2, None, None], [None, None, None], [None, None, None]]), {"__sound_only__": True}, rule_shakashaka),
          ("shakashaka", (3, 3, [[0, None, None], [None, None, None], [None, None, None]]), {"__sound_only__": True}, rule_shakashaka)]
    if deep:
        I += [("shakashaka", (2, 3, [[None, None, None], [None, None, None]]), {}, rule_shakashaka), ("shakashaka", (3, 2, [[None, None], [2, None], [None, None]]), {}, rule_shakashaka)]
    # firefly (answer: segments between cell centres)
    I += [("firefly", (1, 2, [[">0", "<0"]]), {}, rule_firefly),      # each line would run into the other's dot: no solution
          ("firefly", (2, 2, [[">1", ".."], ["..", "^?"]]), {}, rule_firefly),
          ("firefly", (2, 3, [[">0", "..", "v?"], ["..", "..", "<?"]]), {}, rule_firefly),
          ("firefly", (2, 3, [[">0", "v?", ".."], ["..", "..", ".."]]), {}, rule_firefly),
          ("firefly", (2, 3, [["v1", "..", ".."], ["..", ">?", ".."]]), {}, rule_firefly),
          ("firefly", (2, 3, [[">?", "v?", "<?"], ["..", "..", ".."]]), {}, rule_firefly),
          ("firefly", (2, 3, [["v1", "..", ".."], ["..", "..", "^1"]]), {}, rule_firefly),
          ("firefly", (3, 2, [["..", ".."], ["^?", ".."], ["..", "<?"]]), {}, rule_firefly),
          ("firefly", (3, 2, [["v?", ".."], [">?", ".."], ["..", ".."]]), {}, rule_firefly),
          ("firefly", (2, 4, [["..", ">?", "..", ".."], ["..", "..", "<?", ".."]]), {}, rule_firefly),
          ("firefly", (2, 4, [["..", "<2", "..", ".."], ["..", "..", ">?", ".."]]), {}, rule_firefly),
          ("firefly", (3, 3, [["..", ">1", ".."], ["..", "..", "<?"], ["..", "..", ".."]]), {}, rule_firefly),
          ("firefly", (3, 3, [["..", "<?", ".."], ["..", "..", "^?"], ["..", "..", "^?"]]), {}, rule_firefly),
          ("firefly", (3, 3, [[">0", "..", "v0"], ["..", "..", ".."], ["^0", "..", "<0"]]), {}, rule_firefly),
          ("firefly", (3, 3, [["..", "..", ".."], ["^?", "..", "v?"], ["..", "..", ".."]]), {}, rule_firefly),
          # two pairs that can close on themselves (two separate rings) or hang together; two beams that could cross in the middle cell;
          # a dot that points off the board; a number larger than any beam's bends; a number on a beam that cannot bend
          ("firefly", (2, 4, [[">?", "v?", ">?", "v?"], ["..", "..", "..", ".."]]), {}, rule_firefly),
          ("firefly", (3, 3, [["..", "v?", ".."], [">?", "..", "^?"], ["..", "<?", ".."]]), {}, rule_firefly),
          ("firefly", (3, 3, [["..", "v?", ".."], [">?", "..", "^?"], ["..", ">?", ".."]]), {}, rule_firefly),   # ... crossing off the ring
          ("firefly", (2, 2, [["^?", ".."], ["..", ".."]]), {}, rule_firefly),
          ("firefly", (2, 2, [[">2", ".."], ["..", "<?"]]), {}, rule_firefly),
          ("firefly", (2, 2, [[">1", ".."], ["..", "<?"]]), {}, rule_firefly),
          ("firefly", (2, 3, [[">1", "..", "v?"], ["..", "..", ".."]]), {}, rule_firefly)]
    # simpleloop: only instances whose pivot entry agrees with the parity the solver derives for the pivot cell
    I += [("simpleloop", (2, 2, [[0, 0], [0, 0]], (0, 0)), {}, rule_simpleloop),
          ("simpleloop", (2, 3, [[0, 0, 0], [0, 0, 0]], (1, 2)), {}, rule_simpleloop),
          ("simpleloop", (2, 3, [[1, 0, 0], [1, 0, 0]], (0, 0)), {}, rule_simpleloop),
          ("simpleloop", (3, 2, [[0, 0], [0, 0], [1, 1]], (2, 1)), {}, rule_simpleloop),
          ("simpleloop", (3, 3, [[0, 0, 0], [0, 1, 0], [0, 0, 0]], (1, 1)), {}, rule_simpleloop),
          ("simpleloop", (3, 3, [[0, 0, 1], [0, 0, 0], [0, 0, 0]], (0, 2)), {}, rule_simpleloop),
          ("simpleloop", (3, 3, [[0, 0, 0], [0, 1, 0], [0, 0, 0]], (2, 0)), {}, rule_simpleloop),   # pivot on the loop, last row
          ("simpleloop", (2, 2, [[1, 1], [1, 1]], (1, 1)), {}, rule_simpleloop),                    # nothing to visit: no line at all
          ("simpleloop", (1, 3, [[0, 0, 1]], (0, 2)), {}, rule_simpleloop),                         # free cells no loop can reach: no solution
          ("simpleloop", (2, 3, [[0, 0, 0], [0, 1, 1]], (1, 2)), {}, rule_simpleloop)]
    # magnets ('+' grid then '-' grid)
    I += [("magnets", (2, 2, [[True, False], [True, False]], [[False] * 2] * 2, [[-1, -1], [-1, -1]], [[-1, -1], [-1, -1]]), {}, rule_magnets),
          ("magnets", (2, 2, [[False] * 2] * 2, [[True, True], [False, False]], [[1, -1], [-1, 1]], [[-1, -1], [-1, 0]]), {}, rule_magnets),
          ("magnets", (2, 3, [[True, False, False], [True, False, False]], [[False, False, True], [False] * 3], [[-1, 1], [2, -1]], [[-1, -1], [0, -1], [-1, 1]]), {}, rule_magnets),
          ("magnets", (3, 2, [[True, False], [False, False], [False, False]], [[False, False], [True, True], [False, False]], [[0, -1], [-1, -1], [-1, 1]], [[-1, -1], [1, 1]]), {}, rule_magnets),
          ("magnets", (1, 4, [[True, False, True, False]], [[False] * 4], [[-1, 2]], [[-1, -1]] * 4), {}, rule_magnets)]
    # no clues, dominoes meeting along both directions (equal poles of two different dominoes side by side / one above the other)
    I += [("magnets", (3, 2, [[True, False], [False, False], [False, False]], [[False, False], [True, True], [False, False]], [[-1, -1]] * 3, [[-1, -1]] * 2), {}, rule_magnets),
          ("magnets", (2, 3, [[False, True, False], [False, True, False]], [[True, False, False], [False, False, False]], [[-1, -1]] * 2, [[-1, -1]] * 3), {}, rule_magnets),
          # one clue at a time, zero clues included
          ("magnets", (2, 2, [[True, False], [True, False]], [[False] * 2] * 2, [[0, -1], [-1, -1]], [[-1, -1], [-1, -1]]), {}, rule_magnets),
          ("magnets", (2, 2, [[True, False], [True, False]], [[False] * 2] * 2, [[-1, 0], [-1, -1]], [[-1, -1], [-1, -1]]), {}, rule_magnets),
          ("magnets", (2, 2, [[True, False], [True, False]], [[False] * 2] * 2, [[-1, -1], [-1, -1]], [[0, -1], [-1, -1]]), {}, rule_magnets),
          ("magnets", (2, 2, [[True, False], [True, False]], [[False] * 2] * 2, [[-1, -1], [-1, -1]], [[-1, -1], [-1, 0]]), {}, rule_magnets),
          ("magnets", (2, 2, [[True, False], [True, False]], [[False] * 2] * 2, [[-1, -1], [-1, -1]], [[1, -1], [-1, -1]]), {}, rule_magnets),
          ("magnets", (2, 2, [[True, False], [True, False]], [[False] * 2] * 2, [[-1, -1], [-1, 1]], [[-1, -1], [-1, -1]]), {}, rule_magnets)]
    # nanro (integer answers)
    I += [("nanro", (2, 2, [[(0, 0), (0, 1)], [(1, 0), (1, 1)]], [[0, 0], [0, 0]]), {}, rule_nanro),
          ("nanro", (2, 3, [[(0, 0), (1, 0), (1, 1)], [(0, 1), (0, 2), (1, 2)]], [[0, 0, 0], [0, 0, 0]]), {}, rule_nanro),
          ("nanro", (2, 3, [[(0, 0), (0, 1), (0, 2)], [(1, 0), (1, 1), (1, 2)]], [[0, 0, 2], [0, 0, 0]]), {}, rule_nanro),
          ("nanro", (3, 2, [[(0, 0), (0, 1)], [(1, 0), (2, 0), (2, 1)], [(1, 1)]], [[0, 0], [0, 0], [0, 2]]), {}, rule_nanro),
          ("nanro", (1, 4, [[(0, 0), (0, 1)], [(0, 2), (0, 3)]], [[0, 0, 0, 0]]), {}, rule_nanro),
          # a given 1 that decides (without it the room could hold two 2s)
          ("nanro", (1, 4, [[(0, 0), (0, 1)], [(0, 2), (0, 3)]], [[0, 1, 0, 0]]), {}, rule_nanro),
          ("nanro", (2, 2, [[(0, 0), (0, 1)], [(1, 0), (1, 1)]], [[1, 0], [0, 0]]), {}, rule_nanro)]
    # nurimaze (walls: 1 = wall present)
    I += [("nurimaze", (2, 3, [[1, 1], [1, 1]], [[1, 1, 1]], [[0, 0, 0], [0, 0, 0]], (0, 0), (0, 2)), {}, rule_nurimaze),
          ("nurimaze", (3, 3, [[1, 1], [1, 1], [1, 1]], [[1, 1, 1], [1, 1, 1]], [[0, 0, 0], [0, 0, 1], [0, 0, 0]], (0, 0), (2, 2)), {}, rule_nurimaze),
          ("nurimaze", (3, 3, [[1, 1], [1, 1], [1, 1]], [[1, 1, 1], [1, 1, 1]], [[0, 0, 2], [0, 0, 0], [0, 0, 0]], (0, 0), (2, 2)), {}, rule_nurimaze),
          ("nurimaze", (3, 3, [[0, 1], [1, 1], [1, 0]], [[1, 1, 1], [1, 0, 1]], [[0, 0, 0], [0, 0, 0], [0, 0, 0]], (0, 2), (2, 0)), {}, rule_nurimaze),
          ("nurimaze", (2, 4, [[1, 1, 1], [1, 1, 0]], [[1, 1, 1, 1]], [[0, 1, 0, 0], [0, 0, 0, 0]], (1, 0), (0, 3)), {}, rule_nurimaze),
          ("nurimaze", (4, 2, [[1], [1], [1], [1]], [[1, 1], [1, 1], [0, 1]], [[0, 0], [0, 0], [1, 0], [0, 0]], (0, 1), (3, 1)), {}, rule_nurimaze),
          ("nurimaze", (3, 3, [[1, 1], [1, 1], [1, 1]], [[1, 1, 1], [1, 1, 1]], [[0, 0, 0], [2, 0, 0], [0, 0, 0]], (0, 0), (0, 2)), {}, rule_nurimaze)]
    # slalom (answer: loop edges; a gate is (y, x, 0 horizontal / 1 vertical, length, number or 0))
    _ring = [[False, False, False], [False, True, False], [False, False, False]]
    I += [("slalom", (3, 3, (0, 0), _ring, [(0, 1, 1, 1, 1), (2, 1, 1, 1, 2)]), {}, rule_slalom),
          ("slalom", (3, 3, (0, 0), _ring, [(0, 1, 1, 1, 2), (2, 1, 1, 1, 1)]), {}, rule_slalom),
          ("slalom", (3, 3, (2, 2), _ring, [(0, 1, 1, 1, 2), (1, 2, 0, 1, 3), (1, 0, 0, 1, 1)]), {}, rule_slalom),
          ("slalom", (3, 3, (2, 2), _ring, [(0, 1, 1, 1, 0), (1, 2, 0, 1, 1), (1, 0, 0, 1, 0)]), {}, rule_slalom),
          ("slalom", (3, 3, (1, 0), _ring, [(0, 1, 1, 1, 0)]), {}, rule_slalom),
          ("slalom", (3, 3, (0, 0), _ring, [(0, 1, 1, 1, 1), (1, 2, 0, 1, 3), (2, 1, 1, 1, 2)]), {}, rule_slalom),
          # no gate at all: any loop through the origin; the middle one of three gates numbered 1: no solution in either direction
          ("slalom", (3, 3, (0, 0), [[False] * 3] * 3, []), {}, rule_slalom),
          ("slalom", (3, 3, (0, 0), _ring, [(0, 1, 1, 1, 0), (1, 2, 0, 1, 1), (2, 1, 1, 1, 0)]), {}, rule_slalom),
          # a gate the loop cannot cross at right angles (bottom row): no solution
          ("slalom", (3, 3, (0, 0), [[False] * 3, [False] * 3, [True, False, False]], [(2, 1, 0, 2, 0)]), {}, rule_slalom)]
    if deep:
        I += [("slalom", (3, 4, (0, 0), [[False] * 4, [False, True, True, False], [False] * 4], [(0, 1, 1, 1, 0), (0, 2, 1, 1, 2), (2, 2, 1, 1, 0)]), {}, rule_slalom),
              ("slalom", (4, 3, (3, 2), [[False] * 3, [False, True, False], [False, True, False], [False] * 3], [(1, 0, 0, 1, 1), (2, 2, 0, 1, 0)]), {}, rule_slalom)]
    # boards of at most four cells on which *every* cell may belong to the connected set (all white / one colour / all numbered): they are
    # run a second time through the rank encodings (see run()), where a rank domain that is one short for an even number of cells,
    # or a root rule that fails for the full vertex set, shows as a lost solution
    I += [("heyawake", (1, 2, [[(0, 0), (0, 1)]], [0]), {}, rule_heyawake),
          ("heyawake", (2, 2, [[(0, 0), (0, 1), (1, 0), (1, 1)]], [-1]), {}, rule_heyawake),
          ("heyawake", (1, 4, [[(0, 0), (0, 1)], [(0, 2), (0, 3)]], [-1, -1]), {}, rule_heyawake),
          ("heyawake", (4, 1, [[(0, 0), (1, 0)], [(2, 0), (3, 0)]], [-1, 0]), {}, rule_heyawake),
          ("creek", (1, 2, [[-1, -1, -1], [-1, -1, -1]]), {}, rule_creek),
          ("creek", (2, 2, [[-1, -1, -1], [-1, -1, -1], [-1, -1, -1]]), {}, rule_creek),
          ("creek", (1, 4, [[-1, -1, 0, -1, -1], [-1, -1, -1, -1, -1]]), {}, rule_creek),
          ("yinyang", (1, 2, [[0, 0]]), {}, rule_yinyang),
          ("yinyang", (1, 4, [[0, 0, 0, 0]]), {}, rule_yinyang),
          ("yinyang", (2, 2, [[0, 0], [0, 0]]), {}, rule_yinyang),
          ("nanro", (1, 2, [[(0, 0), (0, 1)]], [[0, 0]]), {}, rule_nanro),
          ("nanro", (1, 4, [[(0, 0), (0, 1), (0, 2), (0, 3)]], [[0, 0, 0, 0]]), {}, rule_nanro),
          ("view", (1, 2, [[-1, -1]]), {}, rule_view)]
    # the cells of a room may be listed in any order: every room puzzle is also run with each room's cells listed backwards
    # (quick: the first two instances of each puzzle)
    seen_rooms: Dict[str, int] = {}
    for name, a, kw, rule in list(I):
        if name in ("heyawake", "norinori", "lits", "putteria", "aquarium", "nanro") and len(a) > 2 and isinstance(a[2], list) \
                and all(isinstance(r, list) and r and all(isinstance(c, tuple) and len(c) == 2 for c in r) for r in a[2]):
            seen_rooms[name] = seen_rooms.get(name, 0) + 1
            if deep or seen_rooms[name] <= 2:
                I.append((name, a[:2] + ([list(reversed(r)) for r in a[2]],) + a[3:], kw, rule))
    if deep:
        # larger boards for the cell-answer puzzles (thorough tier only)
        I += [("aquarium", (3, 3, [[(0, 0), (1, 0), (2, 0), (2, 1)], [(0, 1), (0, 2), (1, 2)], [(1, 1)], [(2, 2)]], [-1, 1, -1], [2, -1, -1]), {}, rule_aquarium),
              ("aquarium", (3, 3, [[(0, 0), (0, 1), (0, 2), (1, 0), (1, 2), (2, 0), (2, 2)], [(1, 1), (2, 1)]], [-1, -1, -1], [-1, -1, -1]), {}, rule_aquarium),
              ("creek", (3, 3, [[-1, -1, -1, -1], [-1, 2, -1, -1], [-1, -1, 3, -1], [0, -1, -1, -1]]), {}, rule_creek),
              ("gokigen", (3, 3, [[-1, -1, -1, -1], [-1, 2, -1, 1], [-1, -1, 4, -1], [0, -1, -1, -1]]), {}, rule_gokigen),
              ("magnets", (2, 4, [[True, False, False, False], [True, False, False, False]], [[False, False, True, True], [False] * 4],
                           [[-1, -1], [-1, -1]], [[-1, -1], [-1, 1], [1, -1], [-1, -1]]), {}, rule_magnets),
              ("nurimaze", (3, 4, [[1, 1, 0], [1, 1, 1], [1, 1, 1]], [[1, 1, 1, 1], [1, 0, 1, 1]], [[0, 0, 0, 0], [0, 1, 0, 0], [0, 0, 0, 2]], (0, 0), (2, 3)), {}, rule_nurimaze),
              ("norinori", (3, 4, [[(0, 0), (0, 1), (1, 0)], [(0, 2), (0, 3), (1, 3), (1, 2)], [(1, 1), (2, 0), (2, 1), (2, 2), (2, 3)]]), {}, rule_norinori),
              ("nurikabe", (3, 4, [[2, 0, 0, 0], [0, 0, 0, 0], [0, 0, 0, 3]]), {}, rule_nurikabe),
              ("akari", (3, 4, [[W_, W_, 1, W_], [W_, -1, W_, W_], [W_, W_, W_, 0]]), {}, rule_akari),
              ("heyawake", (3, 4, [[(0, 0), (0, 1), (1, 0), (1, 1)], [(0, 2), (0, 3)], [(1, 2), (1, 3), (2, 2), (2, 3)], [(2, 0), (2, 1)]], [2, -1, -1, 0]), {}, rule_heyawake),
              ("putteria", (3, 4, [[(0, 0), (0, 1), (1, 0)], [(0, 2), (0, 3)], [(1, 1), (1, 2), (2, 1)], [(1, 3), (2, 3), (2, 2)], [(2, 0)]]), {}, rule_putteria)]
    # sudoku: decided through constraint-wise soundness and pairwise refutation (all boards of that order)
    I += [("sudoku", ([[1, 0, 0, 2], [0, 0, 0, 0], [0, 0, 0, 0], [3, 0, 0, 4]],), {"n": 2}, decide_sudoku),
          ("sudoku", ([[0] * 9 for _ in range(8)] + [[0, 0, 0, 0, 0, 0, 0, 0, 7]],), {"n": 3}, decide_sudoku)]
    return I


# ------------------------------------------------------------------------------------------
# evaluation
# ------------------------------------------------------------------------------------------


class _Posted:
    """what encodings.Extender needs: the domains of all variables and the posted constraint trees"""

    def __init__(self, solver: Any):
        self._doms: Dict[int, List[Any]] = {}
        for v in solver.attrs["variables"]:
            if v.attrs.get("__class__") == "BoolVar":
                self._doms[v.attrs["id"]] = [False, True]
            else:
                self._doms[v.attrs["id"]] = list(range(v.attrs["lo"], v.attrs["hi"] + 1))
        self._cons = list(solver.attrs["constraints"])

    def domains(self) -> Dict[int, List[Any]]:
        return self._doms

    def constraints(self) -> List[Any]:
        return self._cons


def _install_group_standin(w: Any) -> None:
    """division_connected_variable_groups (graph form, constant size) has no native operator; here it is replaced by a
    definitional stand-in: fresh group-id variables and one constraint meaning 'the classes of equal id are connected blocks of
    the given size, each named after one of its own vertices' - which is what C07 decides the rank encoding to mean"""
    from ..core.fde import Obj, Tag

    def standin(solver: Any, graph: Any = None, group_size: Any = None, shape: Any = None) -> Any:
        if graph is None or shape is not None or not (group_size is None or (isinstance(group_size, int) and not isinstance(group_size, bool))):
            raise Undecided("division_connected_variable_groups form without a definitional stand-in")
        n = graph.attrs["num_vertices"]
        edges = [tuple(e) for e in graph.attrs["edges"]]
        gid = w.cw.method(solver, "int_array")(n, 0, n - 1)
        c = Obj(["BoolExpr", "Expr"], op=Tag("Op.X_VARGROUPS"),
                operands=[n, len(edges), group_size] + [x for e in edges for x in e] + list(gid.attrs["data"]), name="X_VARGROUPS")
        w.cw.method(solver, "ensure")(c)
        return gid

    w.cw.genv["division_connected_variable_groups"] = standin
    w.cw.genv["graph.division_connected_variable_groups"] = standin

    # active_vertices_connected(..., acyclic=True) has no native operator either (C20's CFG-4 decides that it never takes the native
    # route).  Stand-in: the function itself is called with acyclic=False on the native route - which posts the connectivity operator
    # over the graph the library infers - and a definitional operator "no cycle among the active vertices" is posted over the very
    # same operands.  That the rank encoding used otherwise means "tree" is what C04 decides.
    real_avc = w.cw.genv["active_vertices_connected"]

    def avc(solver: Any, *a: Any, **k: Any) -> Any:
        if not k.get("acyclic", False):
            return real_avc(solver, *a, **k)
        if k.get("acyclic") is not True:
            raise Undecided("active_vertices_connected with a non-constant acyclic flag")
        k2 = {kk: vv for kk, vv in k.items() if kk not in ("acyclic", "use_graph_primitive")}
        before = len(solver.attrs["constraints"])
        r = real_avc(solver, *a, acyclic=False, use_graph_primitive=True, **k2)
        nat = [c for c in solver.attrs["constraints"][before:] if isinstance(c, Obj) and isinstance(c.attrs.get("op"), Tag)
               and c.attrs["op"].name.endswith("GRAPH_ACTIVE_VERTICES_CONNECTED")]
        if len(nat) != 1:
            raise Undecided("active_vertices_connected(acyclic=True): the connectivity operator was not found for the stand-in")
        w.cw.method(solver, "ensure")(Obj(["BoolExpr", "Expr"], op=Tag("Op.X_ACTIVE_ACYCLIC"), operands=list(nat[0].attrs["operands"]), name="X_ACTIVE_ACYCLIC"))
        return r

    w.cw.genv["active_vertices_connected"] = avc
    w.cw.genv["graph.active_vertices_connected"] = avc


def _job(args) -> Tuple[str, str, int]:
    root, overrides, idx, tier = args[:4]
    native = args[4] if len(args) > 4 else True
    from .c11 import SolverWorld, variables_of  # late import: c11 imports this module's run hook

    repo = Repo(root, overrides)
    name, a, kw, rule = instances(tier)[idx]
    kw = dict(kw)
    sound_only = bool(kw.pop("__sound_only__", False))
    budget_override = kw.pop("__budget__", None)
    fn = f"solve_{name}"
    label = f"{fn}{_brief(a)}{' ' + str(kw) if kw else ''}"
    try:
        # graph constraints are posted as the native operators (their documented meaning is evaluated directly); that the
        # rank encodings used otherwise mean the same is what C04-C07 decide, that only the flag chooses is C20's CFG-4
        w = SolverWorld(repo, name, primitives=native)
        w.cw.ev.strict_index = False
        if native:
            _install_group_standin(w)
        else:
            label += " [with the rank encodings of graph.py instead of the native operators]"
        res = w.cw.call(fn, *a, **kw)
        if not isinstance(res, tuple) or len(res) < 2 or len(w.solvers) != 1:
            return "undecided", f"{label}: unexpected result shape", 0
        vs: List[Any] = []
        for cont in res[1:]:
            part = variables_of(w, cont)
            if part is None:
                return "undecided", f"{label}: the answer is not made of variables", 0
            vs += part
        ids = [v.attrs["id"] for v in vs]
        posted = _Posted(w.solvers[0])
        ext = Extender(posted, (budget_override or (100.0 if tier != "quick" else 40.0)) if native else (30.0 if tier != "quick" else 5.0))
        if getattr(rule, "custom", False):
            return rule(a, kw, ids, posted, ext, label)
        ok = rule(*a, **kw)
        want_n = getattr(ok, "arity", None)
        if want_n is None and getattr(ok, "domains", None) is not None:
            want_n = len(ok.domains)
        if want_n is not None and want_n != len(ids):
            return "bad", f"{label}: the answer consists of {len(ids)} variables, the problem has {want_n} answer positions", 0
        doms = [posted.domains()[i] for i in ids]
        solver_doms = list(doms)
        own = [set(d) for d in doms]
        want_doms = getattr(ok, "domains", None)
        if want_doms is not None and len(want_doms) == len(doms):
            # enumerate over the rule's value range too: values the solver's variable cannot take are rejected by it
            doms = [sorted(set(d) | set(wd), key=lambda v: (not isinstance(v, bool), v)) for d, wd in zip(doms, want_doms)]
        n = 0
        if sound_only:
            # the answer space is too large to enumerate: list the answers the posted constraints admit (depth-first over the answer
            # variables, each prefix kept only if it still extends) and require each to obey the rules; rule-obeying grids that the
            # constraints reject are not looked for on this instance
            found: List[Tuple[Any, ...]] = []

            def dfs(k: int, part: Dict[int, Any]) -> None:
                nonlocal n
                if k == len(ids):
                    found.append(tuple(part[i] for i in ids))
                    return
                for v in solver_doms[k]:
                    part[ids[k]] = v
                    n += 1
                    if ext.sat(dict(part)):
                        dfs(k + 1, part)
                    del part[ids[k]]

            dfs(0, {})
            for pat in found:
                if not ok(pat):
                    return "bad", f"{label}: the posted constraints admit the answer {_show(pat)} which the published rules reject", n
            return "ok", label + f" [{len(found)} admitted answers, each obeys the rules]", n
        n_sol = 0
        for pat in itertools.product(*doms):
            n += 1
            got = all(v in o for v, o in zip(pat, own)) and ext.sat(dict(zip(ids, pat)))
            want = ok(pat)
            n_sol += bool(want)
            if got != want:
                return "bad", (f"{label}: the posted constraints {'admit' if got else 'reject'} the answer {_show(pat)} "
                               f"which the published rules {'reject' if got else 'admit'}"), n
        return "ok", label + f" [{n_sol} rule-obeying grids]", n
    except TimeoutError:
        if not native:
            return "skipped", f"{label}: enumeration budget exceeded", 0  # the native run is the deciding one
        return "undecided", f"{label}: enumeration budget exceeded", 0
    except Undecided as ex:
        return "undecided", f"{label}: {ex}", 0
    except (Raised, IndexOutOfRange) as ex:
        return "bad", f"{label}: raises {ex}", 0


def _brief(a: Any) -> str:
    s = repr(a).replace(" ", "")
    return s if len(s) < 150 else s[:147] + "..."


def _show(pat: Sequence[Any]) -> str:
    if all(isinstance(b, bool) for b in pat):
        return "".join("#" if b else "." for b in pat)
    return " ".join(("#" if b else ".") if isinstance(b, bool) else str(b) for b in pat)


def run(repo: Repo, rep: Report, only: Optional[List[str]] = None) -> None:
    rep.rule("PZ-X", "for the puzzles with compact published rules: on every tiny instance the answers the posted constraints admit "
                     "are exactly the grids that obey the rules (brute force over all answers; rules transcribed in pzx.py)")
    insts = instances(rep.tier)
    jobs = [(repo.root, repo.overrides, i, rep.tier) for i in range(len(insts)) if only is None or insts[i][0] in only]
    if only is not None:
        insts = [t for t in insts if t[0] in only]
    # the tiniest boards (at most four cells) once more with config.use_graph_primitive off: there the solver's answers are decided
    # through the rank encodings themselves, so a defect of the shared encodings shows in the puzzle that relies on it (on larger boards
    # this is the composition with C04-C07)
    all_insts = instances(rep.tier)
    tiny = [i for i, (nm, a, _k, _r) in enumerate(all_insts) if (only is None or nm in only) and len(a) >= 2
            and isinstance(a[0], int) and isinstance(a[1], int) and not isinstance(a[0], bool) and a[0] * a[1] <= 4 and not getattr(_r, "custom", False)]
    jobs += [(repo.root, repo.overrides, i, rep.tier, False) for i in tiny]
    insts = insts + [all_insts[i] for i in tiny]
    with ProcessPoolExecutor(max_workers=16) as ex:
        results = list(ex.map(_job, jobs))
    per: Dict[str, List[Tuple[str, str, int]]] = {}
    for (name, _a, _k, _r), r in zip(insts, results):
        per.setdefault(name, []).append(r)
    for name, rs in per.items():
        file, fn = f"cspuz/puzzle/{name}.py", f"solve_{name}"
        rep.saw(file, fn)
        bad = [r for r in rs if r[0] == "bad"]
        und = [r for r in rs if r[0] == "undecided"]
        rs = [r for r in rs if r[0] != "skipped"]
        if bad:
            rep.finding("PZ-X", file, fn, f"{fn} rules", bad[0][1])
        elif und:
            rep.undecide("PZ-X", und[0][1])
        else:
            import re as _re
            sols = [int(m_.group(1)) for r in rs for m_ in [_re.search(r"\[(\d+) rule-obeying grids\]", r[1])] if m_]
            if sols and not any(sols) and only is None:
                # every instance of this puzzle is unsatisfiable by the rules: agreement of two empty sets says next to nothing
                rep.undecide("PZ-X", f"{fn}: none of its {len(sols)} instances has a rule-obeying grid - the comparison is vacuous")
                continue
            rep.ok("PZ-X", f"{fn}: admitted answers == rule-obeying grids on {len(rs)} instances ({sum(r[2] for r in rs)} answers decided; "
                           f"{sum(1 for x in sols if x)} instances with solutions, {sum(sols)} rule-obeying grids in all)",
                   points=sum(r[2] for r in rs), sample=True)
    if only is None:
        rep.floor("PZ-X", 10)
    rep.assume("PZ-X covers " + ", ".join(sorted(per)) + " on boards of at most 12 answer variables; the other bundled solvers' rules "
               "(and all larger boards) are compared with nothing")
