"""C01 - find_answer decides satisfiability and leaves a genuine model (structural clauses)."""
from ..core.findings import Report
from ..core.loader import Repo
from . import exprmodel, opc, z3m


def run(repo: Repo, rep: Report) -> None:
    opc.check_z3_translator(repo, rep)
    world = exprmodel.ExprWorld(repo)
    opc.check_scalar_dunders(repo, rep, world)
    opc.check_helpers(repo, rep, world)
    z3m.check_z3_backend(repo, rep)
    z3m.check_variable_identity(repo, rep)
    z3m.check_tree_immutability(repo, rep)
    z3m.check_posting(repo, rep)
    z3m.check_declarations(repo, rep)
