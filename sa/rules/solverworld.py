"""A class-aware world over cspuz/solver.py: `self.<helper>()` inside Solver methods resolves along the
repository's own class, so the rules follow a method that was split into helpers."""

from __future__ import annotations

from typing import Any, Dict, Optional

from ..core.classworld import ClassWorld
from ..core.fde import Obj, Tag
from ..core.loader import Repo

SOLVER = "cspuz/solver.py"


def solver_world(repo: Repo, pre_env: Optional[Dict[str, Any]] = None, extra_funcs: Optional[Dict[str, Any]] = None) -> ClassWorld:
    env: Dict[str, Any] = {"warnings": Tag("warnings"), "warnings.warn": lambda *a, **k: None, "config": Tag("config"),
                           "backend": Tag("backend")}
    env.update(pre_env or {})
    return ClassWorld([repo.mod(SOLVER)], extra_funcs, pre_env=env)


def solver_self(cw: ClassWorld, **attrs: Any) -> Obj:
    return cw.adopt(Obj(["Solver"], **attrs), "Solver")
