"""A class-aware world over cspuz/solver.py: `self.<helper>()` inside Solver methods resolves along the
repository's own class, so the rules follow a method that was split into helpers."""

from __future__ import annotations

from typing import Any, Dict, Optional

from ..core.classworld import ClassWorld
from ..core.fde import Obj, Tag
from ..core.loader import Repo

SOLVER = "cspuz/solver.py"


def solver_world(repo: Repo, pre_env: Optional[Dict[str, Any]] = None, extra_funcs: Optional[Dict[str, Any]] = None) -> ClassWorld:
    env: Dict[str, Any] = {"warnings": Tag("warnings"), "warnings.warn": lambda *a, **k: None, "config": Tag("config"),
                           "backend": backend_package()}
    env.update(pre_env or {})
    return ClassWorld([repo.mod(SOLVER)], extra_funcs, pre_env=env)


def solver_self(cw: ClassWorld, **attrs: Any) -> Obj:
    return cw.adopt(Obj(["Solver"], **attrs), "Solver")


BACKEND_CLASSES = {"sugar_like": ("SugarBackend", "SugarExtendedBackend", "CSugarBackend", "EnigmaCSPBackend", "CspuzCoreBackend"), "z3": ("Z3Backend",)}


def backend_package(ctor_of=None) -> Obj:
    """the `backend` package as seen from solver.py: sub-modules as objects whose attributes are the backend classes (opaque class
    tags by default, or what `ctor_of(class name)` returns), so that `backend.z3.Z3Backend` and `getattr(getattr(backend, m), c)` agree"""
    pkg = Obj(["module"], name="backend")
    for modname, classes in BACKEND_CLASSES.items():
        m = Obj(["module"], name=f"backend.{modname}")
        for c in classes:
            m.attrs[c] = ctor_of(c) if ctor_of else Tag(f"backend.{modname}.{c}")
        pkg.attrs[modname] = m
    return pkg
