"""C04 - active_vertices_connected (rank/root encoding, native gating, grid inference)."""

from __future__ import annotations

import itertools
from typing import Any, Dict, List, Optional, Set, Tuple

from ..core.fde import IndexOutOfRange, Obj, Raised, Undecided
from ..core.findings import Report
from ..core.loader import Repo
from . import c20, graphnative
from .encodings import GRAPHS, Canon, Instance, RefArray, compare, projection, show
from .graphnative import GRAPH


def adjacency(n: int, edges: List[Tuple[int, int]]) -> List[List[int]]:
    inc: List[List[int]] = [[] for _ in range(n)]
    for a, b in edges:
        inc[a].append(b)
        inc[b].append(a)
    return inc


def connected_sets(n: int, edges: List[Tuple[int, int]], tree: bool) -> Set[Tuple[bool, ...]]:
    out = set()
    adj = adjacency(n, edges)
    for pat in itertools.product([False, True], repeat=n):
        act = [i for i in range(n) if pat[i]]
        if not act:
            out.add(pat)
            continue
        seen = {act[0]}
        st = [act[0]]
        while st:
            v = st.pop()
            for u in adj[v]:
                if pat[u] and u not in seen:
                    seen.add(u)
                    st.append(u)
        if len(seen) != len(act):
            continue
        if tree:
            m = sum(1 for a, b in edges if pat[a] and pat[b])
            if m != len(act) - 1:
                continue
        out.add(pat)
    return out


def ref_vertices_connected(n: int, edges: List[Tuple[int, int]], acyclic: bool, act=None, prefix: str = ""):
    cn = Canon({})
    A = act or (lambda i: ("A", i))  # noqa: E731
    R = lambda i: (prefix + "rank", i)  # noqa: E731
    Z = lambda i: (prefix + "root", i)  # noqa: E731
    adj = adjacency(n, edges)

    def cons() -> List[Tuple]:
        out = []
        for i in range(n):
            terms = [("b2i", cn.nary("and", [cn.cmp("<", R(j), R(i)), A(j)])) for j in adj[i]] + [("b2i", Z(i))]
            cnt = cn.add(terms)
            if acyclic:
                for j in adj[i]:
                    if i < j:
                        out.append(cn.cmp("!=", R(j), R(i)))
                out.append(cn.nary("or", [cn.neg(A(i)), cn.cmp("==", cnt, ("c", 1))]))
            else:
                out.append(cn.nary("or", [cn.neg(A(i)), cn.cmp(">=", cnt, ("c", 1))]))
        out.append(cn.cmp("<=", cn.add([("b2i", Z(i)) for i in range(n)]), ("c", 1)))
        return out

    return [RefArray(prefix + "rank", "i", n, need=n), RefArray(prefix + "root", "b", n)], cons


def check_encoding(repo: Repo, rep: Report) -> None:
    rep.rule("ENC-S", "the posted constraint set equals the reference schema of the rank/root encoding on every small graph (deviations are triaged by projection)")
    rep.saw(GRAPH, "_active_vertices_connected")
    xitems: List[Any] = []
    for acyclic in (False, True):
        deviating = []
        specs_: Dict[int, Any] = {}
        n_ok = 0
        try:
            for gname, n, edges in GRAPHS:
              # activity flags as the caller's variables, and with Python constants among them
              variants: List[Tuple[Dict[int, bool], str]] = [({}, "")]
              if n >= 2:
                  variants += [({0: True}, ", vertex 0 given as the constant True"), ({n - 1: False}, f", vertex {n - 1} given as the constant False")]
              if 2 <= n <= 4:
                  variants.append(({"neg": True}, ", flags given as negated variables"))  # type: ignore[dict-item]
              for consts, note in variants:
                inst = Instance(repo)
                act = inst.user_bools(n, "A")
                negated = bool(consts.get("neg"))  # type: ignore[call-overload]
                if negated:
                    consts = {}
                    flags: Any = [inst.w.cw.method(v, "__invert__")() for v in act.attrs["data"]]
                else:
                    flags = act if not consts else [consts.get(k, v) for k, v in enumerate(act.attrs["data"])]
                g = inst.w.graph(n, edges)
                inst.w.call("active_vertices_connected", inst.s, flags, g, acyclic=acyclic)
                cn_ = Canon({})
                refs, cons = ref_vertices_connected(n, edges, acyclic, act=(
                    lambda i, consts=consts, negated=negated: ("c", consts[i]) if i in consts else (cn_.neg(("A", i)) if negated else ("A", i))))
                same, diff = compare(inst, refs, cons)
                spec_ = (lambda n=n, edges=edges, acyclic=acyclic, consts=consts, negated=negated: {
                    p for p in itertools.product([False, True], repeat=n)
                    if tuple((not b) if negated else consts.get(k, b) for k, b in enumerate(p)) in connected_sets(n, edges, acyclic)})
                if n <= 5:
                    xitems.append((f"graph '{gname}' {edges}, acyclic={acyclic}{note}", inst, [a for a in inst.arrays if a["user"]][0]["ids"], spec_))
                if same:
                    n_ok += 1
                else:
                    deviating.append((gname + note, n, edges, inst, diff))
                    specs_[id(inst)] = spec_
        except Undecided as ex:
            rep.undecide("ENC-S", f"active_vertices_connected(acyclic={acyclic}): {ex}")
            continue
        except (Raised, IndexOutOfRange) as ex:
            rep.finding("ENC-S", GRAPH, "_active_vertices_connected", f"acyclic={acyclic} raises", f"posting the constraint raises {ex}")
            continue
        label = f"active_vertices_connected(acyclic={acyclic})"
        if not deviating:
            rep.ok("ENC-S", f"{label}: constraint set equals the reference schema on {n_ok} graphs", points=n_ok)
            continue
        triage(rep, label, "_active_vertices_connected", deviating,
               lambda n, edges: connected_sets(n, edges, acyclic), lambda inst: [a for a in inst.arrays if a["user"]][0]["ids"],
               "active set", "connected" + (" tree" if acyclic else ""), specs=specs_)
        xitems = [x for x in xitems if f"acyclic={acyclic}" not in x[0]]
    from .encodings import cross_check

    cross_check(rep, "active_vertices_connected", "_active_vertices_connected", xitems, what="active set")


def triage(rep: Report, label: str, func: str, deviating: List[Any], spec, user_ids, what: str, meaning: str, specs=None) -> None:
    """a deviation from the reference schema: look for a witness pattern on the small instances
    (`specs`: per-instance definition sets, keyed by id(instance), for instances that are not the plain (n, edges) form)"""
    undecided = None
    for gname, n, edges, inst, diff in deviating:
        if n > 4 and len(deviating) > 1:
            continue
        proj = projection(inst, user_ids(inst))
        if proj is None:
            undecided = f"{label} on graph '{gname}': deviates from the reference schema ({diff}); projection enumeration exceeded its budget"
            continue
        want = specs[id(inst)]() if specs and id(inst) in specs else spec(n, edges)
        wrong_acc = sorted(proj - want)
        wrong_rej = sorted(want - proj)
        if wrong_acc or wrong_rej:
            w_ = wrong_acc[0] if wrong_acc else wrong_rej[0]
            rep.finding("ENC-S", GRAPH, func, f"{label} encoding",
                        f"{label} on graph '{gname}' (n={n}, edges {edges}): the constraints deviate from the reference schema ({diff}) and "
                        f"{'admit' if wrong_acc else 'reject'} the {what} {list(w_)}, which is {'not ' if wrong_acc else ''}{meaning}")
            return
    rep.undecide("ENC-S", undecided or f"{label}: constraint set deviates from the reference schema ({deviating[0][4]}) but no differing pattern was found on the small graphs")


def check_grid(repo: Repo, rep: Report) -> None:
    rep.rule("ALG-6", "grid inference: a BoolArray2D is flattened row-major and _grid_graph joins exactly the orthogonal neighbours in that numbering")
    rep.saw(GRAPH, "_grid_graph")
    try:
        bad = None
        n = 0
        for h, w in [(0, 0), (1, 1), (1, 3), (3, 1), (2, 3), (3, 2), (3, 3)]:
            n += 1
            gw = graphnative.GraphWorld(repo)
            g = gw.call("_grid_graph", h, w)
            got = sorted(tuple(sorted(e)) for e in g.attrs["edges"])
            want = sorted([(y * w + x, y * w + x + 1) for y in range(h) for x in range(w - 1)] + [(y * w + x, (y + 1) * w + x) for y in range(h - 1) for x in range(w)])
            if got != want or g.attrs["num_vertices"] != h * w:
                bad = f"_grid_graph({h}, {w}) has {g.attrs['num_vertices']} vertices and edges {got}; the row-major grid graph has {h * w} vertices and edges {want}"
                break
        if not bad:
            # the array form uses that graph with the row-major flattening of the array
            for h, w in [(2, 3), (3, 2)]:
                inst = Instance(repo, prim=True)
                arr = inst.s.attrs["bool_array"]((h, w))
                inst.arrays[-1]["user"] = "A"
                inst.w.call("active_vertices_connected", inst.s, arr)
                nat = inst.w.natives(inst.s)
                ops = nat[0].attrs["operands"] if nat else []
                ids = inst.w.var_ids(ops)
                want_ops = [h * w, h * (w - 1) + (h - 1) * w] + [v.attrs["id"] for v in arr.attrs["data"]]
                edges = list(zip(ids[2 + h * w::2], ids[3 + h * w::2]))
                want_edges = sorted([(y * w + x, y * w + x + 1) for y in range(h) for x in range(w - 1)] + [(y * w + x, (y + 1) * w + x) for y in range(h - 1) for x in range(w)])
                if ids[: 2 + h * w] != want_ops or sorted(tuple(sorted(e)) for e in edges) != want_edges:
                    bad = f"active_vertices_connected on a {h}x{w} BoolArray2D passes vertices {ids[:2 + h * w]} and edges {edges}; expected the row-major cells and the grid graph"
                    break
        if bad:
            rep.finding("ALG-6", GRAPH, "_grid_graph", "grid graph", bad)
        else:
            rep.ok("ALG-6", f"_grid_graph on {n} shapes and the BoolArray2D form agree with the row-major orthogonal grid graph", points=n)
    except Undecided as ex:
        rep.undecide("ALG-6", str(ex))
    except (Raised, IndexOutOfRange) as ex:
        rep.finding("ALG-6", GRAPH, "_grid_graph", "grid graph", f"raises {ex}")


def run(repo: Repo, rep: Report) -> None:
    from .encodings import engine_selfcheck
    engine_selfcheck(rep)
    check_encoding(repo, rep)
    check_grid(repo, rep)
    from .encodings import standard_history
    standard_history(repo, rep, "active_vertices_connected", "vertices")
    standard_history(repo, rep, "active_vertices_connected", "vertices", {"acyclic": True})
    c20.check_gating(repo, rep)
    graphnative.check_native_layout(repo, rep)
    rep.assume("the reference schema of the rank/root encoding (sa/rules/c04.py) is exact for every graph: argument in DESIGN.md C04; "
               "instances are uniform in the graph, so agreement on the eight small graphs (incl. isolated vertices, parallel edges, "
               "disconnected graphs) is taken to carry over; the native operator's meaning is the external solver's")
