"""C15 - serializer combinators round-trip every value they accept.

RT-*   serialize -> deserialize on boundary-value grids.  The integer grids are *computed* from the
       constants the combinator's own code compares against (its branch breakpoints +-1), run lengths
       from the combinator's own max-run attribute, boards include 1xN and Nx1; the produced text is
       followed by junk so that exact consumption is checked.
CDC-2  Optional[int] attributes of combinators are never tested by truthiness (0 is a legal size).
CDC-3  rooms: value recovered up to canonical order, per-room values stay attached, for every room and
       cell ordering of every connected partition of the small boards.
"""

from __future__ import annotations

import ast
import itertools
from typing import Any, Dict, List, Optional, Tuple

from ..core.fde import Obj, Raised, Undecided
from ..core.findings import Report
from ..core.loader import AnalysisError, Repo, norm, qualname, short
from .serworld import SER, SerWorld, boundary_grid, canon_rooms, connected_partitions, int_constants, same_value

BOARDS = [(1, 1), (1, 3), (3, 1), (2, 2), (2, 3), (3, 2)]


def falsy_zero(repo: Repo, rep: Report) -> None:
    rep.rule("CDC-2", "Optional[int] combinator attributes are tested with `is None`, never by truthiness")
    mod = repo.mod(SER)
    rep.saw(SER)
    n = 0
    for cname, cls in mod.classes.items():
        init = mod.funcs.get(f"{cname}.__init__")
        if init is None:
            continue
        optional: Dict[str, str] = {}
        ann = {a.arg: norm(a.annotation) for a in init.args.args if a.annotation is not None}
        for st in ast.walk(init):
            if isinstance(st, ast.Assign) and len(st.targets) == 1 and isinstance(st.targets[0], ast.Attribute) \
                    and isinstance(st.value, ast.Name) and "Optional[int]" in ann.get(st.value.id, ""):
                optional[st.targets[0].attr] = st.value.id
        if not optional:
            continue
        for q, fn in mod.funcs.items():
            if not q.startswith(cname + "."):
                continue
            for node in ast.walk(fn):
                tests: List[ast.AST] = []
                if isinstance(node, ast.BoolOp):
                    tests = node.values[:-1] if isinstance(node.op, ast.Or) else node.values
                    tests = [t for t in node.values]
                elif isinstance(node, (ast.If, ast.IfExp, ast.While)):
                    tests = [node.test]
                elif isinstance(node, ast.UnaryOp) and isinstance(node.op, ast.Not):
                    tests = [node.operand]
                for t in tests:
                    if isinstance(t, ast.Attribute) and isinstance(t.value, ast.Name) and t.value.id == "self" and t.attr in optional:
                        n += 1
                        rep.finding("CDC-2", SER, q, short(node),
                                    f"self.{t.attr} (Optional[int]) is tested by truthiness: a legal size 0 (borders of a 1xN / Nx1 board) is treated as 'not given'",
                                    node.lineno)
        for a in optional:
            rep.ok("CDC-2", f"{cname}.{a} is an Optional[int] attribute; its uses were scanned", nontrivial=False)
    rep.extra["optional_int_truthiness_sites"] = n


def _grid_values(h: int, w: int, vals: List[Any], empty: Any) -> List[List[List[Any]]]:
    """a deterministic family of h x w boards: all-empty, each single value in each corner, dense, alternating"""
    n = h * w
    out = []
    out.append([empty] * n)
    for v in vals:
        for pos in {0, n - 1, n // 2}:
            b = [empty] * n
            b[pos] = v
            out.append(b)
    dense = [vals[i % len(vals)] for i in range(n)]
    out.append(dense)
    out.append([vals[i % len(vals)] if i % 2 == 0 else empty for i in range(n)])
    out.append([vals[(i // 2) % len(vals)] if i % 3 == 2 else empty for i in range(n)])
    return [[b[r * w:(r + 1) * w] for r in range(h)] for b in out]


def check(repo: Repo, rep: Report) -> None:
    rep.rule("RT-LEAF", "leaf combinators (FixStr, Dict, DecInt, HexInt, Spaces, IntSpaces, MultiDigit) round-trip their boundary values inside Seq/Tupl/OneOf")
    rep.rule("RT-GRID", "Seq/Grid (environment and explicit sizes) round-trip boards incl. 1xN, Nx1, long empty runs, partial digit groups")
    rep.rule("RT-ROOMS", "Rooms / ValuedRooms: every connected partition of the small boards, every tested ordering, values stay attached")
    w = SerWorld(repo)
    mod = repo.mod(SER)
    rep.saw(SER)
    N = w.new

    def judge(rule: str, label: str, cases) -> None:
        bad = None
        n = 0
        try:
            for comb, value, (h, wd), desc in cases:
                n += 1
                msg = w.roundtrip(comb, value, h, wd)
                if msg:
                    bad = f"{desc}: {msg}"
                    break
        except Undecided as ex:
            rep.undecide(rule, f"{label}: {ex}")
            return
        if bad:
            rep.finding(rule, SER, label.split(" ")[0], label, bad)
        else:
            rep.ok(rule, f"{label}: {n} values round-trip with exact consumption", points=n)

    # ---- HexInt -----------------------------------------------------------------------------
    consts = int_constants(mod.func("HexInt.serialize")) | int_constants(mod.func("HexInt.deserialize"))
    hv = boundary_grid(consts | {16, 256, 4096}, 0, max(c for c in consts | {4095} if c <= 4095))
    rep.extra["hexint_grid"] = hv
    cases = [(N("Seq", N("HexInt"), 1), [v], (1, 1), f"HexInt value {v}") for v in hv]
    cases += [(N("Seq", N("HexInt"), 3), [a, b, c], (1, 1), f"HexInt sequence {[a, b, c]}")
              for a, b, c in itertools.product([0, 15, 16, 255, 256, 4095], repeat=3)]
    judge("RT-LEAF", "HexInt", cases)
    # out-of-domain values are rejected, not mangled
    try:
        for v in (-1, max(hv) + 1, "a", None):
            st, r = w.meth(N("HexInt"), "serialize", w.env(1, 1), [v], 0)
            if not (st == "ok" and r is None):
                rep.finding("RT-LEAF", SER, "HexInt.serialize", "HexInt domain", f"value {v!r} outside 0..4095 is not rejected with None ({st}: {r!r})")
                break
        else:
            rep.ok("RT-LEAF", "HexInt.serialize rejects values outside its domain", nontrivial=False)
    except Undecided as ex:
        rep.undecide("RT-LEAF", f"HexInt domain: {ex}")
    # ---- DecInt / FixStr / Dict / Tupl ---------------------------------------------------------
    cases = [(N("Tupl", N("DecInt"), N("FixStr", "/"), N("DecInt")), ([a], [], [b]), (1, 1), f"DecInt pair {a}/{b}")
             for a in (0, 9, 10, 99, 100, 12345) for b in (0, 7, 10)]
    # a fixed string as the very last thing in the text, and a multi-character one
    cases += [(N("Tupl", N("DecInt"), N("FixStr", "/")), ([a], []), (1, 1), f"DecInt {a} then a final '/'") for a in (0, 42)]
    cases += [(N("Tupl", N("FixStr", "ab"), N("DecInt"), N("FixStr", "xyz")), ([], [a], []), (1, 1), f"'ab' DecInt {a} 'xyz'") for a in (0, 7, 120)]
    judge("RT-LEAF", "DecInt/FixStr/Tupl", cases)
    cases = [(N("Seq", N("Dict", [1, 2, "x"], ["a", "bc", "b"]), 3), list(t), (1, 1), f"Dict sequence {t}")
             for t in itertools.product([1, 2], repeat=3)]
    judge("RT-LEAF", "Dict", cases)
    # ---- Spaces -------------------------------------------------------------------------------
    for smallest, space in (("g", 0), ("a", ".."), ("z", -1), ("1", 0)):
        sp = N("Spaces", space, smallest)
        mx = sp.attrs.get("_max_consecutive")
        if not isinstance(mx, int) or mx < 1:
            rep.undecide("RT-LEAF", f"Spaces({smallest!r}) has no integer _max_consecutive")
            continue
        runs = sorted({1, 2, mx - 1, mx, mx + 1, 2 * mx, 2 * mx + 1} - {0, -1})
        cases = []
        other = 7 if space != 7 else 8
        base = lambda: N("OneOf", N("Spaces", space, smallest), N("Dict", [other], ["#"]))  # noqa: E731
        for r in runs:
            for pre, post in ((0, 0), (1, 0), (0, 1), (1, 1)):
                data = [other] * pre + [space] * r + [other] * post
                cases.append((N("Seq", base(), len(data)), data, (1, 1), f"Spaces({smallest!r}) run of {r} with {pre} before/{post} after"))
            data = [space] * r + [other] + [space] * r
            cases.append((N("Seq", base(), len(data)), data, (1, 1), f"Spaces({smallest!r}) two runs of {r}"))
        judge("RT-LEAF", f"Spaces smallest={smallest!r}", cases)
    # ---- IntSpaces ----------------------------------------------------------------------------
    for mi, ms in ((4, 2), (0, 3), (5, 5), (35, 0)):
        cases = []
        mk = lambda: N("OneOf", N("Spaces", -1, "g" if (mi + 1) * (ms + 1) <= 16 else "z"), N("IntSpaces", -1, mi, ms))  # noqa: E731
        if (mi + 1) * (ms + 1) > 16:
            mk = lambda: N("IntSpaces", -1, mi, ms)  # noqa: E731
        for v in sorted(x for x in {0, 1, mi - 1, mi} if 0 <= x <= mi):
            for k in range(0, ms + 3):
                if (mi + 1) * (ms + 1) > 16 and k > ms:
                    continue
                data = [v] + [-1] * k + [min(1, mi)]
                cases.append((N("Seq", mk(), len(data)), data, (1, 1), f"IntSpaces(max_int={mi}, max_num_spaces={ms}) value {v} followed by {k} spaces"))
        judge("RT-LEAF", f"IntSpaces max_int={mi} max_num_spaces={ms}", cases)
    # ---- MultiDigit ---------------------------------------------------------------------------
    for base_, digits in ((3, 3), (2, 5), (6, 2), (36, 1)):
        cases = []
        for n in range(1, 2 * digits + 2):
            vals = [list(t) for t in itertools.product(range(min(base_, 3)), repeat=min(n, 4))]
            for t in vals[:40]:
                data = (t * n)[:n]
                data[-1] = base_ - 1
                cases.append((N("Seq", N("MultiDigit", base_, digits), n), data, (1, 1), f"MultiDigit({base_},{digits}) {n} digits {data}"))
        judge("RT-LEAF", f"MultiDigit base={base_} digits={digits}", cases)
    # ---- OneOf: a later alternative whose tokens begin with characters HexInt never writes (capital letters, g..z, punctuation) ----
    toks = ["A", "B", "F", "G", "Z", "x", "#", "_"]
    alt = lambda: N("OneOf", N("HexInt"), N("Dict", [-(k + 2) for k in range(len(toks))], list(toks)))  # noqa: E731
    cases = []
    for k in range(len(toks)):
        cases.append((N("Seq", alt(), 3), [5, -(k + 2), 255], (1, 1), f"Seq(OneOf(HexInt, Dict(..{toks[k]!r}..)), 3) value [5, {-(k + 2)}, 255]"))
    cases.append((N("Seq", alt(), len(toks)), [-(k + 2) for k in range(len(toks))], (1, 1), "Seq(OneOf(HexInt, Dict(capital and other tokens))) all tokens"))
    judge("RT-LEAF", "OneOf(HexInt, Dict with tokens outside HexInt's alphabet)", cases)
    # ---- a list of alternatives / parts shared by two combinators: a constructor does not keep (and grow) its caller's list --------
    try:
        bad = None
        for cls in ("OneOf", "Tupl"):
            common = [N("Spaces", 0, "g"), N("HexInt")]
            n0 = len(common)
            if cls == "OneOf":
                first = N("OneOf", common, N("Dict", [-2], ["."]))
                second = N("OneOf", common, N("Dict", [-1], ["."]))
                msg = w.roundtrip(N("Seq", second, 3), [5, -1, 0], 1, 1)
            else:
                first = N("Tupl", common, N("FixStr", "/"))
                second = N("Tupl", common, N("DecInt"))
                msg = w.roundtrip(second, ([0], [17], [4]), 1, 1)
            if len(common) != n0:
                bad = f"{cls}(common, x): the caller's list `common` has {len(common)} items after two combinators were built from it (it had {n0})"
            elif msg:
                bad = f"two {cls} combinators built from one shared list of parts, the second one: {msg}"
            if bad:
                break
        if bad:
            rep.finding("RT-LEAF", SER, "OneOf", "shared list of alternatives", bad)
        else:
            rep.ok("RT-LEAF", "OneOf / Tupl built from a shared list of parts: the list is left alone and the second combinator round-trips", nontrivial=False)
    except Undecided as ex:
        rep.undecide("RT-LEAF", f"shared list of alternatives: {ex}")
    # ---- Grid ---------------------------------------------------------------------------------
    for (h, wd) in [(1, 1), (1, 4), (4, 1), (2, 3), (5, 9)]:
        cases = []
        for board in _grid_values(h, wd, [1, 15, 16, 255, 256, 4095], 0):
            cases.append((N("Grid", N("OneOf", N("Spaces", 0, "g"), N("HexInt"))), board, (h, wd), f"Grid(env {h}x{wd}) board {board}"))
            cases.append((N("Grid", N("OneOf", N("Spaces", 0, "g"), N("HexInt")), h, wd), board, (7, 7), f"Grid(explicit {h}x{wd}) board {board}"))
        for board in _grid_values(h, wd, [0, 1, 2], 0)[:6]:
            cases.append((N("Grid", N("MultiDigit", 3, 3)), board, (h, wd), f"Grid(MultiDigit(3,3)) {h}x{wd} board {board}"))
        judge("RT-GRID", f"Grid {h}x{wd}", cases)
    # explicit zero-extent grids (used by Rooms for 1xN boards)
    cases = [(N("Grid", N("MultiDigit", 2, 5), 0, 3), [], (4, 4), "Grid(height=0, width=3) empty value"),
             (N("Grid", N("MultiDigit", 2, 5), 2, 0), [[], []], (4, 4), "Grid(height=2, width=0) value [[], []]")]
    # elements that are written as the empty string (an empty inner sequence, a zero-extent grid, the rooms of a 1x1 board) repeated in
    # a Seq: progress is counted in items, not in characters
    cases += [(N("Seq", N("Seq", N("HexInt"), 0), 3), [[], [], []], (1, 1), "Seq(Seq(HexInt, 0), 3) value [[], [], []]"),
              (N("Seq", N("Grid", N("MultiDigit", 2, 5), 2, 0), 2), [[[], []], [[], []]], (4, 4), "Seq(Grid(height=2, width=0), 2)"),
              (N("Seq", N("Rooms"), 2), [[[(0, 0)]], [[(0, 0)]]], (1, 1), "Seq(Rooms(), 2) on a 1x1 board"),
              (N("Tupl", N("Seq", N("Seq", N("HexInt"), 0), 2), N("DecInt")), ([[[], []]], [12]), (1, 1), "Tupl(Seq(Seq(HexInt, 0), 2), DecInt)")]
    judge("RT-GRID", "Grid zero-extent", cases)
    # ---- one combinator object, boards of different sizes one after the other (the puzzle codecs are module-level constants) --------
    try:
        bad = None
        n = 0
        reused = [("Grid(OneOf(Spaces, HexInt))", N("Grid", N("OneOf", N("Spaces", 0, "g"), N("HexInt"))), "grid"),
                  ("Grid(MultiDigit(3,3))", N("Grid", N("MultiDigit", 3, 3)), "digits"),
                  ("Rooms", N("Rooms"), "rooms"),
                  ("ValuedRooms(OneOf(HexInt, Spaces))", N("ValuedRooms", N("OneOf", N("HexInt"), N("Spaces", -1, "g"))), "valued")]
        for label, comb, kind in reused:
            for (h, wd) in [(2, 2), (3, 3), (1, 4), (2, 3), (1, 1), (3, 2), (2, 2)]:
                n += 1
                if kind == "grid":
                    value: Any = [[(1 + 15 * ((y * wd + x) % 3)) if (y + x) % 2 else 0 for x in range(wd)] for y in range(h)]
                elif kind == "digits":
                    value = [[(y * wd + x) % 3 for x in range(wd)] for y in range(h)]
                else:
                    rooms = [[(y, x) for x in range(wd)] for y in range(h)]  # one room per row
                    value = rooms if kind == "rooms" else (rooms, [(7 * k) % 20 for k in range(h)])
                msg = w.roundtrip(comb, value, h, wd) if kind in ("grid", "digits") else _rooms_roundtrip(w, comb, value, h, wd, kind == "valued")
                if msg:
                    bad = f"one {label} object used for boards 2x2, 3x3, 1x4, 2x3, 1x1, 3x2, 2x2 in this order: at the {h}x{wd} board (use #{n}) {msg}"
                    break
            if bad:
                break
        if bad:
            rep.finding("RT-GRID", SER, "Grid", "combinator object re-used across board sizes", bad)
        else:
            rep.ok("RT-GRID", f"Grid / Rooms / ValuedRooms objects re-used for boards of different sizes: {n} uses round-trip", points=n)
    except Undecided as ex:
        rep.undecide("RT-GRID", f"re-used combinator objects: {ex}")
    # ---- Rooms / ValuedRooms ------------------------------------------------------------------
    from concurrent.futures import ProcessPoolExecutor

    boards = BOARDS + ([(3, 3), (1, 5), (4, 1)] if rep.tier == "thorough" else [])
    jobs = [(repo.root, repo.overrides, h, wd, 250 if rep.tier != "thorough" else 600) for h, wd in boards]
    with ProcessPoolExecutor(max_workers=8) as ex:
        results = list(ex.map(_rooms_job, jobs))
    for (_, _, h, wd, _), (st, msg, n) in zip(jobs, results):
        if st == "undecided":
            rep.undecide("RT-ROOMS", msg or "")
        elif st == "bad":
            rep.finding("RT-ROOMS", SER, "Rooms", f"Rooms/ValuedRooms board {h}x{wd}", msg or "")
        else:
            rep.ok("RT-ROOMS", f"board {h}x{wd}: {n // 3} connected partitions x 3 orderings round-trip (plain and valued)", points=n)
    # malformed rooms are rejected by serialize
    try:
        env = w.env(2, 2)
        for label, rs in (("overlapping", [[(0, 0), (0, 1)], [(0, 1), (1, 0), (1, 1)]]), ("incomplete", [[(0, 0)], [(1, 1)]])):
            st, r = w.meth(N("Rooms"), "serialize", env, [rs], 0)
            if st == "raise" and r == "ValueError":
                rep.ok("RT-ROOMS", f"Rooms.serialize rejects {label} rooms with ValueError", nontrivial=False)
            else:
                rep.finding("RT-ROOMS", SER, "Rooms._serialize", f"Rooms {label}", f"{label} rooms {rs} on a 2x2 board are not rejected with ValueError ({st}: {r!r})")
    except Undecided as ex:
        rep.undecide("RT-ROOMS", f"malformed rooms: {ex}")


def _rooms_roundtrip(w: SerWorld, comb: Obj, value: Any, h: int, wd: int, valued: bool) -> Optional[str]:
    env = w.env(h, wd)
    try:
        st, r = w.meth(comb, "serialize", env, [value], 0)
        if st != "ok" or r is None:
            return f"serialize gives {st} {r!r}"
        text = r[1]
        st, d = w.meth(comb, "deserialize", env, text + "~", 0)
        if st != "ok" or d is None or d[0] != len(text):
            return f"text {text!r}: deserialize gives {st} {d!r}"
        if valued:
            want = {frozenset(map(tuple, room)): v for room, v in zip(value[0], value[1])}
            got = {frozenset(map(tuple, room)): v for room, v in zip(d[1][0][0], d[1][0][1])}
            return None if got == want else f"text {text!r}: decoded {d[1][0]!r}"
        return None if canon_rooms(d[1][0]) == canon_rooms(value) else f"text {text!r}: decoded {d[1][0]!r}"
    except (TypeError, ValueError, IndexError, KeyError) as ex:
        return f"malformed result ({type(ex).__name__}: {ex})"


def _rooms_job(args) -> Tuple[str, Optional[str], int]:
    root, overrides, h, wd, limit = args
    repo = Repo(root, overrides)
    w = SerWorld(repo)
    N = w.new
    parts = connected_partitions(h, wd, limit)
    bad = None
    n = 0
    try:
        for rooms in parts:
            orders = [rooms, [list(reversed(r)) for r in reversed(rooms)], [r for r in rooms[1:]] + [rooms[0]]]
            for k, rs in enumerate(orders):
                n += 1
                env = w.env(h, wd)
                comb = N("Rooms")
                st, r = w.meth(comb, "serialize", env, [rs], 0)
                if st != "ok" or r is None:
                    return "bad", f"board {h}x{wd} rooms {rs}: serialize gives {st} {r!r}", n
                text = r[1]
                st, d = w.meth(comb, "deserialize", env, text + "~", 0)
                if st != "ok" or d is None:
                    return "bad", f"board {h}x{wd} rooms {rs} text {text!r}: deserialize gives {st} {d!r}", n
                if d[0] != len(text) or canon_rooms(d[1][0]) != canon_rooms(rs):
                    return "bad", f"board {h}x{wd} rooms {rs} text {text!r}: decoded {d[1][0]} consuming {d[0]}/{len(text)}", n
                # the same text behind other characters (a part of a Tupl never starts at position 0)
                st, d2 = w.meth(comb, "deserialize", env, "0g" + text + "~", 2)
                if st != "ok" or d2 is None or d2[0] != len(text) or canon_rooms(d2[1][0]) != canon_rooms(rs):
                    return "bad", f"board {h}x{wd} rooms {rs}: text {text!r} placed at offset 2 (after '0g') decodes as {st} {d2!r}", n
                dec = d[1][0]
                if [sorted(x) for x in dec] != [list(x) for x in dec] or sorted(dec, key=lambda x: x[0]) != dec:
                    return "bad", f"board {h}x{wd}: decoded rooms {dec} are not in canonical (row-major first cell) order", n
                vals = [(-1 if i % 3 == 2 else (i * 37) % 300) for i in range(len(rs))]
                vc = N("ValuedRooms", N("OneOf", N("HexInt"), N("Spaces", -1, "g")))
                st, r = w.meth(vc, "serialize", env, [(rs, vals)], 0)
                if st != "ok" or r is None:
                    return "bad", f"board {h}x{wd} valued rooms {rs} values {vals}: serialize gives {st} {r!r}", n
                text = r[1]
                st, d = w.meth(vc, "deserialize", env, text + "~", 0)
                if st != "ok" or d is None:
                    return "bad", f"board {h}x{wd} valued rooms {rs} text {text!r}: deserialize gives {st} {d!r}", n
                drooms, dvals = d[1][0]
                want = {frozenset(map(tuple, room)): v for room, v in zip(rs, vals)}
                got = {frozenset(map(tuple, room)): v for room, v in zip(drooms, dvals)}
                if d[0] != len(text) or got != want:
                    return "bad", (f"board {h}x{wd}: rooms {rs} with values {vals} come back as {list(zip(drooms, dvals))} "
                                   f"(text {text!r}, consumed {d[0]}/{len(text)}): values are not attached to the same rooms"), n
                st, d2 = w.meth(vc, "deserialize", env, "0g" + text + "~", 2)
                got2 = None
                if st == "ok" and d2 is not None:
                    got2 = {frozenset(map(tuple, room)): v for room, v in zip(d2[1][0][0], d2[1][0][1])}
                if st != "ok" or d2 is None or d2[0] != len(text) or got2 != want:
                    return "bad", (f"board {h}x{wd}: valued rooms {rs} / {vals}: text {text!r} placed at offset 2 (after '0g') decodes as "
                                   f"{st} {d2!r}; at offset 0 it decodes correctly"), n
    except Undecided as ex:
        return "undecided", f"{h}x{wd}: {ex}", n
    except (TypeError, ValueError, IndexError, KeyError) as ex:
        return "bad", f"board {h}x{wd}: malformed result ({type(ex).__name__}: {ex})", n
    return "ok", None, n


def run(repo: Repo, rep: Report) -> None:
    falsy_zero(repo, rep)
    check(repo, rep)
    rep.floor("RT-LEAF", 10)
    rep.assume("hex()/int(.., base)/str()/str slicing are Python's; the value grids are the branch breakpoints of the combinators' own code +-1")
