"""C06 - active_edges_single_cycle / single_path (degree + rank/root schema, primitive schema, frame form)."""

from __future__ import annotations

import itertools
import time
from typing import Any, Dict, List, Optional, Set, Tuple

from ..core.fde import IndexOutOfRange, Obj, Raised, Undecided
from ..core.findings import Report
from ..core.loader import Repo
from . import c14, c20
from .encodings import work_now, GRAPHS, Canon, Instance, RefArray, compare, projection
from .graphnative import GRAPH


def incidence(n: int, edges: List[Tuple[int, int]]) -> List[List[Tuple[int, int]]]:
    inc: List[List[Tuple[int, int]]] = [[] for _ in range(n)]
    for e, (a, b) in enumerate(edges):
        inc[a].append((b, e))
        inc[b].append((a, e))
    return inc


def line_graph_pairs(n: int, edges: List[Tuple[int, int]]) -> List[Tuple[int, int]]:
    inc = incidence(n, edges)
    pairs = set()
    for v in range(n):
        es = [e for _, e in inc[v]]
        for a in es:
            for b in es:
                if a < b:
                    pairs.add((a, b))
    return sorted(pairs)


def trails(n: int, edges: List[Tuple[int, int]], want: str) -> Set[Tuple[Any, ...]]:
    """admissible (edge flags..., passed flags...) tuples: empty set, or exactly one simple cycle / path"""
    out = set()
    m = len(edges)
    for pat in itertools.product([False, True], repeat=m):
        on = [e for e in range(m) if pat[e]]
        deg = [0] * n
        for e in on:
            deg[edges[e][0]] += 1
            deg[edges[e][1]] += 1
        passed = tuple(d > 0 for d in deg)
        if not on:
            out.add(pat + passed)
            continue
        # connected (through shared vertices)
        seen = {on[0]}
        st = [on[0]]
        while st:
            e = st.pop()
            for f in on:
                if f not in seen and set(edges[e]) & set(edges[f]):
                    seen.add(f)
                    st.append(f)
        if len(seen) != len(on):
            continue
        if want == "cycle":
            if all(d in (0, 2) for d in deg):
                out.add(pat + passed)
        else:
            if all(d in (0, 1, 2) for d in deg) and sum(1 for d in deg if d == 1) == 2:
                out.add(pat + passed)
    return out


def ref_cycle(n: int, edges: List[Tuple[int, int]], native: bool, consts=None):
    cn = Canon({})
    consts = consts or {}
    E = lambda e: ("c", consts[e]) if e in consts else ("E", e)  # noqa: E731
    P = lambda i: ("passed", i)  # noqa: E731
    R = lambda i: ("rank", i)  # noqa: E731
    Z = lambda i: ("root", i)  # noqa: E731
    inc = incidence(n, edges)

    def cons() -> List[Tuple]:
        out = []
        for i in range(n):
            deg = cn.add([("b2i", E(e)) for _, e in inc[i]])
            out.append(cn.cmp("==", deg, ("ite", P(i), ("c", 2), ("c", 0))))
            if not native:
                up = cn.add([("b2i", cn.nary("and", [E(e), cn.cmp(">=", R(j), R(i))])) for j, e in inc[i]])
                out.append(cn.nary("or", [cn.neg(P(i)), cn.cmp("<=", up, ("ite", Z(i), ("c", 2), ("c", 1)))]))
        if native:
            lp = line_graph_pairs(n, edges)
            out.append(cn.native("GRAPH_ACTIVE_VERTICES_CONNECTED", [("c", len(edges)), ("c", len(lp))] + [E(e) for e in range(len(edges))]
                                 + [("c", x) for p in lp for x in p]))
        else:
            out.append(cn.cmp("==", cn.add([("b2i", Z(i)) for i in range(n)]), ("c", 1)))
        return out

    arrays = [RefArray("passed", "b", n)] + ([] if native else [RefArray("rank", "i", n, need=n), RefArray("root", "b", n)])
    return arrays, cons


def ref_path(n: int, edges: List[Tuple[int, int]], consts=None):
    cn = Canon({})
    consts = consts or {}
    E = lambda e: ("c", consts[e]) if e in consts else ("E", e)  # noqa: E731
    P = lambda i: ("passed", i)  # noqa: E731
    inc = incidence(n, edges)

    def cons() -> List[Tuple]:
        out = []
        ends = []
        for i in range(n):
            deg = cn.add([("b2i", E(e)) for _, e in inc[i]])
            out.append(cn.nary("or", [cn.neg(P(i)), cn.cmp("==", deg, ("c", 1)), cn.cmp("==", deg, ("c", 2))]))
            out.append(cn.nary("or", [P(i), cn.cmp("==", deg, ("c", 0))]))
            ends.append(("b2i", cn.cmp("==", deg, ("c", 1))))
        any_edge = cn.nary("or", [E(e) for e in range(len(edges))])
        rhs = ("ite", any_edge, ("c", 2), ("c", 0)) if any_edge[0] != "c" else ("c", 2 if any_edge[1] else 0)
        out.append(cn.cmp("==", cn.add(ends), rhs))
        lp = line_graph_pairs(n, edges)
        out.append(cn.native("GRAPH_ACTIVE_VERTICES_CONNECTED", [("c", len(edges)), ("c", len(lp))] + [E(e) for e in range(len(edges))]
                             + [("c", x) for p in lp for x in p]))
        return out

    return [RefArray("passed", "b", n)], cons


XITEMS: List[Any] = []
CONSTS: Dict[int, Dict[int, bool]] = {}


def trails_with(n: int, edges: List[Tuple[int, int]], want: str, consts: Dict[int, bool]) -> Set[Tuple[bool, ...]]:
    """the definition set when some edge flags are constants: the corresponding variables are free, the flags are forced"""
    base = trails(n, edges, want)
    if not consts:
        return base
    m = len(edges)
    out = set()
    for t in base:
        if all(t[k] == v for k, v in consts.items()):
            for free in itertools.product([False, True], repeat=len(consts)):
                u = list(t)
                for k, b in zip(sorted(consts), free):
                    u[k] = b
                out.add(tuple(u))
    return out

EXTRA_GRAPHS = [
    ("two double edges", 4, [(0, 1), (0, 1), (2, 3), (2, 3)]),
    ("double edge with two tails", 4, [(0, 1), (0, 1), (0, 2), (1, 3)]),
    ("triangle with tail", 4, [(0, 1), (1, 2), (0, 2), (2, 3)]),
]


def run_family(repo: Repo, rep: Report, label: str, fname: str, native: bool, ref, want: str) -> None:
    deviating = []
    n_ok = 0
    try:
        items = [(gname, n, edges, {}) for gname, n, edges in GRAPHS + EXTRA_GRAPHS]
        # edge flags with Python constants among them
        items += [(f"{gname}, edge 0 given as the constant True", n, edges, {0: True}) for gname, n, edges in GRAPHS if edges and n <= 4]
        items += [(f"{gname}, edge {len(edges) - 1} given as the constant False", n, edges, {len(edges) - 1: False}) for gname, n, edges in GRAPHS if edges and n <= 4]
        for gname, n, edges, consts in items:
            inst = Instance(repo, prim=native)
            act = inst.user_bools(len(edges), "E")
            flags: Any = act if not consts else [consts.get(k, v) for k, v in enumerate(act.attrs["data"])]
            g = inst.w.graph(n, edges)
            ret = inst.w.call(fname, inst.s, flags, g, use_graph_primitive=native)
            refs, cons = ref(n, edges, consts) if consts else ref(n, edges)
            same, diff = compare(inst, refs, cons)
            CONSTS[id(inst)] = consts
            # the returned array must be the `passed` array itself
            aux = inst.aux_arrays()
            ret_ids = [v.attrs.get("id") for v in ret.attrs["data"]] if isinstance(ret, Obj) and "data" in ret.attrs else None
            from .encodings import LAST_MATCH

            if same and (ret_ids is None or [LAST_MATCH.get(i) for i in ret_ids] != [("passed", k) for k in range(n)]):
                same, diff = False, f"the returned value is not the array of passed-vertex flags but {[LAST_MATCH.get(i) for i in (ret_ids or [])]}"
            if same and n <= 3 and ret_ids and all(i is not None for i in ret_ids):
                XITEMS.append((f"{label}, graph '{gname}' {edges}", inst, [a for a in inst.arrays if a["user"]][0]["ids"] + ret_ids,
                               (lambda n=n, edges=edges, want=want, consts=consts: trails_with(n, edges, want, consts))))
            if same:
                n_ok += 1
            else:
                deviating.append((gname, n, edges, inst, diff, ret_ids))
    except Undecided as ex:
        rep.undecide("ENC-S", f"{label}: {ex}")
        return
    except (Raised, IndexOutOfRange) as ex:
        rep.finding("ENC-S", GRAPH, "_" + fname, f"{label} raises", f"posting the constraint raises {ex}")
        return
    if not deviating:
        rep.ok("ENC-S", f"{label}: constraint set equals the reference schema on {n_ok} graphs and the passed-vertex array is returned", points=n_ok)
        return
    undecided = None
    t0 = work_now()
    for gname, n, edges, inst, diff, ret_ids in sorted(deviating, key=lambda d: (d[1] > 4, len(d[2]), d[1])):
        if work_now() - t0 > 40:
            break
        if ret_ids is None or any(i is None for i in ret_ids):
            rep.finding("ENC-S", GRAPH, "_" + fname, f"{label} result", f"{label} on graph '{gname}': {diff}")
            return
        user = [a for a in inst.arrays if a["user"]][0]["ids"] + ret_ids
        proj = projection(inst, user, budget_s=4.0)
        if proj is None:
            undecided = f"{label} on graph '{gname}': deviates from the reference schema ({diff}); projection enumeration exceeded its budget"
            continue
        spec = trails_with(n, edges, want, CONSTS.get(id(inst), {}))
        acc, rej = sorted(proj - spec), sorted(spec - proj)
        if acc or rej:
            w_ = acc[0] if acc else rej[0]
            m = len(edges)
            rep.finding("ENC-S", GRAPH, "_" + fname, f"{label} encoding",
                        f"{label} on graph '{gname}' (n={n}, edges {edges}): the constraints deviate from the reference schema ({diff}) and "
                        f"{'admit' if acc else 'reject'} edge flags {list(w_[:m])} with passed-vertex flags {list(w_[m:])}, "
                        f"which is {'not ' if acc else ''}{'the empty set or exactly one simple ' + want + ' with its visited vertices'}")
            return
    rep.undecide("ENC-S", undecided or f"{label}: deviates from the reference schema ({deviating[0][4]}) but no differing pattern was found on the small graphs")


def frame_form(repo: Repo, rep: Report) -> None:
    rep.rule("ALG-9", "frame form: edges and lattice graph come from _from_grid_frame; the result is the passed array reshaped to (height+1, width+1)")
    try:
        bad = None
        k = 0
        for fname, native in (("active_edges_single_cycle", False), ("active_edges_single_cycle", True), ("active_edges_single_path", True)):
            for H, W in ((1, 1), (1, 2), (2, 1)):
                k += 1
                inst = Instance(repo, prim=native)
                fr = inst.w.cw.new("BoolGridFrame", inst.s, H, W)
                # the frame's two arrays are the caller's variables
                inst.arrays[-2]["user"] = "H"
                inst.arrays[-1]["user"] = "V"
                ret = inst.w.call(fname, inst.s, fr, use_graph_primitive=native)
                if not (isinstance(ret, Obj) and ret.attrs.get("__class__") == "BoolArray2D" and tuple(ret.attrs["shape"]) == (H + 1, W + 1)):
                    bad = f"{fname} on a {H}x{W} frame returns {getattr(ret, 'attrs', {}).get('__class__')} of shape {getattr(ret, 'attrs', {}).get('shape')}, expected BoolArray2D {(H + 1, W + 1)}"
                    break
                # the reference on the lattice graph with the edge order of _from_grid_frame
                w2 = Instance(repo)
                fr2 = w2.w.cw.new("BoolGridFrame", w2.s, H, W)
                edges_vars, graph = w2.w.call("_from_grid_frame", fr2)
                lattice_edges = [tuple(e) for e in graph.attrs["edges"]]
                # rename the frame's variables to edge positions
                ids_h = [v.attrs["id"] for v in fr.attrs["horizontal"].attrs["data"]]
                ids_v = [v.attrs["id"] for v in fr.attrs["vertical"].attrs["data"]]
                ids2_h = [v.attrs["id"] for v in fr2.attrs["horizontal"].attrs["data"]]
                ids2_v = [v.attrs["id"] for v in fr2.attrs["vertical"].attrs["data"]]
                pos = {}
                for e, v in enumerate(edges_vars):
                    vid = v.attrs["id"]
                    real = ids_h[ids2_h.index(vid)] if vid in ids2_h else ids_v[ids2_v.index(vid)]
                    pos[real] = e
                for a in inst.arrays:
                    if a["user"] in ("H", "V"):
                        a["user_map"] = {vid: ("E", pos[vid]) for vid in a["ids"]}
                refs, cons = (ref_path((H + 1) * (W + 1), lattice_edges) if "path" in fname else ref_cycle((H + 1) * (W + 1), lattice_edges, native))
                same, diff = compare(inst, refs, cons)
                if not same:
                    bad = f"{fname} on a {H}x{W} frame (primitive={native}): {diff}"
                    break
            if bad:
                break
        # the method form BoolGridFrame.single_loop() is that call on the frame's own solver
        if not bad:
            from .encodings import tree_sig
            for H, W in ((1, 1), (1, 2), (2, 1)):
                k += 1
                a, b = Instance(repo), Instance(repo)
                fa, fb = a.w.cw.new("BoolGridFrame", a.s, H, W), b.w.cw.new("BoolGridFrame", b.s, H, W)
                ra = a.w.call("active_edges_single_cycle", a.s, fa)
                rb = b.w.cw.method(fb, "single_loop")()
                if [tree_sig(c) for c in a.constraints()] != [tree_sig(c) for c in b.constraints()] or tree_sig(ra) != tree_sig(rb):
                    bad = (f"BoolGridFrame({H}x{W}).single_loop() posts {[tree_sig(c) for c in b.constraints()][:3]}... and returns {tree_sig(rb)[:60]}; "
                           f"active_edges_single_cycle(solver, frame) posts {[tree_sig(c) for c in a.constraints()][:3]}... and returns {tree_sig(ra)[:60]}")
                    break
        if bad:
            rep.finding("ALG-9", GRAPH, "active_edges_single_cycle", "frame form", bad)
        else:
            rep.ok("ALG-9", f"{k} frame instances: reference schema on the lattice graph of _from_grid_frame, result reshaped to (H+1, W+1)", points=k)
    except Undecided as ex:
        rep.undecide("ALG-9", str(ex))
    except (Raised, IndexOutOfRange) as ex:
        rep.finding("ALG-9", GRAPH, "active_edges_single_cycle", "frame form", f"raises {ex}")


def run(repo: Repo, rep: Report) -> None:
    from .encodings import engine_selfcheck
    engine_selfcheck(rep)
    rep.rule("ENC-S", "single cycle / single path post the reference degree + rank/root (or degree + line-graph connectivity) schema and return the passed-vertex array (deviations triaged by projection)")
    rep.saw(GRAPH, "_active_edges_single_cycle")
    run_family(repo, rep, "active_edges_single_cycle(auxiliary route)", "active_edges_single_cycle", False, lambda n, e, c=None: ref_cycle(n, e, False, c), "cycle")
    run_family(repo, rep, "active_edges_single_cycle(primitive route)", "active_edges_single_cycle", True, lambda n, e, c=None: ref_cycle(n, e, True, c), "cycle")
    run_family(repo, rep, "active_edges_single_path(primitive route)", "active_edges_single_path", True, ref_path, "path")
    if XITEMS and not rep.findings and not rep.undecided:
        from .encodings import cross_check

        cross_check(rep, "single cycle / single path", "_active_edges_single_cycle", list(XITEMS), total_budget_s=10.0, what="(edge flags, passed flags)")
    XITEMS.clear()
    frame_form(repo, rep)
    from .encodings import standard_history
    standard_history(repo, rep, "active_edges_single_cycle", "edges")
    standard_history(repo, rep, "active_edges_single_path", "edges", grid=False, prim=True)  # the only implemented route
    c14.check(repo, rep)
    rep.assume("reference schemas are exact (DESIGN.md C06); the frame->graph conversion is the one C14 decides; native connectivity is the external solver's")
