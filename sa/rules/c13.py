"""C13 - array indexing and slicing follow Python nested-list semantics.

SLC-V  vocabulary check: the slice normaliser only compares/combines start, stop, size, 0 with unit
       coefficients (piecewise-linear with a known finite breakpoint family) - this is what makes the
       finite grid of SLC-G a complete quotient for the normaliser (small-model argument, DESIGN C13).
SLC-2  _range_size is a ceiling division (symbolic identity on numerator/denominator).
SLC-G  finite-domain evaluation of __getitem__ (1-D and 2-D), flatten, reshape against Python's own
       list-of-lists indexing on every grid point.
SLC-3  the gather offset is row-major with stride shape[1].
"""

from __future__ import annotations

import ast
import itertools
from typing import Any, Dict, List, Optional, Tuple

from ..core import fde, guards as G, linear as L
from ..core.classworld import ClassWorld
from ..core.fde import OneShot, IndexOutOfRange, Obj, Raised, Tag, Undecided
from ..core.findings import Report
from ..core.loader import AnalysisError, Repo, dotted, norm, short

ARRAY = "cspuz/array.py"


def make_world(repo: Repo) -> ClassWorld:
    w = ClassWorld([repo.mod("cspuz/expr.py"), repo.mod(ARRAY)])
    w.genv["Op"] = Tag("Op")
    return w


class Boom(Exception):
    def __init__(self, kind: str):
        self.kind = kind


def _call(thunk) -> Tuple[str, Any]:
    try:
        return "ok", thunk()
    except Raised as ex:
        return "raise", ex.what.split("(")[0]
    except IndexOutOfRange:
        return "raise", "IndexError"


def _ref(thunk) -> Tuple[str, Any]:
    try:
        return "ok", thunk()
    except IndexError:
        return "raise", "IndexError"
    except ValueError:
        return "raise", "ValueError"
    except TypeError:
        return "raise", "TypeError"


def axis_keys(n: int) -> List[Any]:
    ints = list(range(-n - 2, n + 2))
    bounds = [None] + list(range(-n - 2, n + 3))
    steps = [None, 1, 2, 3, -1, -2, -3]
    keys: List[Any] = list(ints)
    for st in steps:
        for a in bounds:
            for b in bounds:
                keys.append(slice(a, b, st))
    return keys


def light_axis_keys(n: int) -> List[Any]:
    out: List[Any] = [0, -1, n - 1, n, -n - 1] if n > 0 else [0, -1]
    for st in (None, 2, -1, -2):
        for a in (None, 1, -1, n + 1, -n - 1):
            for b in (None, 0, -1, n + 1, -n - 2):
                out.append(slice(a, b, st))
    return out


def check(repo: Repo, rep: Report) -> None:
    rep.rule("SLC-V", "slice normaliser stays inside the piecewise-linear vocabulary that makes the grid exhaustive")
    rep.rule("SLC-2", "_range_size is a ceiling division of the signed distance by |step|; zero step rejected")
    rep.rule("SLC-G", "finite-domain evaluation of indexing/slicing/flatten/reshape equals Python list-of-lists semantics on the grid")
    rep.rule("SLC-3", "gather offset is row-major: y * shape[1] + x")
    mod = repo.mod(ARRAY)
    rep.saw(ARRAY)
    vocabulary(repo, rep)
    range_size_decide(repo, rep)
    gather(repo, rep)
    grid(repo, rep)
    rep.floor("SLC-G", 6)


# ------------------------------------------------------------------------------------------


def vocabulary(repo: Repo, rep: Report) -> None:
    mod = repo.mod(ARRAY)
    fn = mod.func("_parse_range")
    rep.saw(ARRAY, "_parse_range")
    lz = L.Linearizer()
    okay = True
    n = 0
    for node in ast.walk(fn):
        if isinstance(node, ast.Compare):
            sides = [node.left] + list(node.comparators)
            for s in sides:
                n += 1
                f = lz.lin(s)
                if isinstance(s, ast.Constant) and s.value is None:
                    continue
                if f is None or any(abs(v) > 1 for k, v in f.items() if k != L.ONE) or abs(L.cval(f)) > 2 or any(
                    L.SYMINFO.get(str(k)) for k in L.symbols(f)
                ):
                    okay = False
                    rep.undecide("SLC-V", f"comparison operand outside the unit-coefficient vocabulary: {norm(s)}")
        elif isinstance(node, ast.BinOp) and not isinstance(node.op, (ast.Add, ast.Sub)):
            okay = False
            rep.undecide("SLC-V", f"arithmetic outside +/-: {norm(node)}")
        elif isinstance(node, (ast.While, ast.For)):
            okay = False
            rep.undecide("SLC-V", "loop in the slice normaliser")
    if okay:
        rep.ok("SLC-V", f"_parse_range: {n} comparison operands, all unit-coefficient linear in start/stop/size; only +/- arithmetic")


class _Buffer:
    def __init__(self, rep: Report):
        self.rep = rep
        self.oks: List[Tuple[tuple, dict]] = []
        self.finds: List[tuple] = []
        self.undec: List[tuple] = []

    def __getattr__(self, name: str) -> Any:
        return getattr(self.rep, name)

    def ok(self, *a: Any, **k: Any) -> None:
        self.oks.append((a, k))

    def finding(self, *a: Any, **k: Any) -> None:
        self.finds.append(a)

    def undecide(self, *a: Any) -> None:
        self.undec.append(a)


def range_size_decide(repo: Repo, rep: Report) -> None:
    """SLC-2 by entailment when `_range_size` is written as a case split on the sign of step with ceiling divisions (all
    integers); otherwise by evaluating it on a grid of (start, stop, step) against len(range(...)) (steps up to +-4 only:
    weaker, said so in the evidence).  A violation needs a grid witness."""
    buf = _Buffer(rep)
    range_size(repo, buf)  # type: ignore[arg-type]
    if not buf.finds and not buf.undec:
        for a, k in buf.oks:
            rep.ok(*a, **k)
        return
    mod = repo.mod(ARRAY)
    fn = mod.func("_range_size")
    w = make_world(repo)
    bad = None
    n = 0
    try:
        for st in range(-4, 5):
            for a_ in range(-6, 7):
                for b_ in range(-6, 7):
                    n += 1
                    w.ev.steps = 0
                    got = _call(lambda: w.call("_range_size", a_, b_, st))
                    want = ("raise", "ValueError") if st == 0 else ("ok", len(range(a_, b_, st)))
                    if got != want:
                        bad = (a_, b_, st, got, want)
                        break
                if bad:
                    break
            if bad:
                break
    except Undecided as ex:
        rep.undecide("SLC-2", f"_range_size is not in the catalogued form ({'; '.join(str(f[4]) for f in buf.finds)[:200]}) and cannot be evaluated: {ex}")
        return
    if bad:
        rep.finding("SLC-2", ARRAY, "_range_size", "length of a slice",
                    f"_range_size({bad[0]}, {bad[1]}, {bad[2]}) gives {bad[3]}, the number of indices of range({bad[0]}, {bad[1]}, {bad[2]}) is {bad[4]}", fn.lineno)
        for f in buf.finds:
            rep.finding(*f)
        return
    # vocabulary: additions, negations, floor division / modulo, comparisons, min/max/abs - no other calls, no constants beyond -1, 0, 1
    odd = []
    for node in ast.walk(fn):
        if isinstance(node, ast.Call) and dotted(node.func) not in ("ValueError", "min", "max", "abs", "len", "range", "divmod"):
            odd.append(norm(node))
        if isinstance(node, ast.Constant) and isinstance(node.value, int) and not isinstance(node.value, bool) and abs(node.value) > 1:
            odd.append(repr(node.value))
        if isinstance(node, ast.BinOp) and not isinstance(node.op, (ast.Add, ast.Sub, ast.FloorDiv, ast.Mod, ast.Mult)):
            odd.append(norm(node))
    if odd:
        rep.undecide("SLC-2", f"_range_size is not in the catalogued form and uses {odd[:3]}: the grid does not generalise")
        return
    rep.info("SLC-2: _range_size is not written as the catalogued sign split; decided on the grid start, stop in [-6, 6], step in [-4, 4] "
             "against len(range()) instead of for all integers")
    rep.ok("SLC-2", f"_range_size == len(range(start, stop, step)) on {n} grid points, zero step raises ValueError (uncatalogued form)", points=n)


def range_size(repo: Repo, rep: Report) -> None:
    mod = repo.mod(ARRAY)
    fn = mod.func("_range_size")
    rep.saw(ARRAY, "_range_size")
    params = [a.arg for a in fn.args.args]
    if len(params) != 3:
        raise AnalysisError("_range_size no longer takes (start, stop, step)")
    start, stop, step = (L.sym(p) for p in params)
    w = G.Walker()
    w.run_function(fn)
    lz = L.Linearizer()
    dist = L.add(stop, start, -1)
    seen_pos = seen_neg = seen_zero = False
    for ret, facts in w.returns:
        pr = G.Prover(facts)
        v = ret.value
        if v is None:
            continue
        step_pos = pr.ge0(L.add(step, L.const(-1)))
        step_neg = pr.ge0(L.add(L.scale(step, -1), L.const(-1)))
        if not (step_pos or step_neg):
            rep.finding("SLC-2", ARRAY, "_range_size", short(ret), "a length is returned on a path where the sign of step is unknown (zero step must be rejected)", ret.lineno)
            continue
        sgn = 1 if step_pos else -1
        d = L.scale(dist, sgn)  # number of unit steps available, > 0 iff the range is non-empty
        k = L.scale(step, sgn)  # |step|
        if isinstance(v, ast.Constant) and v.value == 0:
            # must be exactly the empty case: d <= 0
            if pr.ge0(L.scale(d, -1)):
                rep.ok("SLC-2", f"returns 0 only when the range is empty (step {'>' if sgn > 0 else '<'} 0)")
            else:
                rep.finding("SLC-2", ARRAY, "_range_size", short(ret) + (" [step>0]" if sgn > 0 else " [step<0]"),
                            "returns length 0 on a path where the range is not provably empty", ret.lineno)
            continue
        if isinstance(v, ast.BinOp) and isinstance(v.op, ast.FloorDiv):
            num, den = lz.lin(v.left), lz.lin(v.right)
            if num is None or den is None:
                rep.undecide("SLC-2", f"non-linear ceiling division {norm(v)}")
                continue
            # ceil(d / k) == (d + k - 1) // k ; also accept -((-d) // k)
            want = L.add(L.add(d, k), L.const(-1))
            if L.key(L.add(den, k, -1)) == L.key({}) or not L.symbols(L.add(den, k, -1)) and L.cval(L.add(den, k, -1)) == 0:
                diff = L.add(num, want, -1)
                if not L.symbols(diff) and L.cval(diff) == 0 and pr.ge0(L.add(d, L.const(-1))):
                    rep.ok("SLC-2", f"{norm(v)} == ceil(distance/|step|) under step {'>' if sgn > 0 else '<'} 0 and non-empty range")
                    if sgn > 0:
                        seen_pos = True
                    else:
                        seen_neg = True
                    continue
            rep.finding("SLC-2", ARRAY, "_range_size", short(ret) + (" [step>0]" if sgn > 0 else " [step<0]"),
                        f"{norm(v)} is not the ceiling of (signed distance)/|step| (expected numerator "
                        f"distance+|step|-1 over |step|, on a path where the range is non-empty)", ret.lineno)
            continue
        rep.undecide("SLC-2", f"unrecognised length expression {norm(v)}")
    # zero step rejected
    raises_on_zero = False
    for node in ast.walk(fn):
        if isinstance(node, ast.If) and any(isinstance(s, ast.Raise) for s in node.body):
            f = G.Facts().assume(node.test, True)
            if G.Prover(f).eq(step, L.const(0)):
                raises_on_zero = True
    if raises_on_zero:
        rep.ok("SLC-2", "zero step raises")
    else:
        rep.finding("SLC-2", ARRAY, "_range_size", "zero step guard", "a zero step is not rejected", fn.lineno)
    if not (seen_pos and seen_neg):
        rep.undecide("SLC-2", "did not find a ceiling-division return for both step signs")


def _inline_defs(e: ast.AST, facts: Optional[G.Facts], depth: int = 3) -> ast.AST:
    """replace local names by their (single, still valid) definitions, e.g. `width = self.shape[1]`"""
    if facts is None or depth == 0:
        return e

    class Sub(ast.NodeTransformer):
        def visit_Name(self, n: ast.Name) -> ast.AST:
            d = facts.definition(n.id)
            if d is None:
                return n
            try:
                sub = ast.parse(d, mode="eval").body
            except SyntaxError:
                return n
            if not isinstance(sub, (ast.Attribute, ast.Subscript, ast.Name)):
                return n  # only aliases are inlined, not computations
            return _inline_defs(sub, facts, depth - 1)

    import copy
    return ast.fix_missing_locations(Sub().visit(copy.deepcopy(e)))


def _poly(e: ast.AST) -> Optional[Dict[Tuple[str, ...], int]]:
    """the offset expression as a polynomial (monomial = sorted tuple of symbol texts -> integer coefficient) over names, attribute
    chains and constant subscripts; None when it contains anything else (calls, division, ...)"""
    if isinstance(e, ast.Constant) and isinstance(e.value, int) and not isinstance(e.value, bool):
        return {(): e.value} if e.value else {}
    if isinstance(e, (ast.Name, ast.Attribute)) or (isinstance(e, ast.Subscript) and isinstance(e.slice, ast.Constant)):
        return {(norm(e),): 1}
    if isinstance(e, ast.UnaryOp) and isinstance(e.op, ast.USub):
        q = _poly(e.operand)
        return None if q is None else {m: -c for m, c in q.items()}
    if isinstance(e, ast.BinOp) and isinstance(e.op, (ast.Add, ast.Sub, ast.Mult)):
        a_, b_ = _poly(e.left), _poly(e.right)
        if a_ is None or b_ is None:
            return None
        out: Dict[Tuple[str, ...], int] = {}
        if isinstance(e.op, ast.Mult):
            for m1, c1 in a_.items():
                for m2, c2 in b_.items():
                    m = tuple(sorted(m1 + m2))
                    out[m] = out.get(m, 0) + c1 * c2
        else:
            sign = 1 if isinstance(e.op, ast.Add) else -1
            out = dict(a_)
            for m2, c2 in b_.items():
                out[m2] = out.get(m2, 0) + sign * c2
        return {m: c for m, c in out.items() if c}
    return None


def gather(repo: Repo, rep: Report) -> None:
    mod = repo.mod(ARRAY)
    fn = mod.func("Array2D._getitem_impl")
    rep.saw(ARRAY, "Array2D._getitem_impl")
    lz = L.Linearizer()
    expr_facts: Dict[int, G.Facts] = {}
    G.Walker(on_expr=lambda n, f: expr_facts.setdefault(id(n), f)).run_function(fn)
    n = 0
    for node in ast.walk(fn):
        if isinstance(node, ast.Subscript) and norm(node.value) == "self.data" and isinstance(node.ctx, ast.Load):
            n += 1
            sl = _inline_defs(node.slice, expr_facts.get(id(node)))
            f = lz.lin(sl)
            prods = [s for s in (L.symbols(f) if f else []) if L.SYMINFO.get(str(s), ("",))[0] == "mul"]
            strides = [set(L.SYMINFO[str(p)][1]) for p in prods]
            good = f is not None and len(prods) == 1 and "self.shape[1]" in strides[0] and f[prods[0]] == 1 and len(
                [s for s in L.symbols(f) if s not in prods]
            ) == 1 and L.cval(f) == 0
            pl = _poly(sl)
            if not good and pl is not None and any("self.shape[1]" in m for m in pl):
                # written with the stride distributed or hoisted, e.g. (y0 + dy * r) * width + (x0 + dx * c): affine in shape[1] with a
                # non-trivial part on either side, and shape[0] nowhere (what is selected is SLC-G's business)
                good = all(m.count("self.shape[1]") <= 1 and "self.shape[0]" not in m for m in pl) and \
                    any("self.shape[1]" not in m for m in pl)
            if good:
                rep.ok("SLC-3", f"self.data[{norm(node.slice)}] is row-major with stride self.shape[1]")
            elif f is None or any(L.SYMINFO.get(str(s_), ("",))[0] not in ("mul", "") and "(" in str(s_) for s_ in L.symbols(f)):
                # an offset computed through a helper or a non-linear form: not in this rule's vocabulary (SLC-G still evaluates it)
                rep.undecide("SLC-3", f"offset `{norm(node.slice)}` is not a linear form over the row/column")
            else:
                rep.finding("SLC-3", ARRAY, "Array2D._getitem_impl", short(node),
                            "element offset is not <row> * self.shape[1] + <col>", node.lineno)
    if n < 2:
        # the gather moved out of _getitem_impl (an accessor, a helper): SLC-3 has nothing to read - undecided, and SLC-G still evaluates
        rep.undecide("SLC-3", "gather sites in _getitem_impl vanished (the element offset is computed elsewhere)")


def _job_2d(args) -> Tuple[str, Any, int]:
    root, overrides, cls1, cls2, shape, shared_impl = args
    repo = Repo(root, overrides)
    w = make_world(repo)
    h, wd = shape
    cases = 0
    try:
        data = [Tag(f"e{i}") for i in range(h * wd)]
        rows = [data[r * wd:(r + 1) * wd] for r in range(h)]
        a = w.new(cls2, list(data), (h, wd))
        get = w.method(a, "__getitem__")
        full = (cls2 == "BoolArray2D" or not shared_impl) and h * wd <= 6
        if full:
            # each axis is normalised independently: exhaustive per axis, light pairs
            singles = list(axis_keys(h))
            pairs = [(0 if h else slice(None), xk) for xk in axis_keys(wd)]
            pairs += [(slice(None), xk) for xk in axis_keys(wd) if isinstance(xk, int) or xk.step in (None, -2)]
            pairs += [(yk, slice(None, None, -1)) for yk in axis_keys(h) if isinstance(yk, int) or yk.step in (None, 3)]
            pairs += [(yk, xk) for yk in light_axis_keys(h)[::3] for xk in light_axis_keys(wd)[::2]]
        else:
            singles = light_axis_keys(h)
            pairs = [(yk, xk) for yk in light_axis_keys(h)[::2] for xk in light_axis_keys(wd)[::3]]
        # the per-class __getitem__ wrappers are not shared even when _getitem_impl is (round 13: a scalar fast path in
        # IntArray2D only, wrong for y >= 0 with a negative column): every scalar pair around the bounds, and every scalar
        # against a few slices on the other axis, for every class
        seen = {repr(p) for p in pairs}
        ys, xs = range(-h - 2, h + 2), range(-wd - 2, wd + 2)
        mixed = [(y, x) for y in ys for x in xs]
        some = [slice(None), slice(None, None, -1), slice(1, None), slice(None, -1), slice(-1, None, -2)]
        mixed += [(y, s) for y in ys for s in some] + [(s, x) for x in xs for s in some]
        pairs += [p for p in mixed if repr(p) not in seen]
        for key in list(singles) + pairs:
            cases += 1
            w.ev.steps = 0
            got = _call(lambda: get(key))
            want = _ref(lambda: ref_index(rows, h, wd, key))
            if want[0] == "ok" and want[1] is None:
                continue
            verdict = compare(got, want, cls1, cls2)
            if verdict:
                return "bad", (f"shape {(h, wd)} key {show_key(key)}", verdict), cases
        if h and wd:
            coords = [(0, 0), (h - 1, wd - 1), (-1, 0)]
            got = _call(lambda: get(list(coords)))
            want = ("ok", ("1d", [rows[y][x] for y, x in coords]))
            verdict = compare(got, want, cls1, cls2)
            cases += 1
            if verdict:
                return "bad", (f"shape {(h, wd)} key {coords}", verdict), cases
            got = _call(lambda: get([(h, 0)]))
            cases += 1
            if got != ("raise", "IndexError"):
                return "bad", (f"shape {(h, wd)} key [({h}, 0)]", f"expected IndexError, got {got}"), cases
            # the coordinate key as a one-shot iterable (zip(ys, xs), a generator): its pairs can be walked once
            got = _call(lambda: get(OneShot(coords)))
            cases += 1
            verdict = compare(got, want, cls1, cls2)
            if verdict:
                return "bad", (f"shape {(h, wd)} key zip(ys, xs) with the pairs {coords}", verdict), cases
            got = _call(lambda: get(OneShot([(0, 0), (h, 0)])))
            cases += 1
            if got != ("raise", "IndexError"):
                return "bad", (f"shape {(h, wd)} key zip(..) with the pairs [(0, 0), ({h}, 0)]", f"expected IndexError, got {got}"), cases
    except Undecided as ex:
        return "undecided", str(ex), cases
    return "ok", None, cases


def _job_1d(args) -> Tuple[str, Any, int]:
    root, overrides, cls1, cls2 = args
    repo = Repo(root, overrides)
    w = make_world(repo)
    cases = 0
    try:
        for n in (0, 1, 3, 4):
            data = [Tag(f"e{i}") for i in range(n)]
            a = w.new(cls1, list(data))
            get = w.method(a, "__getitem__")
            for key in axis_keys(n):
                cases += 1
                w.ev.steps = 0
                got = _call(lambda: get(key))
                want = _ref(lambda: ("elem", data[key]) if isinstance(key, int) else ("1d", data[key]))
                verdict = compare(got, want, cls1, cls2)
                if verdict:
                    return "bad", (f"length {n} key {show_key(key)}", verdict), cases
    except Undecided as ex:
        return "undecided", str(ex), cases
    return "ok", None, cases


def grid(repo: Repo, rep: Report) -> None:
    from concurrent.futures import ProcessPoolExecutor

    w = make_world(repo)
    shapes = [(1, 1), (1, 3), (3, 1), (2, 3), (3, 4), (0, 2), (2, 0)]
    if rep.tier == "thorough":
        shapes += [(1, 2), (2, 1), (2, 2), (1, 4), (4, 1), (1, 6), (3, 2), (4, 4), (2, 5)]
    impl = {c: w.find_method(c, "_getitem_impl")[1] for c in ("BoolArray2D", "IntArray2D")}
    shared_impl = impl["BoolArray2D"] is not None and impl["BoolArray2D"] is impl["IntArray2D"]
    pairs = (("BoolArray1D", "BoolArray2D"), ("IntArray1D", "IntArray2D"))
    jobs2 = [(repo.root, repo.overrides, c1, c2, sh, shared_impl) for c1, c2 in pairs for sh in shapes]
    jobs1 = [(repo.root, repo.overrides, c1, c2) for c1, c2 in pairs]
    with ProcessPoolExecutor(max_workers=16) as ex:
        f2 = [ex.submit(_job_2d, j) for j in jobs2]
        f1 = [ex.submit(_job_1d, j) for j in jobs1]
        r2 = [f.result() for f in f2]
        r1 = [f.result() for f in f1]
    for cls1, cls2 in pairs:
        rep.saw(ARRAY, f"{cls2}.__getitem__")
        res = [r for j, r in zip(jobs2, r2) if j[3] == cls2]
        cases = sum(r[2] for r in res)
        und = [r[1] for r in res if r[0] == "undecided"]
        bads = [r[1] for r in res if r[0] == "bad"]
        if und:
            rep.undecide("SLC-G", f"{cls2}.__getitem__: {und[0]}")
        elif bads:
            rep.finding("SLC-G", ARRAY, f"{cls2}.__getitem__", f"{cls2}[...]", f"{bads[0][0]}: {bads[0][1]}",
                        repo.mod(ARRAY).func(f"{cls2}.__getitem__").lineno)
        else:
            rep.ok("SLC-G", f"{cls2}.__getitem__ agrees with list-of-lists indexing on {cases} (shape, key) points")
        r = [r for j, r in zip(jobs1, r1) if j[2] == cls1][0]
        if r[0] == "undecided":
            rep.undecide("SLC-G", f"{cls1}.__getitem__: {r[1]}")
        elif r[0] == "bad":
            rep.finding("SLC-G", ARRAY, f"{cls1}.__getitem__", f"{cls1}[...]", f"{r[1][0]}: {r[1][1]}",
                        repo.mod(ARRAY).func(f"{cls1}.__getitem__").lineno)
        else:
            rep.ok("SLC-G", f"{cls1}.__getitem__ agrees with list indexing on {r[2]} (length, key) points")
        # flatten / reshape
        try:
            bad = None
            for (h, wd) in ((2, 3), (3, 1), (1, 4)):
                data = [Tag(f"e{i}") for i in range(h * wd)]
                a = w.new(cls2, list(data), (h, wd))
                fl = w.method(a, "flatten")()
                if not (isinstance(fl, Obj) and fl.attrs.get("__class__") == cls1 and fl.attrs.get("data") == data):
                    bad = (f"{cls2}.flatten", f"shape {(h, wd)}: flatten does not return the row-major {cls1}")
                    break
                for src, nm in ((a, cls2), (fl, cls1)):
                    rs = w.method(src, "reshape")((wd, h))
                    if not (isinstance(rs, Obj) and rs.attrs.get("__class__") == cls2 and rs.attrs.get("data") == data
                            and tuple(rs.attrs.get("shape")) == (wd, h)):
                        bad = (f"{nm}.reshape", f"shape {(h, wd)} -> {(wd, h)}: row-major order or shape not preserved")
                        break
                    got = _call(lambda: w.method(src, "reshape")((wd + 1, h)))
                    if got[0] != "raise":
                        bad = (f"{nm}.reshape", "a reshape to a different total size is accepted")
                        break
                if bad:
                    break
            # the "equivalent list of lists": an array built from nested lists has that shape and row-major order; len() counts rows
            if not bad:
                for (h, wd) in ((1, 1), (2, 3), (3, 1), (1, 4)):
                    data = [Tag(f"e{i}") for i in range(h * wd)]
                    rows = [data[r * wd:(r + 1) * wd] for r in range(h)]
                    got = _call(lambda: w.new(cls2, [list(r) for r in rows]))
                    if got[0] != "ok" or tuple(got[1].attrs.get("shape", ())) != (h, wd) or got[1].attrs.get("data") != data:
                        bad = (f"{cls2}.__init__", f"{cls2}({h} rows of {wd}) built from nested lists has shape "
                                                   f"{getattr(got[1], 'attrs', {}).get('shape') if got[0] == 'ok' else got[1]} / wrong order")
                        break
                    ln2 = _call(lambda: w.cw_len(got[1]) if hasattr(w, "cw_len") else w.method(got[1], "__len__")())
                    if ln2 != ("ok", h):
                        bad = (f"{cls2}.__len__", f"len() of a {h}x{wd} array is {ln2}, a list of {h} rows has length {h}")
                        break
                    a1 = w.new(cls1, list(data))
                    ln1 = _call(lambda: w.method(a1, "__len__")())
                    if ln1 != ("ok", h * wd):
                        bad = (f"{cls1}.__len__", f"len() of a 1-D array of {h * wd} items is {ln1}")
                        break
                if not bad:
                    for ragged in ([[Tag("a"), Tag("b")], [Tag("c")]], []):
                        got = _call(lambda: w.new(cls2, ragged))
                        if got != ("raise", "ValueError"):
                            bad = (f"{cls2}.__init__", f"nested lists {ragged!r} (ragged / empty: no shape can be inferred) give {got}, expected ValueError")
                            break
            if bad:
                rep.finding("SLC-G", ARRAY, bad[0], bad[0], bad[1])
            else:
                rep.ok("SLC-G", f"{cls2}.flatten / reshape preserve row-major order and check the size; nested-list construction and len() agree with the list of lists")
        except Undecided as ex:
            rep.undecide("SLC-G", f"{cls2} flatten/reshape: {ex}")
        except (Raised, IndexOutOfRange) as ex:
            rep.finding("SLC-G", ARRAY, f"{cls2} construction/flatten/reshape", f"{cls2} construction",
                        f"building or reshaping a well-formed {cls2} raises {ex}")


def ref_index(rows: List[List[Any]], h: int, wd: int, key: Any) -> Any:
    """Python's own nested-list semantics (the specification side)."""
    if not isinstance(key, tuple):
        if isinstance(key, int):
            return ("1d", rows[key])
        sel = rows[key]
        return ("2d", [x for r in sel for x in r], (len(sel), wd))
    yk, xk = key
    if isinstance(yk, int) and isinstance(xk, int):
        if not (-h <= yk < h):
            raise IndexError
        return ("elem", rows[yk][xk])
    if isinstance(yk, int):
        return ("1d", rows[yk][xk])
    sel = rows[yk]
    if isinstance(xk, int):
        if not (-wd <= xk < wd):
            if not sel:
                return None  # list semantics would not evaluate the column index at all: not compared
            raise IndexError
        return ("1d", [r[xk] for r in sel])
    cols = range(*xk.indices(wd))
    return ("2d", [r[c] for r in sel for c in cols], (len(sel), len(cols)))


def compare(got: Tuple[str, Any], want: Tuple[str, Any], cls1: str, cls2: str) -> Optional[str]:
    if want[0] == "raise":
        if got[0] == "raise" and got[1] == want[1]:
            return None
        return f"list indexing raises {want[1]}, the array gives {show(got)}"
    if got[0] == "raise":
        return f"the array raises {got[1]}, list indexing returns {show(want)}"
    spec = want[1]
    val = got[1]
    if spec[0] == "elem":
        return None if val == spec[1] else f"returns {val!r}, expected {spec[1]!r}"
    if not isinstance(val, Obj):
        return f"returns {val!r}, expected an array"
    if spec[0] == "1d":
        if val.attrs.get("__class__") != cls1:
            return f"returns a {val.attrs.get('__class__')}, expected {cls1}"
        if val.attrs.get("data") != spec[1]:
            return f"selects {val.attrs.get('data')!r}, list indexing selects {spec[1]!r}"
        if tuple(val.attrs.get("shape", ())) != (len(spec[1]),):
            return f"shape {val.attrs.get('shape')!r} for {len(spec[1])} elements"
        return None
    if val.attrs.get("__class__") != cls2:
        return f"returns a {val.attrs.get('__class__')}, expected {cls2}"
    if val.attrs.get("data") != spec[1]:
        return f"selects {val.attrs.get('data')!r}, list indexing selects {spec[1]!r}"
    if tuple(val.attrs.get("shape", ())) != tuple(spec[2]):
        return f"shape {val.attrs.get('shape')!r}, expected {spec[2]!r}"
    return None


def show(x: Any) -> str:
    if isinstance(x, tuple) and len(x) == 2 and isinstance(x[1], Obj):
        return f"{x[1].attrs.get('__class__')}{x[1].attrs.get('data')}"
    return repr(x)


def show_key(k: Any) -> str:
    def one(s: Any) -> str:
        if isinstance(s, slice):
            return ":".join("" if v is None else str(v) for v in (s.start, s.stop, s.step))
        return str(s)

    if isinstance(k, tuple):
        return "[" + ", ".join(one(s) for s in k) + "]"
    return "[" + one(k) + "]"


def run(repo: Repo, rep: Report) -> None:
    from ..selftest.guards_check import engine_selfcheck
    engine_selfcheck(rep)
    check(repo, rep)
    rep.assume("ints passed as indices are Python ints; behaviour for a zero-extent axis combined with an "
               "out-of-range integer on the other axis is not compared (list semantics would not evaluate it)")
