"""OPC family: operator chain  Python dunder -> Op -> translator handler."""

from __future__ import annotations

import ast
from typing import Any, Dict, List, Optional, Set, Tuple

from ..core import fde
from ..core.fde import FELL, IndexOutOfRange, Lin, Obj, Raised, Tag, Undecided
from ..core.findings import Report
from ..core.loader import AnalysisError, Repo, norm, short
from . import exprmodel as EM

Z3_FILE = "cspuz/backend/z3.py"


def _flat(args: Tuple[Any, ...]) -> List[Any]:
    if len(args) == 1 and isinstance(args[0], (list, tuple)):
        return list(args[0])
    return list(args)


def _b(x: Any) -> bool:
    if not isinstance(x, bool):
        raise Undecided(f"boolean connective applied to {x!r}")
    return x


def z3_namespace() -> Dict[str, Any]:
    return {
        "z3.Not": lambda a: not _b(a),
        "z3.And": lambda *a: all(_b(x) for x in _flat(a)),
        "z3.Or": lambda *a: any(_b(x) for x in _flat(a)),
        "z3.Xor": lambda a, b: _b(a) != _b(b),
        "z3.Implies": lambda a, b: (not _b(a)) or _b(b),
        "z3.If": lambda c, a, b: a if _b(c) else b,
        "z3.Distinct": lambda *a: EM._alldiff(_flat(a)),
        "z3.Sum": lambda *a: fde._sum(_flat(a), 0),
        "z3.BoolVal": lambda a, *r: _b(a),
        "z3.IntVal": lambda a, *r: a,
    }


def same(a: Any, b: Any) -> bool:
    if isinstance(a, bool) or isinstance(b, bool):
        return isinstance(a, bool) and isinstance(b, bool) and a == b
    if isinstance(a, Lin) or isinstance(b, Lin):
        try:
            return Lin.of(a) == Lin.of(b)
        except Undecided:
            return False
    if isinstance(a, Tag) or isinstance(b, Tag):
        return a == b
    return type(a) is type(b) and a == b


def check_z3_translator(repo: Repo, rep: Report) -> None:
    rep.rule("OPC-1", "every producible non-native operator has a z3 handler that returns a term (totality)")
    rep.rule("OPC-2", "the z3 handler consumes every operand of every producible arity")
    rep.rule("OPC-3", "the z3 handler's finite-domain denotation equals the operator's reference meaning")
    mod = repo.mod(Z3_FILE)
    fn = mod.func("_convert_expr")
    rep.saw(Z3_FILE, "_convert_expr")
    by, native = EM.producible_ops(repo)
    members = EM.op_enum_members(repo)
    rep.extra["producible_ops"] = sorted(by)
    rep.extra["native_only_ops"] = sorted(native)
    rep.extra["construction_sites"] = sum(len(v) for v in by.values())
    for s in [x for v in by.values() for x in v]:
        rep.saw(s.file)
    unknown = [op for op in by if op not in members]
    if unknown:
        raise AnalysisError(f"construction site uses an Op member that the enum lacks: {unknown}")

    ev = fde.Evaluator(z3_namespace())
    genv: Dict[str, Any] = {"Op": Tag("Op"), "z3": Tag("z3"), "TypeError": lambda *a: Tag("TypeError")}
    for q, f in mod.funcs.items():
        if "." not in q:
            genv[q] = fde.FunctionValue(f, ev, genv)
    params = [a.arg for a in fn.args.args]
    if len(params) < 1:
        raise AnalysisError("_convert_expr lost its parameters")

    def convert(e: Any, vd: Dict[Any, Any]) -> Any:
        ev.steps = 0
        args = [e] + ([vd] if len(params) >= 2 else [])
        return genv["_convert_expr"](*args[: len(params)])

    # variables
    for cls, base in (("BoolVar", "BoolExpr"), ("IntVar", "IntExpr")):
        v = Obj([cls, base, "Expr"], op=Tag("Op.VAR"), operands=[], id=5, lo=0, hi=3)
        zt = Tag("z3-term-of-var-5")
        try:
            r = convert(v, {5: zt, 4: Tag("other"), 6: Tag("other2")})
            if same(r, zt):
                rep.ok("OPC-1", f"{cls} translates to the z3 term registered under its id")
            else:
                rep.finding("OPC-3", Z3_FILE, "_convert_expr", f"handler {cls}",
                            f"a {cls} with id 5 is translated to {r!r}, not to variables_dict[5]", fn.lineno)
        except (Undecided, Raised, IndexOutOfRange) as ex:
            rep.finding("OPC-1", Z3_FILE, "_convert_expr", f"handler {cls}", f"variable is not translated: {ex}", fn.lineno)
    # python literals as operands
    for lit in (True, False, 0, -4, 9):
        try:
            r = convert(lit, {})
            if same(r, lit):
                rep.ok("OPC-1", f"literal {lit!r} translates to itself", nontrivial=False)
            else:
                rep.finding("OPC-3", Z3_FILE, "_convert_expr", "handler literal",
                            f"Python literal {lit!r} is translated to {r!r}", fn.lineno)
        except (Undecided, Raised, IndexOutOfRange) as ex:
            rep.finding("OPC-1", Z3_FILE, "_convert_expr", "handler literal", f"literal {lit!r}: {ex}", fn.lineno)

    for op in sorted(by):
        if op in native or op == "VAR":
            continue
        if op not in EM.REF:
            raise AnalysisError(f"no reference semantics for producible operator {op}")
        spec = EM.REF[op]
        cls = "BoolExpr" if spec["res"] == "b" else "IntExpr"
        ars = EM.arities_to_test(op, by[op])
        bad: Optional[Tuple[str, str]] = None
        tested = 0
        for n in ars:
            lo, hi = spec["arity"]
            if n < lo or (hi is not None and n > hi):
                rep.finding("OPC-2", by[op][0].file, by[op][0].func, f"Op.{op} arity {n}",
                            f"a construction site can build Op.{op} with {n} operands, outside the operator's arity",
                            by[op][0].node.lineno)
                continue
            for xs in EM.operand_assignments(op, n):
                e = Obj([cls, "Expr"], op=Tag("Op." + op), operands=list(xs))
                want = spec["f"](list(xs))
                tested += 1
                try:
                    got = convert(e, {})
                except IndexOutOfRange as ex:
                    bad = ("OPC-2", f"with {n} operand(s) the handler indexes past the operand list: {ex}")
                    break
                except Raised as ex:
                    bad = ("OPC-1", f"the translator raises {ex.what or 'an exception'} for a producible operator")
                    break
                except Undecided as ex:
                    rep.undecide("OPC-3", f"Op.{op}/{n}: {ex}")
                    bad = ("", "")
                    break
                if got is None or got is FELL:
                    bad = ("OPC-1", f"no handler: _convert_expr returns None for Op.{op} "
                                    f"(producible at {by[op][0].file}::{by[op][0].func})")
                    break
                if not same(got, want):
                    bad = ("OPC-3", f"for operands {xs!r} the handler denotes {got!r}, the operator means {want!r}")
                    break
            if bad:
                break
        if bad is None:
            rep.ok("OPC-3", f"Op.{op}: z3 handler agrees with the reference meaning on arities {ars} ({tested} operand vectors)")
        elif bad[0]:
            rep.finding(bad[0], Z3_FILE, "_convert_expr", f"handler Op.{op}", bad[1], fn.lineno)
    rep.floor("OPC-3", 15)
    rep.assume("z3's own operators and z3.And/Or/Not/Xor/If/Implies/Distinct have their documented meaning; "
               "z3 coerces Python bool/int literals inside its operator overloads")
