"""OPC family: operator chain  Python dunder -> Op -> translator handler."""

from __future__ import annotations

import ast
from typing import Any, Dict, List, Optional, Set, Tuple

from ..core import fde
from ..core.classworld import ClassWorld
from ..core.fde import OneShot, FELL, IndexOutOfRange, Lin, Obj, Raised, Tag, Undecided
from ..core.findings import Report
from ..core.loader import AnalysisError, Repo, norm, short
from . import exprmodel as EM

Z3_FILE = "cspuz/backend/z3.py"


def _flat(args: Tuple[Any, ...]) -> List[Any]:
    if len(args) == 1 and isinstance(args[0], (list, tuple)):
        return list(args[0])
    return list(args)


def _b(x: Any) -> bool:
    if not isinstance(x, bool):
        raise Undecided(f"boolean connective applied to {x!r}")
    return x


def z3_namespace() -> Dict[str, Any]:
    return {
        "z3.Not": lambda a: not _b(a),
        "z3.And": lambda *a: all(_b(x) for x in _flat(a)),
        "z3.Or": lambda *a: any(_b(x) for x in _flat(a)),
        "z3.Xor": lambda a, b: _b(a) != _b(b),
        "z3.Implies": lambda a, b: (not _b(a)) or _b(b),
        "z3.If": lambda c, a, b: a if _b(c) else b,
        "z3.Distinct": lambda *a: EM._alldiff(_flat(a)),
        # in this world operands are values, not terms: "is it a z3 term?" cannot be told apart here and both answers must give the
        # operator's meaning (the term / constant distinction is Z3M-5's subject)
        "z3.is_expr": lambda a: True,
        "z3.Sum": lambda *a: fde._sum(_flat(a), 0),
        "z3.BoolVal": lambda a, *r: _b(a),
        "z3.IntVal": lambda a, *r: a,
    }


def same(a: Any, b: Any) -> bool:
    if isinstance(a, bool) or isinstance(b, bool):
        return isinstance(a, bool) and isinstance(b, bool) and a == b
    if isinstance(a, Lin) or isinstance(b, Lin):
        try:
            return Lin.of(a) == Lin.of(b)
        except Undecided:
            return False
    if isinstance(a, Tag) or isinstance(b, Tag):
        return a == b
    return type(a) is type(b) and a == b


def check_z3_translator(repo: Repo, rep: Report) -> None:
    rep.rule("OPC-1", "every producible non-native operator has a z3 handler that returns a term (totality)")
    rep.rule("OPC-2", "the z3 handler consumes every operand of every producible arity")
    rep.rule("OPC-3", "the z3 handler's finite-domain denotation equals the operator's reference meaning")
    mod = repo.mod(Z3_FILE)
    fn = mod.func("_convert_expr")
    rep.saw(Z3_FILE, "_convert_expr")
    by, native = EM.producible_ops(repo)
    members = EM.op_enum_members(repo)
    rep.extra["producible_ops"] = sorted(by)
    rep.extra["native_only_ops"] = sorted(native)
    rep.extra["construction_sites"] = sum(len(v) for v in by.values())
    for s in [x for v in by.values() for x in v]:
        rep.saw(s.file)
    unknown = [op for op in by if op not in members]
    if unknown:
        raise AnalysisError(f"construction site uses an Op member that the enum lacks: {unknown}")

    # module-level tables of the translator (e.g. an operator dispatch dict) are evaluated as at import time
    cw = ClassWorld([mod], extra_funcs=z3_namespace(), pre_env={"Op": Tag("Op"), "z3": Tag("z3")})
    ev, genv = cw.ev, cw.genv
    params = [a.arg for a in fn.args.args]
    if len(params) < 1:
        raise AnalysisError("_convert_expr lost its parameters")

    def convert(e: Any, vd: Dict[Any, Any]) -> Any:
        ev.steps = 0
        args = [e] + ([vd] if len(params) >= 2 else [])
        return genv["_convert_expr"](*args[: len(params)])

    # variables
    for cls, base in (("BoolVar", "BoolExpr"), ("IntVar", "IntExpr")):
        v = Obj([cls, base, "Expr"], op=Tag("Op.VAR"), operands=[], id=5, lo=0, hi=3)
        zt = Tag("z3-term-of-var-5")
        try:
            r = convert(v, {5: zt, 4: Tag("other"), 6: Tag("other2")})
            if same(r, zt):
                rep.ok("OPC-1", f"{cls} translates to the z3 term registered under its id")
            else:
                rep.finding("OPC-3", Z3_FILE, "_convert_expr", f"handler {cls}",
                            f"a {cls} with id 5 is translated to {r!r}, not to variables_dict[5]", fn.lineno)
        except (Undecided, Raised, IndexOutOfRange) as ex:
            rep.finding("OPC-1", Z3_FILE, "_convert_expr", f"handler {cls}", f"variable is not translated: {ex}", fn.lineno)
    # python literals as operands
    for lit in (True, False, 0, -4, 9):
        try:
            r = convert(lit, {})
            if same(r, lit):
                rep.ok("OPC-1", f"literal {lit!r} translates to itself", nontrivial=False)
            else:
                rep.finding("OPC-3", Z3_FILE, "_convert_expr", "handler literal",
                            f"Python literal {lit!r} is translated to {r!r}", fn.lineno)
        except (Undecided, Raised, IndexOutOfRange) as ex:
            rep.finding("OPC-1", Z3_FILE, "_convert_expr", "handler literal", f"literal {lit!r}: {ex}", fn.lineno)

    for op in sorted(by):
        if op in native or op == "VAR":
            continue
        if op not in EM.REF:
            raise AnalysisError(f"no reference semantics for producible operator {op}")
        spec = EM.REF[op]
        cls = "BoolExpr" if spec["res"] == "b" else "IntExpr"
        ars = EM.arities_to_test(op, by[op])
        bad: Optional[Tuple[str, str]] = None
        tested = 0
        for n in ars:
            lo, hi = spec["arity"]
            if n < lo or (hi is not None and n > hi):
                site = next((x for x in by[op] if (x.arity_lo or 0) <= n and (x.arity_hi is None or n <= x.arity_hi)), by[op][0])
                if site.arity_hi is None:
                    # an n-ary site whose length guard was not found: "not proved", not "refuted" (OPC-7 evaluates the empty forms
                    # of the aggregate helpers and is the rule that can witness an ill-formed 0-ary tree)
                    rep.undecide("OPC-2", f"{site.file}::{site.func}: no dominating guard bounds the length of `{norm(site.operands)}` "
                                          f"(Op.{op} with {n} operands would be outside the operator's arity)")
                else:
                    rep.finding("OPC-2", site.file, site.func, f"Op.{op} arity {n}",
                                f"this construction site builds Op.{op} with {n} operands, outside the operator's arity", site.node.lineno)
                continue
            for xs in EM.operand_assignments(op, n):
                e = Obj([cls, "Expr"], op=Tag("Op." + op), operands=list(xs))
                want = spec["f"](list(xs))
                tested += 1
                try:
                    got = convert(e, {})
                except IndexOutOfRange as ex:
                    bad = ("OPC-2", f"with {n} operand(s) the handler indexes past the operand list: {ex}")
                    break
                except Raised as ex:
                    bad = ("OPC-1", f"the translator raises {ex.what or 'an exception'} for a producible operator")
                    break
                except Undecided as ex:
                    rep.undecide("OPC-3", f"Op.{op}/{n}: {ex}")
                    bad = ("", "")
                    break
                if got is None or got is FELL:
                    bad = ("OPC-1", f"no handler: _convert_expr returns None for Op.{op} "
                                    f"(producible at {by[op][0].file}::{by[op][0].func})")
                    break
                if not same(got, want):
                    bad = ("OPC-3", f"for operands {xs!r} the handler denotes {got!r}, the operator means {want!r}")
                    break
            if bad:
                break
        if bad is None:
            rep.ok("OPC-3", f"Op.{op}: z3 handler agrees with the reference meaning on arities {ars} ({tested} operand vectors)")
        elif bad[0]:
            rep.finding(bad[0], Z3_FILE, "_convert_expr", f"handler Op.{op}", bad[1], fn.lineno)
    # nested trees: the handler's recursion must hand each sub-term to the right place
    try:
        import itertools as _it

        def leafv(cls: str, vid: int) -> Obj:
            base = "BoolExpr" if cls == "BoolVar" else "IntExpr"
            return Obj([cls, base, "Expr"], op=Tag("Op.VAR"), operands=[], id=vid, lo=-5, hi=5)

        def T(res: str, op_: str, ops_: List[Any]) -> Obj:
            return Obj(["BoolExpr" if res == "b" else "IntExpr", "Expr"], op=Tag("Op." + op_), operands=list(ops_))

        p_, q_, r_ = leafv("IntVar", 4), leafv("IntVar", 5), leafv("IntVar", 6)
        x_, y_, z_ = leafv("BoolVar", 1), leafv("BoolVar", 2), leafv("BoolVar", 3)
        shapes = [
            ("a - (b - c)", T("i", "SUB", [p_, T("i", "SUB", [q_, r_])])), ("(a - b) - c", T("i", "SUB", [T("i", "SUB", [p_, q_]), r_])),
            ("a - b - c (one node)", T("i", "SUB", [p_, q_, r_])), ("a + b + c (one node)", T("i", "ADD", [p_, q_, r_])),
            ("a - (b + c)", T("i", "SUB", [p_, T("i", "ADD", [q_, r_])])), ("-(a - b)", T("i", "NEG", [T("i", "SUB", [p_, q_])])),
            ("x => (y => z)", T("b", "IMP", [x_, T("b", "IMP", [y_, z_])])), ("(x => y) => z", T("b", "IMP", [T("b", "IMP", [x_, y_]), z_])),
            ("x xor (y xor z)", T("b", "XOR", [x_, T("b", "XOR", [y_, z_])])), ("!(x | y) & z", T("b", "AND", [T("b", "NOT", [T("b", "OR", [x_, y_])]), z_])),
            ("(a - b) == c", T("b", "EQ", [T("i", "SUB", [p_, q_]), r_])), ("if x then a - b else c", T("i", "IF", [x_, T("i", "SUB", [p_, q_]), r_])),
            ("alldiff(a, b - c, c)", T("b", "ALLDIFF", [p_, T("i", "SUB", [q_, r_]), r_])),
        ]
        shapes = [s_ for s_ in shapes if all(o_ in by for o_ in ("SUB",)) or " - " not in s_[0]]

        def value(t: Any, val: Dict[int, Any]) -> Any:
            if isinstance(t, (bool, int)):
                return t
            if t.attrs["op"].name.endswith("VAR"):
                return val[t.attrs["id"]]
            return EM.REF[t.attrs["op"].name.split(".")[-1]]["f"]([value(o, val) for o in t.attrs["operands"]])

        badn = None
        nn = 0
        for label, tree in shapes:
            for iv in _it.product((-2, 0, 3), repeat=3):
                for bv in _it.product((False, True), repeat=3):
                    val = {4: iv[0], 5: iv[1], 6: iv[2], 1: bv[0], 2: bv[1], 3: bv[2]}
                    nn += 1
                    got = convert(tree, dict(val))
                    want = value(tree, val)
                    if not same(got, want):
                        badn = (label, val, got, want)
                        break
                if badn:
                    break
            if badn:
                break
        if badn:
            rep.finding("OPC-3", Z3_FILE, "_convert_expr", "nested expressions",
                        f"the tree {badn[0]} under {badn[1]!r} is translated to a term denoting {badn[2]!r}; the tree means {badn[3]!r}", fn.lineno)
        else:
            rep.ok("OPC-3", f"{len(shapes)} nested trees (also 3-ary nodes) denote their reference meaning on {nn} valuations", points=nn)
    except (Undecided, IndexOutOfRange) as ex:
        rep.undecide("OPC-3", f"nested expressions: {ex}")
    except Raised as ex:
        rep.finding("OPC-3", Z3_FILE, "_convert_expr", "nested expressions", f"the translator raises {ex.what}", fn.lineno)
    rep.floor("OPC-3", 15)
    rep.assume("z3's own operators and z3.And/Or/Not/Xor/If/Implies/Distinct have their documented meaning; "
               "z3 coerces Python bool/int literals inside its operator overloads")


# ------------------------------------------------------------------------------------------
# OPC-6 (scalar classes) : dunder -> Op -> reference meaning
# ------------------------------------------------------------------------------------------

EXPR_FILE = "cspuz/expr.py"
CONS_FILE = "cspuz/constraints.py"

# meaning the Python data model gives `self <op> other` / `other <op> self`
BOOL_DUNDERS = {
    "__invert__": (0, lambda s: not s),
    "__and__": (1, lambda s, o: s and o),
    "__rand__": (1, lambda s, o: o and s),
    "__or__": (1, lambda s, o: s or o),
    "__ror__": (1, lambda s, o: o or s),
    "__eq__": (1, lambda s, o: s == o),
    "__ne__": (1, lambda s, o: s != o),
    "__xor__": (1, lambda s, o: s != o),
    "__rxor__": (1, lambda s, o: o != s),
}
INT_DUNDERS = {
    "__neg__": (0, "i", lambda s: -s),
    "__add__": (1, "i", lambda s, o: s + o),
    "__radd__": (1, "i", lambda s, o: o + s),
    "__sub__": (1, "i", lambda s, o: s - o),
    "__rsub__": (1, "i", lambda s, o: Lin.of(o) - s if isinstance(s, Lin) or isinstance(o, Lin) else o - s),
    "__eq__": (1, "b", lambda s, o: s == o),
    "__ne__": (1, "b", lambda s, o: s != o),
    "__ge__": (1, "b", lambda s, o: s >= o),
    "__gt__": (1, "b", lambda s, o: s > o),
    "__le__": (1, "b", lambda s, o: s <= o),
    "__lt__": (1, "b", lambda s, o: s < o),
}


def _int_vals(order: bool, names: List[str]):
    import itertools

    if order:
        for t in itertools.product(EM.INT_GRID, repeat=len(names)):
            yield dict(zip(names, t))
    else:
        yield {n: Lin.sym(n) for n in names}


def _bool_vals(names: List[str]):
    for t in fde.bool_assignments(len(names)):
        yield dict(zip(names, t))


def _run(world: EM.ExprWorld, thunk) -> Tuple[str, Any]:
    try:
        return "value", thunk()
    except Raised as ex:
        return "raised", ex.what
    except EM.IllFormed as ex:
        return "illformed", str(ex)


def check_scalar_dunders(repo: Repo, rep: Report, world: Optional[EM.ExprWorld] = None) -> None:
    rep.rule("OPC-6", "operator dunders / then / cond build the Op and operand order whose reference denotation is the Python meaning of the call")
    world = world or EM.ExprWorld(repo)
    mod = repo.mod(EXPR_FILE)
    rep.saw(EXPR_FILE)

    def judge(qual: str, label: str, build, vals, meaning) -> None:
        rep.saw(EXPR_FILE, qual)
        if not mod.has_func(qual):
            rep.finding("OPC-6", EXPR_FILE, qual.split(".")[0], f"missing {qual}",
                        f"{qual} is not defined: the expression form it implements is no longer available")
            return
        fn = mod.func(qual)
        try:
            kind, tree = _run(world, build)
            if kind != "value" or tree is fde.NOTIMPL or tree is None:
                rep.finding("OPC-6", EXPR_FILE, qual, f"{qual} {label}",
                            f"well-typed call is rejected ({kind}: {tree!r})", fn.lineno)
                return
            for val in vals:
                try:
                    got = world.denote(tree, val)
                except EM.IllFormed as ex:
                    rep.finding("OPC-6", EXPR_FILE, qual, f"{qual} {label}", f"builds an ill-formed tree: {ex}", fn.lineno)
                    return
                want = meaning(val)
                if not same(got, want):
                    rep.finding("OPC-6", EXPR_FILE, qual, f"{qual} {label}",
                                f"under {val!r} the built tree denotes {got!r} but the Python meaning of the call is {want!r}",
                                fn.lineno)
                    return
            rep.ok("OPC-6", f"{qual} {label}: tree denotation equals the call's meaning")
        except Undecided as ex:
            rep.undecide("OPC-6", f"{qual} {label}: {ex}")

    # BoolExpr
    for name, (ar, f) in BOOL_DUNDERS.items():
        q = f"BoolExpr.{name}"
        s = world.leaf("b", "s")
        if ar == 0:
            judge(q, "(leaf)", lambda q=q, s=s: world.call(mod, q, self_obj=s), list(_bool_vals(["s"])),
                  lambda v, f=f: f(v["s"]))
        else:
            o = world.leaf("b", "o")
            judge(q, "(leaf, leaf)", lambda q=q, s=s, o=o: world.call(mod, q, o, self_obj=s),
                  list(_bool_vals(["s", "o"])), lambda v, f=f: f(v["s"], v["o"]))
            for lit in (True, False):
                judge(q, f"(leaf, {lit})", lambda q=q, s=s, lit=lit: world.call(mod, q, lit, self_obj=s),
                      list(_bool_vals(["s"])), lambda v, f=f, lit=lit: f(v["s"], lit))
    # IntExpr
    for name, (ar, res, f) in INT_DUNDERS.items():
        q = f"IntExpr.{name}"
        s = world.leaf("i", "s")
        order = res == "b"
        if ar == 0:
            judge(q, "(leaf)", lambda q=q, s=s: world.call(mod, q, self_obj=s), list(_int_vals(order, ["s"])),
                  lambda v, f=f: f(v["s"]))
        else:
            o = world.leaf("i", "o")
            judge(q, "(leaf, leaf)", lambda q=q, s=s, o=o: world.call(mod, q, o, self_obj=s),
                  list(_int_vals(order, ["s", "o"])), lambda v, f=f: f(v["s"], v["o"]))
            judge(q, "(leaf, 1)", lambda q=q, s=s: world.call(mod, q, 1, self_obj=s),
                  list(_int_vals(order, ["s"])), lambda v, f=f: f(v["s"], 1))
    # compound receivers and operands, built with the library's own operators: a dunder that looks inside its receiver
    # (`~(x <= y)` rewritten to another comparison, `a - (b - c)` flattened) must still mean what Python says
    import itertools as _it

    x_, y_, p_, q_ = world.leaf("i", "x"), world.leaf("i", "y"), world.leaf("b", "p"), world.leaf("b", "q")
    bool_compounds = []
    for nm_, f_ in (("__le__", lambda a, b: a <= b), ("__lt__", lambda a, b: a < b), ("__ge__", lambda a, b: a >= b),
                    ("__gt__", lambda a, b: a > b), ("__eq__", lambda a, b: a == b), ("__ne__", lambda a, b: a != b)):
        bool_compounds.append((f"x {nm_} y", lambda nm_=nm_: world.call(mod, f"IntExpr.{nm_}", y_, self_obj=x_), lambda v, f_=f_: f_(v["x"], v["y"])))
    for nm_, f_ in (("__and__", lambda a, b: a and b), ("__or__", lambda a, b: a or b), ("__xor__", lambda a, b: a != b), ("__eq__", lambda a, b: a == b)):
        bool_compounds.append((f"p {nm_} q", lambda nm_=nm_: world.call(mod, f"BoolExpr.{nm_}", q_, self_obj=p_), lambda v, f_=f_: f_(v["p"], v["q"])))
    bool_compounds.append(("~p", lambda: world.call(mod, "BoolExpr.__invert__", self_obj=p_), lambda v: not v["p"]))
    cvals_b = [dict(x=a, y=b, p=c, q=d, o=e_) for a, b in _it.product(EM.INT_GRID, repeat=2) for c, d, e_ in _it.product((False, True), repeat=3)]
    for clabel, cbuild, cmean in bool_compounds:
        kind_c, ctree = _run(world, cbuild)
        if kind_c != "value" or not isinstance(ctree, Obj):
            continue  # reported by the (leaf, leaf) case of that operator
        for name, (ar, f) in BOOL_DUNDERS.items():
            q = f"BoolExpr.{name}"
            if not mod.has_func(q):
                continue
            if ar == 0:
                judge(q, f"({clabel})", lambda q=q, ctree=ctree: world.call(mod, q, self_obj=ctree), cvals_b, lambda v, f=f, cmean=cmean: f(cmean(v)))
            elif name in ("__and__", "__or__", "__eq__", "__ne__"):
                ob = world.leaf("b", "o")
                judge(q, f"({clabel}, leaf)", lambda q=q, ctree=ctree, ob=ob: world.call(mod, q, ob, self_obj=ctree), cvals_b,
                      lambda v, f=f, cmean=cmean: f(cmean(v), v["o"]))
                judge(q, f"(leaf, {clabel})", lambda q=q, ctree=ctree, ob=ob: world.call(mod, q, ctree, self_obj=ob), cvals_b,
                      lambda v, f=f, cmean=cmean: f(v["o"], cmean(v)))
    int_compounds = [("x - y", lambda: world.call(mod, "IntExpr.__sub__", y_, self_obj=x_), lambda v: Lin.of(v["x"]) - v["y"]),
                     ("x + y", lambda: world.call(mod, "IntExpr.__add__", y_, self_obj=x_), lambda v: Lin.of(v["x"]) + v["y"]),
                     ("-x", lambda: world.call(mod, "IntExpr.__neg__", self_obj=x_), lambda v: Lin.of(0) - v["x"])]
    ivals = [{n: Lin.sym(n) for n in ("x", "y", "o")}]
    for clabel, cbuild, cmean in int_compounds:
        kind_c, ctree = _run(world, cbuild)
        if kind_c != "value" or not isinstance(ctree, Obj):
            continue
        oi = world.leaf("i", "o")
        for name in ("__neg__", "__add__", "__radd__", "__sub__", "__rsub__"):
            ar, _res, f = INT_DUNDERS[name]
            q = f"IntExpr.{name}"
            if not mod.has_func(q):
                continue
            if ar == 0:
                judge(q, f"({clabel})", lambda q=q, ctree=ctree: world.call(mod, q, self_obj=ctree), ivals, lambda v, f=f, cmean=cmean: f(cmean(v)))
            else:
                judge(q, f"({clabel}, leaf)", lambda q=q, ctree=ctree, oi=oi: world.call(mod, q, oi, self_obj=ctree), ivals,
                      lambda v, f=f, cmean=cmean: f(cmean(v), v["o"]))
                judge(q, f"(leaf, {clabel})", lambda q=q, ctree=ctree, oi=oi: world.call(mod, q, ctree, self_obj=oi), ivals,
                      lambda v, f=f, cmean=cmean: f(v["o"], cmean(v)))
    # then / cond (methods and module functions)
    s, o = world.leaf("b", "s"), world.leaf("b", "o")
    t, e = world.leaf("i", "t"), world.leaf("i", "e")
    cons = repo.mod(CONS_FILE)

    def judge_in(modx, file, qual, label, build, vals, meaning):
        nonlocal mod
        saved = mod
        mod = modx
        try:
            judge_file[0] = file
            judge(qual, label, build, vals, meaning)
        finally:
            mod = saved

    judge_file = [EXPR_FILE]
    imp = lambda v: (not v["s"]) or v["o"]  # noqa: E731
    judge("BoolExpr.then", "(leaf, leaf)", lambda: world.call(mod, "BoolExpr.then", o, self_obj=s),
          list(_bool_vals(["s", "o"])), imp)
    for lit in (True, False):
        judge("BoolExpr.then", f"(leaf, {lit})", lambda lit=lit: world.call(mod, "BoolExpr.then", lit, self_obj=s),
              list(_bool_vals(["s"])), lambda v, lit=lit: (not v["s"]) or lit)
    cvals = [dict(s=b, t=Lin.sym("t"), e=Lin.sym("e")) for b in (False, True)]
    ite = lambda v: v["t"] if v["s"] else v["e"]  # noqa: E731
    judge("BoolExpr.cond", "(leaf, leaf, leaf)", lambda: world.call(mod, "BoolExpr.cond", t, e, self_obj=s), cvals, ite)
    judge("BoolExpr.cond", "(leaf, 1, 0)", lambda: world.call(mod, "BoolExpr.cond", 1, 0, self_obj=s),
          [dict(s=b) for b in (False, True)], lambda v: 1 if v["s"] else 0)
    rep.saw(CONS_FILE)
    for qual, build, vals, meaning, label in (
        ("then", lambda: world.call(cons, "then", s, o), list(_bool_vals(["s", "o"])), imp, "(leaf, leaf)"),
        ("then", lambda: world.call(cons, "then", True, o), list(_bool_vals(["o"])), lambda v: v["o"], "(True, leaf)"),
        ("cond", lambda: world.call(cons, "cond", s, t, e), cvals, ite, "(leaf, leaf, leaf)"),
        ("cond", lambda: world.call(cons, "cond", s, 2, e), [dict(s=b, e=Lin.sym("e")) for b in (False, True)],
         lambda v: 2 if v["s"] else v["e"], "(leaf, 2, leaf)"),
    ):
        if not cons.has_func(qual):
            raise AnalysisError(f"anchor vanished: {CONS_FILE}::{qual}")
        fnode = cons.func(qual)
        try:
            kind, tree = _run(world, build)
            if kind != "value" or tree is fde.NOTIMPL or tree is None:
                rep.finding("OPC-6", CONS_FILE, qual, f"{qual} {label}", f"well-typed call is rejected ({kind}: {tree!r})", fnode.lineno)
                continue
            bad = None
            for val in vals:
                got = world.denote(tree, val)
                want = meaning(val)
                if not same(got, want):
                    bad = (val, got, want)
                    break
            if bad:
                rep.finding("OPC-6", CONS_FILE, qual, f"{qual} {label}",
                            f"under {bad[0]!r} the built tree denotes {bad[1]!r}; the call means {bad[2]!r}", fnode.lineno)
            else:
                rep.ok("OPC-6", f"constraints.{qual} {label}: tree denotation equals the call's meaning")
        except EM.IllFormed as ex:
            rep.finding("OPC-6", CONS_FILE, qual, f"{qual} {label}", f"builds an ill-formed tree: {ex}", fnode.lineno)
        except Undecided as ex:
            rep.undecide("OPC-6", f"constraints.{qual} {label}: {ex}")


# ------------------------------------------------------------------------------------------
# OPC-7 : aggregate helpers
# ------------------------------------------------------------------------------------------


def check_helpers(repo: Repo, rep: Report, world: Optional[EM.ExprWorld] = None) -> None:
    import itertools

    rep.rule("OPC-7", "count_true / fold_or / fold_and / alldifferent denote count / disjunction / conjunction / pairwise distinctness for every mix of literals and expressions, incl. empty and constant-only forms")
    world = world or EM.ExprWorld(repo)
    cons = repo.mod(CONS_FILE)
    rep.saw(CONS_FILE)
    b0, b1 = world.leaf("b", "b0"), world.leaf("b", "b1")
    items = [True, False, b0, b1]
    meanings = {
        "count_true": lambda xs: sum(1 for x in xs if x),
        "fold_or": lambda xs: any(xs),
        "fold_and": lambda xs: all(xs),
    }
    for name, meaning in meanings.items():
        fn = cons.func(name)
        rep.saw(CONS_FILE, name)
        bad = None
        ncases = 0
        try:
            for n in range(0, 4):
                for combo in itertools.product(items, repeat=n):
                    makers = [lambda: list(combo)]
                    if n >= 2:
                        makers.append(lambda: [[combo[0]], list(combo[1:])])  # nested iterables flatten
                    if n >= 1:
                        # one-shot iterables (a generator expression, map, zip): their items can be taken once - an implementation that
                        # walks its arguments twice sees nothing the second time
                        makers.append(lambda: [OneShot(combo)])
                        makers.append(lambda: [combo[0], [OneShot(combo[1:])]] if n >= 2 else [[OneShot(combo)]])
                    for mk in makers:
                        args = mk()
                        shown = [("<generator of " + ", ".join(map(_show, a)) + ">") if isinstance(a, OneShot) else a for a in mk()]
                        ncases += 1
                        kind, tree = _run(world, lambda: world.call(cons, name, *args))
                        if kind != "value":
                            bad = (shown, f"{kind}: {tree}")
                            break
                        args = shown
                        for val in _bool_vals(["b0", "b1"]):
                            flat = world._flatten(*mk())
                            want = meaning([val[x.attrs["leaf"]] if isinstance(x, Obj) else x for x in flat])
                            got = world.denote(tree, val)
                            if not same(got, want):
                                bad = (args, f"under {val} denotes {got!r}, expected {want!r}")
                                break
                        if bad:
                            break
                    if bad:
                        break
                if bad:
                    break
        except EM.IllFormed as ex:
            bad = ("", f"builds an ill-formed tree: {ex}")
        except Undecided as ex:
            rep.undecide("OPC-7", f"{name}: {ex}")
            continue
        if bad:
            rep.finding("OPC-7", CONS_FILE, name, f"{name}",
                        f"{name}({', '.join(map(_show, bad[0])) if bad[0] != '' else ''}) {bad[1]}", fn.lineno)
        else:
            rep.ok("OPC-7", f"{name}: {ncases} argument shapes x 4 valuations agree with the mathematical meaning")
    # non-boolean items must be rejected
    for name in meanings:
        kind, tree = _run(world, lambda: world.call(cons, name, [world.leaf("i", "n")]))
        if kind == "raised" and "TypeError" in str(tree):
            rep.ok("OPC-7", f"{name} rejects an integer-valued item with TypeError", nontrivial=False)
        else:
            rep.finding("OPC-7", CONS_FILE, name, f"{name} type check", f"an integer-valued item is accepted ({kind})", cons.func(name).lineno)
    # alldifferent
    fn = cons.func("alldifferent")
    rep.saw(CONS_FILE, "alldifferent")
    i0, i1 = world.leaf("i", "i0"), world.leaf("i", "i1")
    bad = None
    ncases = 0
    try:
        for n in range(0, 4):
            for combo in itertools.product([1, 2, i0, i1], repeat=n):
                for oneshot in ((False, True) if n else (False,)):
                    ncases += 1
                    kind, tree = _run(world, lambda: world.call(cons, "alldifferent", OneShot(combo) if oneshot else list(combo)))
                    label = combo if not oneshot else ("<generator>",) + tuple(combo)
                    if kind != "value":
                        bad = (label, f"{kind}: {tree}")
                        break
                    for val in _int_vals(True, ["i0", "i1"]):
                        xs = [val[x.attrs["leaf"]] if isinstance(x, Obj) else x for x in combo]
                        if not same(world.denote(tree, val), EM._alldiff(xs)):
                            bad = (label, f"under {val} is not pairwise distinctness")
                            break
                    if bad:
                        break
                if bad:
                    break
            if bad:
                break
    except (EM.IllFormed, Undecided) as ex:
        bad = ((), str(ex))
    if bad:
        rep.finding("OPC-7", CONS_FILE, "alldifferent", "alldifferent", f"alldifferent{tuple(map(_show, bad[0]))} {bad[1]}", fn.lineno)
    else:
        rep.ok("OPC-7", f"alldifferent: {ncases} argument shapes agree with pairwise distinctness")
    # the trivial single-expression methods
    mod = repo.mod(EXPR_FILE)
    s = world.leaf("b", "s")
    for q, meaning in (("BoolExpr.fold_or", lambda v: v["s"]), ("BoolExpr.fold_and", lambda v: v["s"]),
                       ("BoolExpr.count_true", lambda v: 1 if v["s"] else 0)):
        if not mod.has_func(q):
            continue
        try:
            kind, tree = _run(world, lambda: world.call(mod, q, self_obj=s))
            okay = kind == "value" and all(same(world.denote(tree, v), meaning(v)) for v in _bool_vals(["s"]))
        except (Undecided, EM.IllFormed):
            okay = False
        if okay:
            rep.ok("OPC-7", f"{q} denotes its single-item meaning")
        else:
            rep.finding("OPC-7", EXPR_FILE, q, q, "single-expression aggregate does not denote the expression's own value", mod.func(q).lineno)


def _show(x: Any) -> str:
    if isinstance(x, Obj):
        return str(x.attrs.get("leaf", x))
    if isinstance(x, (list, tuple)):
        return "[" + ", ".join(map(_show, x)) + "]"
    return repr(x)
