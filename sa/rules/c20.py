"""C20 - the backend and encoding actually used are the ones configured.

All clauses are finite: environment values, importable-module subsets, flag/argument combinations
are enumerated exhaustively and the configuration / dispatch / gating code is evaluated abstractly.
"""

from __future__ import annotations

import itertools
import re
from typing import Any, Dict, List, Optional, Tuple

from ..core import fde
from ..core.classworld import ClassWorld
from ..core.fde import IndexOutOfRange, Obj, Raised, Tag, Undecided
from ..core.findings import Report
from ..core.loader import AnalysisError, Repo
from . import c03
from .solverworld import backend_package, solver_self, solver_world
from .graphnative import GRAPH, GraphWorld

CONF = "cspuz/configuration.py"
SOLVER = "cspuz/solver.py"
PRIORITY = [("cspuz_core", "cspuz_core"), ("enigma_csp", "enigma_csp"), ("pycsugar", "csugar"), ("z3", "z3")]
FALLBACK = "sugar"
PRIM_ON = {"csugar", "enigma_csp", "cspuz_core"}
DIV_ON = {"enigma_csp", "cspuz_core"}
TRUE_S, FALSE_S = {"true", "1"}, {"false", "0"}


def conf_world(repo: Repo, environ: Dict[str, str], available: set, broken: set = frozenset()) -> ClassWorld:
    """`available`: modules whose import succeeds; `broken`: modules that are installed (a spec is found) but whose import
    raises ImportError (missing shared library, wrong ABI): present but not importable"""
    cw = ClassWorld([repo.mod(CONF)])

    def imp(name: str, env: Any = None, *rest: Any) -> Any:
        # both the `import x` statement hook and a direct `__import__("x")` call end here
        if name in ("os", "typing", "importlib", "importlib.util"):
            return Tag(name)
        if name not in available:
            raise Raised(f"ImportError({name})")
        return Tag(name)

    def find_spec(name: Any, package: Any = None) -> Any:
        if not isinstance(name, str):
            raise Undecided("find_spec of abstract name")
        return Tag(f"spec:{name}") if (name in available or name in broken) else None

    cw.ev.funcs["importlib.util.find_spec"] = find_spec
    cw.ev.funcs["find_spec"] = find_spec

    cw.ev.funcs["__import__"] = imp
    cw.genv["os.environ.get"] = lambda k, d=None: environ.get(k, d)
    cw.genv["os.environ"] = environ
    cw.genv["os.getenv"] = lambda k, d=None: environ.get(k, d)
    return cw


def expected_detect(available: set) -> str:
    for m, name in PRIORITY:
        if m in available:
            return name
    return FALLBACK


def parse_bool(s: str) -> Optional[bool]:
    if s.lower() in TRUE_S:
        return True
    if s.lower() in FALSE_S:
        return False
    return None


def check_config(repo: Repo, rep: Report) -> None:
    rep.rule("CFG-3", "'auto' picks the first importable of cspuz_core, enigma_csp, csugar(pycsugar), z3, else sugar - all 16 availability subsets")
    rep.rule("CFG-5", "Config(): default_backend from CSPUZ_DEFAULT_BACKEND or detection; graph-primitive defaults on exactly for supporting backends; env overrides parsed strictly")
    rep.rule("CFG-6", "_strtobool accepts exactly true/1/false/0 (case-insensitive) and raises ValueError otherwise")
    rep.saw(CONF)
    mods = [m for m, _ in PRIORITY]
    # CFG-3
    bad = None
    for r in range(len(mods) + 1):
        for sub in itertools.combinations(mods, r):
            cw = conf_world(repo, {}, set(sub))
            try:
                got = cw.call("_detect_backend")
            except Undecided as ex:
                rep.undecide("CFG-3", str(ex))
                return
            except Raised as ex:
                bad = (sub, f"raises {ex.what}")
                break
            if got != expected_detect(set(sub)):
                bad = (sub, f"returns {got!r}, expected {expected_detect(set(sub))!r}")
                break
        if bad:
            break
    # installed but not importable: every module is absent / broken / importable (81 combinations); only importable ones count
    if not bad:
        for states in itertools.product(("absent", "broken", "ok"), repeat=len(mods)):
            if "broken" not in states:
                continue
            avail = {m for m, st in zip(mods, states) if st == "ok"}
            brk = {m for m, st in zip(mods, states) if st == "broken"}
            cw = conf_world(repo, {}, avail, brk)
            try:
                got = cw.call("_detect_backend")
            except Undecided as ex:
                rep.undecide("CFG-3", str(ex))
                return
            except Raised as ex:
                bad = (avail, f"(with {sorted(brk)} installed but failing to import) raises {ex.what}")
                break
            if got != expected_detect(avail):
                bad = (avail, f"(with {sorted(brk)} installed but failing to import with ImportError) returns {got!r}, expected {expected_detect(avail)!r}")
                break
    if bad:
        rep.finding("CFG-3", CONF, "_detect_backend", "detection order",
                    f"with importable modules {sorted(bad[0])} detection {bad[1]}", repo.mod(CONF).func("_detect_backend").lineno)
    else:
        rep.ok("CFG-3", "_detect_backend: all 16 subsets of importable modules, and all 65 combinations with installed-but-unimportable modules, give the documented first choice")
    # docstring cross-check of the priority list
    doc = repo.mod(CONF).src
    m = re.search(r"priority is as follows:(.*?)For backward", doc, re.S)
    if m:
        listed = re.findall(r"`(\w+)`", m.group(1))
        want = [n for _, n in PRIORITY] + [FALLBACK]
        if listed == want:
            rep.ok("CFG-3", "Config docstring lists the same priority order", nontrivial=False)
        else:
            rep.info(f"Config docstring lists priority {listed}, the property states {want}")
    # CFG-6
    bad = None
    strs = ["true", "True", "TRUE", "1", "false", "False", "FALSE", "0", "yes", "no", "", "2", "t", "on", "tru", " true"]
    for s in strs:
        cw = conf_world(repo, {}, set())
        try:
            got = ("value", cw.call("_strtobool", s))
        except Raised as ex:
            got = ("raised", ex.what.split("(")[0])
        except Undecided as ex:
            rep.undecide("CFG-6", str(ex))
            return
        want = parse_bool(s)
        if want is None and got != ("raised", "ValueError"):
            bad = (s, got, "ValueError")
            break
        if want is not None and got != ("value", want):
            bad = (s, got, want)
            break
    if bad:
        rep.finding("CFG-6", CONF, "_strtobool", "boolean parsing", f"_strtobool({bad[0]!r}) gives {bad[1]!r}, expected {bad[2]!r}",
                    repo.mod(CONF).func("_strtobool").lineno)
    else:
        rep.ok("CFG-6", f"_strtobool: {len(strs)} strings, accepted set is exactly true/1/false/0 up to case")
    # CFG-5
    backends = [None, "auto", "z3", "sugar", "sugar_extended", "csugar", "enigma_csp", "cspuz_core", "my_custom"]
    flags = [None, "true", "0", "False", "1", "maybe"]
    avail_sets = [set(), {"z3"}, {"pycsugar", "z3"}, {"cspuz_core", "enigma_csp", "pycsugar", "z3"}, {"enigma_csp", "z3"}]
    n = 0
    bad = None
    for be, fp, fd, av, infer in itertools.product(backends, flags, flags, avail_sets, (True, False)):
        if (be not in (None, "auto")) and av != avail_sets[1]:
            continue
        if fp == "maybe" and fd == "maybe":
            continue
        environ = {}
        if be is not None:
            environ["CSPUZ_DEFAULT_BACKEND"] = be
        if fp is not None:
            environ["CSPUZ_USE_GRAPH_PRIMITIVE"] = fp
        if fd is not None:
            environ["CSPUZ_USE_GRAPH_DIVISION_PRIMITIVE"] = fd
        environ["CSPUZ_BACKEND_PATH"] = "/x/sugar"
        cw = conf_world(repo, environ, av)
        n += 1
        eff = environ if infer else {}
        exp_be = eff.get("CSPUZ_DEFAULT_BACKEND", "auto")
        if exp_be == "auto":
            exp_be = expected_detect(av)
        efp = eff.get("CSPUZ_USE_GRAPH_PRIMITIVE")
        efd = eff.get("CSPUZ_USE_GRAPH_DIVISION_PRIMITIVE")
        exp_p = parse_bool(efp) if efp is not None else (exp_be in PRIM_ON)
        exp_d = parse_bool(efd) if efd is not None else (exp_be in DIV_ON)
        try:
            c = cw.new("Config", infer) if True else None
            got = ("value", (c.attrs.get("default_backend"), c.attrs.get("use_graph_primitive"), c.attrs.get("use_graph_division_primitive"),
                             c.attrs.get("backend_path")))
        except Raised as ex:
            got = ("raised", ex.what.split("(")[0])
        except Undecided as ex:
            rep.undecide("CFG-5", str(ex))
            return
        if exp_p is None or exp_d is None:
            want: Tuple[str, Any] = ("raised", "ValueError")
        else:
            want = ("value", (exp_be, exp_p, exp_d, eff.get("CSPUZ_BACKEND_PATH")))
        if got != want:
            bad = (environ, sorted(av), infer, got, want)
            break
    if bad:
        rep.finding("CFG-5", CONF, "Config.__init__", "configuration defaults",
                    f"environment {bad[0]!r}, importable {bad[1]}, infer_from_env={bad[2]}: Config gives {bad[3]!r}, expected {bad[4]!r}",
                    repo.mod(CONF).func("Config.__init__").lineno)
    else:
        rep.ok("CFG-5", f"Config(): {n} combinations of environment values / importable modules / infer_from_env give the documented configuration")
    # README env names
    try:
        readme = repo.read_text("README.md")
        names_doc = set(re.findall(r"CSPUZ_[A-Z_]+", readme))
        names_src = set(re.findall(r"CSPUZ_[A-Z_]+", repo.mod(CONF).src))
        missing = names_doc - names_src
        if missing:
            rep.finding("CFG-5", CONF, "Config.__init__", "environment variable names", f"README documents {sorted(missing)} which configuration.py does not read")
        elif names_doc:
            rep.ok("CFG-5", f"README environment variable names {sorted(names_doc)} are read by configuration.py", nontrivial=False)
    except AnalysisError:
        pass


def check_dispatch(repo: Repo, rep: Report) -> None:
    rep.rule("CFG-1", "explicit backend argument wins; None reads config.default_backend at call time; strings resolve by name; classes pass through")
    rep.saw(SOLVER)
    smod = repo.mod(SOLVER)
    config = Obj(["Config"], default_backend="sugar", name="config")
    # names solver.py may import from the configuration module: detection answers "z3" here (CFG-3 decides detection itself)
    cw = solver_world(repo, pre_env={"config": config, "_detect_backend": lambda: "z3", "configuration._detect_backend": lambda: "z3"})
    ev, genv = cw.ev, cw.genv
    made: List[str] = []

    def cls_of(t: Any) -> str:
        return t.name.split(".")[-1] if isinstance(t, Tag) else getattr(t, "__name__", repr(t))

    try:
        for name, (cls, _e) in c03.ENTRY.items():
            config.attrs["default_backend"] = name
            got_default = cls_of(genv["_get_backend"](None))
            got_named = cls_of(genv["_get_backend"](name))
            if got_default != cls or got_named != cls:
                rep.finding("CFG-1", SOLVER, "_get_backend", f"resolution of {name}",
                            f"default_backend={name!r} resolves to {got_default}, explicit {name!r} to {got_named}; expected {cls}")
            else:
                rep.ok("CFG-1", f"{name}: config default (read at call time) and explicit name both resolve to {cls}")
        custom = Tag("MyBackendClass")
        if genv["_get_backend"](custom) is custom:
            rep.ok("CFG-1", "a backend class passes through unchanged", nontrivial=False)
        else:
            rep.finding("CFG-1", SOLVER, "_get_backend", "class argument", "a backend class given explicitly is not used as is")
        config.attrs["default_backend"] = "nonsense"
        try:
            genv["_get_backend"](None)
            rep.finding("CFG-1", SOLVER, "_get_backend", "unknown default", "an unknown config.default_backend is accepted")
        except Raised as ex:
            if "ValueError" in ex.what:
                rep.ok("CFG-1", "unknown config.default_backend raises ValueError at use")
            else:
                rep.finding("CFG-1", SOLVER, "_get_backend", "unknown default", f"raises {ex.what}, not ValueError")
    except (Undecided, Raised) as ex:
        rep.undecide("CFG-1", str(ex))
        return
    # find_answer / solve hand their own argument to _get_backend
    for meth in ("Solver.find_answer", "Solver.solve"):
        fn = smod.func(meth)
        # every backend interaction of one call goes to the class the call's own argument (else the default) names: with a backend
        # that deduces natively, and with one that does not (NotImplementedError, then a satisfiable and an unsatisfiable round)
        for arg, conf, want, native in (("z3", "sugar", "Z3Backend", True), (None, "csugar", "CSugarBackend", True), (None, "z3", "Z3Backend", True),
                                        ("z3", "sugar", "Z3Backend", False), ("sugar", "z3", "SugarBackend", False), (None, "sugar", "SugarBackend", False)):
            config.attrs["default_backend"] = conf
            used: List[str] = []

            def mk(clsname: str, native: bool = native):
                def ctor(variables: Any) -> Obj:
                    used.append(clsname)
                    rounds = [True, False]

                    def irr(keys: Any) -> Any:
                        if native:
                            return False
                        raise Raised("NotImplementedError()")

                    return Obj(["Backend"], add_constraint=lambda c: None, solve=(lambda: False) if native else (lambda: rounds.pop(0) if rounds else False),
                               solve_irrefutably=irr, name=clsname)
                return ctor

            genv["backend"] = backend_package(mk)
            genv.setdefault("Op", Tag("Op"))
            genv.setdefault("BoolExpr", lambda op, operands: Obj(["BoolExpr", "Expr"], op=op, operands=list(operands), name="clause"))
            selfo = solver_self(cw, variables=[], constraints=[], is_answer_key=[], name="self")
            try:
                ev.steps = 0
                fde.FunctionValue(fn, ev, genv, self_obj=selfo)(arg) if arg is not None else fde.FunctionValue(fn, ev, genv, self_obj=selfo)()
                if used == [want]:
                    rep.ok("CFG-1", f"{meth}(backend={arg!r}) with default {conf!r} instantiates {want}" + ("" if native else " (no native deduction)"))
                else:
                    rep.finding("CFG-1", SOLVER, meth, f"{meth} backend choice",
                                f"{meth}(backend={arg!r}) with config.default_backend={conf!r} instantiates {used}, expected [{want}]", fn.lineno)
            except (Undecided, Raised) as ex:
                rep.undecide("CFG-1", f"{meth}: {ex}")
        genv["backend"] = backend_package()


def check_gating(repo: Repo, rep: Report) -> None:
    rep.rule("CFG-4", "native graph operators are emitted exactly when the explicit argument, else the config flag read at call time, is true - never for acyclic connectivity")
    rep.saw(GRAPH)
    edges = [(0, 1), (1, 2), (2, 0)]

    def run_case(fname: str, flag: bool, divflag: bool, arg: Optional[bool], acyclic: bool = False) -> Tuple[str, int]:
        w = GraphWorld(repo, use_graph_primitive=False, use_graph_division_primitive=False)
        # config flags are set *after* world creation: they must be read at call time
        w.config.attrs["use_graph_primitive"] = flag
        w.config.attrs["use_graph_division_primitive"] = divflag
        s = w.solver()
        g = w.graph(3, edges)
        kw: Dict[str, Any] = {}
        if arg is not None:
            kw["use_graph_primitive"] = arg
        try:
            if fname == "active_vertices_connected":
                act = w.cw.method(s, "bool_array")(3)
                w.call(fname, s, act, g, acyclic=acyclic, **kw)
            elif fname == "active_vertices_connected[grid]":
                act = w.cw.method(s, "bool_array")((2, 2))
                w.call("active_vertices_connected", s, act, acyclic=acyclic, **kw)
            elif fname == "division_connected":
                div = w.cw.method(s, "int_array")(3, 0, 1)
                w.call(fname, s, div, 2, g)
            elif fname == "active_edges_single_cycle":
                e = w.cw.method(s, "bool_array")(3)
                w.call(fname, s, e, g, **kw)
            elif fname == "active_edges_single_cycle[frame]":
                fr = w.cw.new("BoolGridFrame", s, 1, 1)
                w.call("active_edges_single_cycle", s, fr, **kw)
            elif fname == "active_edges_single_path":
                e = w.cw.method(s, "bool_array")(3)
                w.call(fname, s, e, g, **kw)
            elif fname == "division_connected_variable_groups_with_borders":
                sz = w.cw.method(s, "int_array")(3, 1, 3)
                br = w.cw.method(s, "bool_array")(3)
                w.call(fname, s, group_size=sz, is_border=br, graph=g, **kw)
            elif fname == "active_edges_connected_crossable":
                fr = w.cw.new("BoolGridFrame", s, 1, 1)
                w.call(fname, s, fr, **kw)
            elif fname == "active_vertices_not_adjacent_and_not_segmenting":
                act = w.cw.method(s, "bool_array")(3)
                w.call(fname, s, act, g)
        except Raised as ex:
            return ("raised:" + ex.what.split("(")[0], 0)
        return ("ok", len(w.natives(s)))

    cases = [
        ("active_vertices_connected", "p", True), ("active_vertices_connected[grid]", "p", True),
        ("active_edges_single_cycle", "p", True), ("active_edges_single_cycle[frame]", "p", True),
        ("active_edges_single_path", "p", True), ("division_connected_variable_groups_with_borders", "d", True),
        ("active_edges_connected_crossable", "p", True), ("division_connected", "p", False),
        ("active_vertices_not_adjacent_and_not_segmenting", "p", False),
    ]
    for fname, which, has_arg in cases:
        bad = None
        n = 0
        try:
            for flag, divflag in itertools.product((False, True), repeat=2):
                for arg in ((None, False, True) if has_arg else (None,)):
                    for acyclic in ((False, True) if fname.startswith("active_vertices_connected") else (False,)):
                        n += 1
                        conf = flag if which == "p" else divflag
                        eff = arg if arg is not None else conf
                        if acyclic:
                            eff = False
                        st, nat = run_case(fname, flag, divflag, arg, acyclic)
                        if fname == "active_edges_single_path" and not eff:
                            okc = st.startswith("raised")
                        else:
                            okc = st == "ok" and ((nat > 0) == bool(eff))
                        if not okc:
                            bad = (flag, divflag, arg, acyclic, st, nat, eff)
                            break
                    if bad:
                        break
                if bad:
                    break
        except Undecided as ex:
            rep.undecide("CFG-4", f"{fname}: {ex}")
            continue
        except IndexOutOfRange as ex:
            rep.undecide("CFG-4", f"{fname}: {ex}")
            continue
        if bad:
            rep.finding("CFG-4", GRAPH, fname.split("[")[0], f"gating of {fname}",
                        f"config.use_graph_primitive={bad[0]}, use_graph_division_primitive={bad[1]}, argument={bad[2]}, acyclic={bad[3]}: "
                        f"{bad[4]} with {bad[5]} native operator(s); native encoding should be {'on' if bad[6] else 'off'}")
        else:
            rep.ok("CFG-4", f"{fname}: {n} flag/argument combinations emit native operators exactly when configured")


def run(repo: Repo, rep: Report) -> None:
    check_config(repo, rep)
    check_dispatch(repo, rep)
    check_gating(repo, rep)
    # the class a name resolves to has to *be* that backend: its deduction route (native / refute-and-resolve) is its own, not one
    # inherited from a sibling (a SugarExtendedBackend deriving from SugarBackend runs as plain sugar under the name sugar_extended)
    from .c02 import check_partition
    check_partition(repo, rep)
    rep.floor("CFG-4", 9)
    rep.assume("'importable' is modelled as the import statement raising ImportError or not")
