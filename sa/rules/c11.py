"""C11 - bundled puzzle solvers (structural clauses).

Every solve_<puzzle> is evaluated abstractly (Solver.solve replaced by a token) on small *non-square*
instances in both orientations, with clues on the board edges/corners and zero-valued clues:
  AKR    the flag returned is the result of this function's solver.solve() (or a literal False proved
         before solving); every returned container consists of variables of this Solver that were
         registered as answer keys *before* solve() was called; derived expressions are never returned
  IDX-1  no computed (non-literal) index or slice bound is negative at any subscript (silent wrap-around)
  IDX-2  no subscript is out of range / no exception while posting the constraints
  DK     (through IDX-2 on both orientations with clues at the last row/column) height/width roles agree
  PZ-X   (pzx.py) for all thirty-one puzzles: admitted answers == rule-obeying grids on tiny instances
Not decided: boards larger than the tiny instances.
"""

from __future__ import annotations

import ast
from concurrent.futures import ProcessPoolExecutor
from typing import Any, Callable, Dict, List, Optional, Tuple

from ..core.classworld import ClassWorld
from ..core.fde import IndexOutOfRange, KInt, Obj, Raised, Tag, Undecided, kind_of
from ..core.findings import Report
from ..core.loader import AnalysisError, Repo
from .graphnative import FILES, GraphWorld

SOLVE_TOKEN = Tag("result-of-solver.solve()")
ANCHORED = ["sudoku", "slitherlink", "masyu", "yajilin", "nurikabe", "heyawake", "akari", "norinori", "lits", "star_battle",
            "fillomino", "nurimisaki", "yinyang", "creek", "gokigen", "aquarium", "building", "doppelblock", "putteria",
            "simpleloop", "geradeweg", "compass", "fivecells", "view", "castle_wall", "shakashaka"]
# solver modules that the property's quantifier ("every puzzle module in cspuz.puzzle") covers although its anchor list does not
# name them: evaluated by the same rules; a missing one is reported as information, not as a vanished anchor
EXTRA = ["firefly", "magnets", "nanro", "nurimaze", "slalom"]
BOARDS = [(2, 3), (3, 2), (3, 4), (4, 3)]


def grid(h: int, w: int, fill: Any, cells: Dict[Tuple[int, int], Any]) -> List[List[Any]]:
    g = [[fill] * w for _ in range(h)]
    for (y, x), v in cells.items():
        g[y % h][x % w] = v
    return g


def corners(h: int, w: int, vals: List[Any]) -> Dict[Tuple[int, int], Any]:
    pos = [(0, 0), (h - 1, w - 1), (0, w - 1), (h - 1, 0), (h // 2, w - 1), (h - 1, w // 2)]
    return {p: v for p, v in zip(pos, vals)}


def rooms_rows(h: int, w: int) -> List[List[Tuple[int, int]]]:
    """one L-shaped room along the left column + last row, rest row strips"""
    first = [(y, 0) for y in range(h)] + [(h - 1, x) for x in range(1, w)]
    rest = []
    for y in range(h - 1):
        rest.append([(y, x) for x in range(1, w)])
    return [first] + [r for r in rest if r]


def block_ids(h: int, w: int, rooms: List[List[Tuple[int, int]]]) -> List[List[int]]:
    g = [[-1] * w for _ in range(h)]
    for i, r in enumerate(rooms):
        for y, x in r:
            g[y][x] = i
    return g


def fixtures(name: str, h: int, w: int) -> List[Tuple[tuple, dict]]:
    """argument tuples for solve_<name> on an h x w board (square-only puzzles use n = h)"""
    R = rooms_rows(h, w)
    if name == "sudoku":
        n = 2
        return [((grid(4, 4, 0, corners(4, 4, [1, 4, 2, 3])),), {"n": n})]
    if name == "slitherlink":
        return [((h, w, grid(h, w, -1, corners(h, w, [0, 3, 2, 1, 0, 2]))), {})]
    if name == "masyu":
        return [((h, w, grid(h, w, 0, corners(h, w, [1, 2, 2, 1, 1, 2]))), {})]
    if name == "yajilin":
        return [((h, w, grid(h, w, "..", corners(h, w, ["^0", "v0", ">0", "<0", "??", "^1"]))), {}),
                ((h, w, grid(h, w, "..", corners(h, w, ["v1", "^1", "<1", ">1"]))), {})]
    if name == "nurikabe":
        return [((h, w, grid(h, w, 0, corners(h, w, [1, 2, -1, 3]))), {}), ((h, w, grid(h, w, 0, corners(h, w, [2, -1]))), {"unknown_low": 1})]
    if name == "heyawake":
        return [((h, w, R, [(-1 if i % 2 else i) for i in range(len(R))]), {}),
                ((h, w, [(0, 0, h, 1, 0), (0, 1, h, w, 1)]), {})]
    if name == "akari":
        return [((h, w, grid(h, w, -2, corners(h, w, [0, -1, 1, 2, -1, 0]))), {})]
    if name in ("norinori", "lits", "putteria"):
        return [((h, w, R), {})]
    if name == "star_battle":
        n = h
        return [((n, block_ids(n, n, rooms_rows(n, n)), 1), {})]
    if name == "fillomino":
        return [((h, w, grid(h, w, 0, corners(h, w, [1, 2, 3, 1]))), {}), ((h, w, grid(h, w, 0, corners(h, w, [2, 1]))), {"checkered": True})]
    if name == "nurimisaki":
        return [((h, w, grid(h, w, -1, corners(h, w, [0, 2, min(h, 3), min(w, 3), 2, 0]))), {}),
                ((h, w, grid(h, w, -1, {(0, 0): max(h, w), (h - 1, w - 1): 2})), {}),
                ((h, w, grid(h, w, -1, {(1, 0): 2, (0, 1): 2, (h - 1, w - 2): 2, (h - 2, w - 1): 2})), {})]
    if name == "yinyang":
        return [((h, w, grid(h, w, 0, corners(h, w, [1, 2, 2, 1]))), {})]
    if name in ("creek", "gokigen"):
        return [((h, w, grid(h + 1, w + 1, -1, corners(h + 1, w + 1, [0, 1, 0, 1, 2, 2]))), {})]
    if name == "aquarium":
        return [((h, w, R, [(-1 if y % 2 else y) for y in range(h)], [x % 3 for x in range(w)]), {})]
    if name == "building":
        n = h
        return [((n, [1] + [0] * (n - 1), [0] * (n - 1) + [n], [2] + [0] * (n - 1), [0] * n), {})]
    if name == "doppelblock":
        n = max(h, 3)
        return [((n, [0] + [-1] * (n - 1), [-1] * (n - 1) + [1]), {})]
    if name == "simpleloop":
        return [((h, w, grid(h, w, 0, {(0, 0): 1}), (h - 1, w - 1)), {}), ((h, w, grid(h, w, 0, {(h - 1, w - 1): 1}), (0, w - 1)), {})]
    if name == "geradeweg":
        return [((h, w, grid(h, w, 0, corners(h, w, [1, 1, 2, 2, 1, 1]))), {})]
    if name == "compass":
        return [((h, w, [(0, 0, -1, 0, 1, -1), (h - 1, w - 1, 1, 1, 0, 0), (0, w - 1, 0, -1, -1, 0)]), {})]
    if name == "fivecells":
        return [((h, w, grid(h, w, -1, corners(h, w, [2, 3, -2, 1, 0, 2]))), {}), ((h, w, grid(h, w, -1, {(0, 0): 2, (h - 1, w - 1): 3})), {})]
    if name == "view":
        return [((h, w, grid(h, w, -1, corners(h, w, [0, 1, 2, 0]))), {})]
    if name == "castle_wall":
        return [((h, w, grid(h, w, "..", corners(h, w, ["v1", "^0", "<1", ">0", "^1", "<0"])),
                  grid(h, w, None, corners(h, w, [None, None, True, False, True, None]))), {})]
    if name == "shakashaka":
        return [((h, w, grid(h, w, None, corners(h, w, [0, -1, 1, 2, 0, -1]))), {})]
    if name == "firefly":
        return [((h, w, grid(h, w, "..", corners(h, w, [">1", "<?", "v0", "^2", "<1", ">?"]))), {}),
                ((h, w, grid(h, w, "..", {(0, 0): "v?", (h - 1, w - 1): "^0"})), {})]
    if name == "magnets":
        if w % 2 == 0:
            to_right, to_down = [[x % 2 == 0 for x in range(w)] for _ in range(h)], [[False] * w for _ in range(h)]
        else:
            to_right, to_down = [[False] * w for _ in range(h)], [[y % 2 == 0 for _ in range(w)] for y in range(h)]
        return [((h, w, to_right, to_down, [[y % 2, -1] for y in range(h)], [[-1, x % 2] for x in range(w)]), {}),
                ((h, w, to_right, to_down, [[-1, 0] for _ in range(h)], [[1, -1] for _ in range(w)]), {})]
    if name == "nanro":
        return [((h, w, R, grid(h, w, 0, corners(h, w, [1, 2, 0, 1]))), {})]
    if name == "nurimaze":
        return [((h, w, [[(x + y) % 2 for x in range(w - 1)] for y in range(h)], [[(x + y + 1) % 2 for x in range(w)] for y in range(h - 1)],
                  grid(h, w, 0, {(0, w - 1): 1, (h - 1, 0): 2}), (0, 0), (h - 1, w - 1)), {}),
                ((h, w, [[1] * (w - 1) for _ in range(h)], [[1] * w for _ in range(h - 1)], grid(h, w, 0, {}), (h - 1, 0), (0, w - 1)), {})]
    if name == "slalom":
        return [((h, w, (0, 0), grid(h, w, False, {(h - 1, w - 1): True}), [(0, w - 1, 1, 2, 1), (h - 1, 0, 0, 2, 0)]), {}),
                ((h, w, (h - 1, w - 1), grid(h, w, False, {(0, 0): True}), [(0, w - 1, 1, h - 1, 0)]), {})]
    raise AnalysisError(f"no fixture recipe for solve_{name}")


class SolverWorld(GraphWorld):
    def __init__(self, repo: Repo, puzzle: str, primitives: bool = False):
        self.repo = repo
        self.config = Obj(["Config"], use_graph_primitive=primitives, use_graph_division_primitive=primitives, default_backend="z3", name="config")
        mods = [repo.mod(f) for f in FILES] + [repo.mod("cspuz/puzzle/util.py"), repo.mod(f"cspuz/puzzle/{puzzle}.py")]
        self.cw = ClassWorld(mods, pre_env={"config": self.config})
        self.cw.ev.max_steps = 3_000_000
        self.cw.ev.strict_index = True
        g = self.cw.genv
        g["Op"] = Tag("Op")
        g["config"] = self.config
        # flatten_iterator: the repository's own generator function, evaluated from source
        g["warnings"] = Tag("warnings")
        g["warnings.warn"] = lambda *a, **k: None
        for n in ("count_true", "fold_or", "fold_and", "alldifferent", "cond", "then"):
            g["cspuz.constraints." + n] = g[n]
        graph_mod = repo.mod("cspuz/graph.py")
        for q in list(graph_mod.funcs) + list(graph_mod.classes):
            if "." not in q and q in g:
                g["graph." + q] = g[q]
        for extra in ("BoolGridFrame", "BoolInnerGridFrame"):
            g["graph." + extra] = g[extra]
        for q in repo.mod("cspuz/puzzle/util.py").funcs:
            if "." not in q:
                g["util." + q] = g[q]
        self.solvers: List[Obj] = []
        self.snap: List[Tuple[Obj, List[bool]]] = []
        real_ctor = g["Solver"]

        self.shape_events: List[str] = []

        def check_shape(what: str, rows: Any, cols: Any) -> None:
            if kind_of(rows) == "C" or kind_of(cols) == "R":
                self.shape_events.append(f"{what} is created with (rows, columns) = ({'width' if kind_of(rows) == 'C' else 'height'}-derived, "
                                         f"{'height' if kind_of(cols) == 'R' else 'width'}-derived)")

        real_frames = {nm: g[nm] for nm in ("BoolGridFrame", "BoolInnerGridFrame")}
        for nm, ctor in real_frames.items():
            def mk(nm=nm, ctor=ctor):
                def f(solver: Any, height: Any, width: Any, *a: Any, **k: Any) -> Obj:
                    check_shape(nm, height, width)
                    return ctor(solver, height, width, *a, **k)
                return f
            g[nm] = mk()
            g["graph." + nm] = g[nm]

        def make_solver() -> Obj:
            s = real_ctor()
            for meth in ("bool_array", "int_array"):
                real = self.cw.method(s, meth)

                def arr(shape: Any, *a: Any, real=real, meth=meth) -> Obj:
                    if isinstance(shape, tuple) and len(shape) == 2:
                        check_shape(f"solver.{meth}(({shape[0]}, {shape[1]}))", shape[0], shape[1])
                    return real(shape, *a)

                s.attrs[meth] = arr

            def solve(backend: Any = None) -> Any:
                self.snap.append((s, list(s.attrs["is_answer_key"])))
                return SOLVE_TOKEN

            s.attrs["solve"] = solve
            s.attrs["find_answer"] = lambda backend=None: Tag("result-of-solver.find_answer()")
            self.solvers.append(s)
            return s

        g["Solver"] = make_solver
        g["cspuz.Solver"] = make_solver


def variables_of(w: SolverWorld, c: Any) -> Optional[List[Obj]]:
    """the variables a returned container consists of; None if it holds something that is not a variable"""
    if isinstance(c, Obj):
        cls = c.attrs.get("__class__", "")
        if cls in ("BoolVar", "IntVar"):
            return [c]
        if cls in ("BoolGridFrame", "BoolInnerGridFrame"):
            a, b = variables_of(w, c.attrs["horizontal"]), variables_of(w, c.attrs["vertical"])
            return None if a is None or b is None else a + b
        if "data" in c.attrs:
            out: List[Obj] = []
            for e in c.attrs["data"]:
                v = variables_of(w, e)
                if v is None:
                    return None
                out += v
            return out
        return None
    if isinstance(c, (list, tuple)):
        out = []
        for e in c:
            v = variables_of(w, e)
            if v is None:
                return None
            out += v
        return out
    return None


def _job(args) -> Tuple[str, List[Tuple[str, str, str]], int]:
    root, overrides, name = args
    repo = Repo(root, overrides)
    fn = f"solve_{name}"
    file = f"cspuz/puzzle/{name}.py"
    out: List[Tuple[str, str, str]] = []
    n = 0
    try:
        for (h, wd) in BOARDS:
            if name in ("star_battle", "building", "doppelblock", "sudoku") and h > wd:
                continue
            for args_, kw in fixtures(name, h, wd):
                n += 1
                w = SolverWorld(repo, name)
                if fn not in w.cw.genv:
                    raise AnalysisError(f"anchor vanished: {file}::{fn}")
                params = [a.arg for a in repo.mod(file).func(fn).args.args]
                if params[:2] == ["height", "width"] and len(args_) >= 2:
                    # the board's dimensions carry a row/column qualifier through the evaluation (kind analysis)
                    args_ = (KInt(args_[0], "R", "ext"), KInt(args_[1], "C", "ext")) + tuple(args_[2:])
                label = f"{h}x{wd} board"
                try:
                    w.cw.ev.steps = 0
                    res = w.cw.call(fn, *args_, **kw)
                except Raised as ex:
                    out.append(("IDX-2", f"{fn} raises", f"{fn} on a {label} (arguments {_brief(args_)}) raises {ex.what[:120]}"))
                    continue
                except IndexOutOfRange as ex:
                    out.append(("IDX-2", f"{fn} index out of range", f"{fn} on a {label} (arguments {_brief(args_)}): {ex}"))
                    continue
                for text, comp, val, line in w.cw.ev.events[:3]:
                    out.append(("IDX-1", f"{text}", f"{fn} on a {label}: `{text}` is evaluated with the computed index `{comp}` = {val}: "
                                                     f"a negative index silently addresses the opposite edge (line {line})"))
                for text, comp, k, axis, line in w.cw.ev.kind_events[:3]:
                    if str(axis).startswith("cmp:"):
                        out.append(("DK", f"{text}", f"{fn} on a {label}: `{text}` bounds the {'column' if k == 'C' else 'row'} position `{comp}` by the board's "
                                                      f"{'width' if axis[4:] == 'C' else 'height'} (line {line}): on a non-square board the test admits or excludes the wrong cells"))
                        continue
                    out.append(("DK", f"{text}", f"{fn} on a {label}: `{text}` uses the {'width' if k == 'C' else 'height'}-derived value `{comp}` on the "
                                                  f"{'row' if axis == 'R' else 'column'} axis (line {line}): on a non-square board it addresses or bounds the wrong cells"))
                for msg in w.shape_events[:2]:
                    out.append(("DK", msg.split(" is created")[0], f"{fn} on a {label}: {msg}"))
                # ---- AKR ------------------------------------------------------------------------
                if not isinstance(res, tuple) or len(res) < 2:
                    out.append(("AKR", f"{fn} result shape", f"{fn} returns {res!r}, expected (flag, answer containers...)"))
                    continue
                flag, conts = res[0], res[1:]
                if len(w.solvers) != 1:
                    out.append(("AKR", f"{fn} solvers", f"{fn} creates {len(w.solvers)} Solver objects"))
                    continue
                s = w.solvers[0]
                if flag is SOLVE_TOKEN:
                    if len(w.snap) != 1:
                        out.append(("AKR", f"{fn} solve calls", f"{fn} calls solver.solve() {len(w.snap)} times"))
                        continue
                    keys = w.snap[0][1]
                elif flag is False:
                    keys = list(s.attrs["is_answer_key"])
                else:
                    out.append(("AKR", f"{fn} flag", f"{fn} on a {label} returns the flag {flag!r}: not the result of its solver.solve()"))
                    continue
                for k, c in enumerate(conts):
                    vs = variables_of(w, c)
                    if vs is None:
                        out.append(("AKR", f"{fn} returns a non-variable", f"{fn}: returned value #{k + 1} contains something that is not a solver variable (a derived expression or constant)"))
                        continue
                    own = s.attrs["variables"]
                    notkey = [v for v in vs if not (isinstance(v.attrs.get("id"), int) and v.attrs["id"] < len(own) and own[v.attrs["id"]] is v
                                                    and v.attrs["id"] < len(keys) and keys[v.attrs["id"]])]
                    if notkey:
                        out.append(("AKR", f"{fn} unregistered answer #{k + 1}",
                                    f"{fn} on a {label}: {len(notkey)} of the {len(vs)} variables in returned value #{k + 1} were not registered with "
                                    "add_answer_key before solve(): their sol is an arbitrary model value (or None), not a decided fact"))
                if not any(keys):
                    out.append(("AKR", f"{fn} no keys", f"{fn} registers no answer key at all"))
    except Undecided as ex:
        return "undecided", [("", "", f"{fn}: {ex}")], n
    return "ok", out, n


def _brief(a: Any) -> str:
    s = repr(a)
    return s if len(s) < 160 else s[:157] + "..."


def run(repo: Repo, rep: Report) -> None:
    from ..selftest import k3_check
    k3_check.engine_selfcheck(rep)  # PZ-X decides posted constraints with the projection engine
    rep.rule("AKR", "returned flag = this solver's solve(); every returned container = variables registered as answer keys before solve()")
    rep.rule("IDX-1", "no computed index / slice bound is negative at any subscript while posting constraints")
    rep.rule("IDX-2", "posting the constraints raises nothing on non-square boards in both orientations with clues on every edge")
    rep.rule("DK", "row/column kind analysis: no value derived from `width` indexes, bounds or sizes the row axis of a 2-D array / comprehension-built table / frame, and vice versa (sizes that mix both are never reported)")
    names = []
    for m in repo.iter("cspuz/puzzle/"):
        base = m.rel.split("/")[-1][:-3]
        if f"solve_{base}" in m.funcs:
            names.append(base)
    missing = [n for n in ANCHORED if n not in names]
    if missing:
        raise AnalysisError(f"anchored solver modules vanished: {missing}")
    extra = [n for n in EXTRA if n in names]
    todo = ANCHORED + extra
    # in-memory edits (self-validation, sweeps) that touch only puzzle modules: only those solvers can change their verdict
    touched = [k.split("/")[-1][:-3] for k in repo.overrides]
    restricted = bool(repo.overrides) and all(k.startswith("cspuz/puzzle/") and t in todo for k, t in zip(repo.overrides, touched))
    if restricted:
        todo = [n for n in todo if n in touched]
    jobs = [(repo.root, repo.overrides, n) for n in todo]
    with ProcessPoolExecutor(max_workers=16) as ex:
        results = list(ex.map(_job, jobs))
    for (root, ov, name), (st, items, n) in zip(jobs, results):
        file = f"cspuz/puzzle/{name}.py"
        fn = f"solve_{name}"
        rep.saw(file, fn)
        if st == "undecided":
            rep.undecide("IDX-2", items[0][2])
            continue
        seen = set()
        for rule, cons, msg in items:
            if (rule, cons) in seen:
                continue
            seen.add((rule, cons))
            rep.finding(rule, file, fn, cons, msg)
        for rule in ("AKR", "IDX-1", "IDX-2", "DK"):
            if not any(r == rule for r, _, _ in items):
                rep.ok(rule, f"{fn}: {n} non-square instances", points=n)
    if not restricted:
        rep.floor("AKR", 26)
    from . import pzx

    pzx.run(repo, rep, only=todo if restricted else None)
    rep.info(f"solver modules outside the property's anchor list, evaluated by the same rules: {extra}; "
             f"not evaluated (no fixture recipe): {sorted(n for n in names if n not in ANCHORED and n not in extra)}")
    rep.assume("instances: 2x3, 3x2, 3x4, 4x3 boards with clues in all corners and on the last row/column, zero-valued clues included; "
               "for the solvers outside PZ-X the rules themselves (what is constrained) are not compared with the published puzzle rules")
