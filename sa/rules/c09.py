"""C09 - active_edges_acyclic admits exactly the forests (reference-schema comparison, see encodings.py)."""

from __future__ import annotations

import itertools
from typing import Any, Dict, List, Optional, Set, Tuple

from ..core.fde import IndexOutOfRange, Raised, Undecided
from ..core.findings import Report
from ..core.loader import Repo
from .c04 import triage
from .encodings import GRAPHS, Canon, Instance, RefArray, compare
from .graphnative import GRAPH


def forests(n: int, edges: List[Tuple[int, int]]) -> Set[Tuple[bool, ...]]:
    out = set()
    for pat in itertools.product([False, True], repeat=len(edges)):
        parent = list(range(n))

        def find(x: int) -> int:
            while parent[x] != x:
                parent[x] = parent[parent[x]]
                x = parent[x]
            return x

        ok = True
        for on, (a, b) in zip(pat, edges):
            if on:
                ra, rb = find(a), find(b)
                if ra == rb:
                    ok = False
                    break
                parent[ra] = rb
        if ok:
            out.add(pat)
    return out


def ref_acyclic(n: int, edges: List[Tuple[int, int]], consts: Optional[Dict[int, bool]] = None):
    cn = Canon({})
    consts = consts or {}
    E = lambda e: ("c", consts[e]) if e in consts else ("E", e)  # noqa: E731
    R = lambda i: ("rank", i)  # noqa: E731
    inc: List[List[Tuple[int, int]]] = [[] for _ in range(n)]
    for e, (a, b) in enumerate(edges):
        inc[a].append((b, e))
        inc[b].append((a, e))

    def cons() -> List[Tuple]:
        out = []
        for i in range(n):
            terms = []
            for j, e in inc[i]:
                terms.append(("b2i", cn.nary("and", [cn.cmp("<", R(j), R(i)), E(e)])))
                if i < j:
                    out.append(cn.cmp("!=", R(i), R(j)))
            out.append(cn.cmp("<=", cn.add(terms), ("c", 1)))
        return out

    return [RefArray("rank", "i", n, need=n)], cons


def run(repo: Repo, rep: Report) -> None:
    from .encodings import engine_selfcheck
    engine_selfcheck(rep)
    rep.rule("ENC-S", "active_edges_acyclic posts the reference at-most-one-lower-parent schema with pairwise distinct neighbour ranks (deviations triaged by projection)")
    rep.saw(GRAPH, "active_edges_acyclic")
    from .encodings import standard_history
    standard_history(repo, rep, "active_edges_acyclic", "edges", grid=False)
    deviating = []
    xitems: List[Any] = []
    n_ok = 0
    try:
        for gname, n, edges in GRAPHS:
            # edge flags as the caller's variables, and with Python constants among them (first edge True / last edge False)
            variants = [({}, "")]
            if edges:
                variants += [({0: True}, ", edge 0 given as the constant True"), ({len(edges) - 1: False}, f", edge {len(edges) - 1} given as the constant False")]
            for consts, note in variants:
                inst = Instance(repo)
                act = inst.user_bools(len(edges), "E")
                flags: Any = act if not consts else [consts.get(k, v) for k, v in enumerate(act.attrs["data"])]
                g = inst.w.graph(n, edges)
                inst.w.call("active_edges_acyclic", inst.s, flags, g)
                refs, cons = ref_acyclic(n, edges, consts)
                same, diff = compare(inst, refs, cons)
                spec = (lambda n=n, edges=edges, consts=consts: {p for p in itertools.product([False, True], repeat=len(edges))
                                                                   if tuple(consts.get(k, b) for k, b in enumerate(p)) in forests(n, edges)})
                if n <= 5:
                    xitems.append((f"graph '{gname}' {edges}{note}", inst, [a for a in inst.arrays if a["user"]][0]["ids"], spec))
                if same:
                    n_ok += 1
                else:
                    deviating.append((gname + note, n, edges, inst, diff, spec))
        # edge flags given as compound expressions of the caller's variables (a & b, a | b, a != b, ~a): the flag is whatever the
        # expression denotes - a rewrite of the flags (a proxy variable, a normal form) has to keep that meaning
        forms = [("a & b", "__and__", lambda cn_, x, y: cn_.nary("and", [x, y]), lambda p, q: p and q),
                 ("a | b", "__or__", lambda cn_, x, y: cn_.nary("or", [x, y]), lambda p, q: p or q),
                 ("a != b", "__ne__", lambda cn_, x, y: cn_.neg(cn_.iff(x, y)), lambda p, q: p != q),
                 ("~a", "__invert__", lambda cn_, x, y: cn_.neg(x), lambda p, q: not p)]
        for gname, n, edges in [g for g in GRAPHS if 1 <= len(g[2]) <= 4]:
            for fname, dunder, canon_of, meaning in forms:
                inst = Instance(repo)
                m = len(edges)
                A, B = inst.user_bools(m, "A"), inst.user_bools(m, "B")
                flags = [inst.w.cw.method(x, dunder)(y) if dunder != "__invert__" else inst.w.cw.method(x, dunder)()
                         for x, y in zip(A.attrs["data"], B.attrs["data"])]
                g = inst.w.graph(n, edges)
                inst.w.call("active_edges_acyclic", inst.s, flags, g)
                refs, cons0 = ref_acyclic(n, edges, None)

                def cons(cons0=cons0, canon_of=canon_of) -> List[Tuple]:
                    cn_ = Canon({})

                    def sub(t: Any) -> Any:
                        if isinstance(t, tuple) and len(t) == 2 and t[0] == "E":
                            return canon_of(cn_, ("A", t[1]), ("B", t[1]))
                        if isinstance(t, tuple):
                            return tuple(sub(x) for x in t)
                        if isinstance(t, list):
                            return [sub(x) for x in t]
                        return t

                    return [cn_.renorm(sub(c)) if hasattr(cn_, "renorm") else sub(c) for c in cons0()]

                same, diff = compare(inst, refs, cons)
                ids = [a for a in inst.arrays if a["user"] == "A"][0]["ids"] + [a for a in inst.arrays if a["user"] == "B"][0]["ids"]
                spec = (lambda n=n, edges=edges, m=m, meaning=meaning: {p for p in itertools.product([False, True], repeat=2 * m)
                                                                          if tuple(meaning(p[k], p[m + k]) for k in range(m)) in forests(n, edges)})
                note = f", flags given as [{fname}]"
                xitems.append((f"graph '{gname}' {edges}{note}", inst, ids, spec))
                if same:
                    n_ok += 1
                else:
                    deviating.append((gname + note, n, edges, inst, diff, spec))
    except Undecided as ex:
        rep.undecide("ENC-S", f"active_edges_acyclic: {ex}")
        return
    except (Raised, IndexOutOfRange) as ex:
        rep.finding("ENC-S", GRAPH, "active_edges_acyclic", "raises", f"posting the constraint raises {ex}")
        return
    if not deviating:
        rep.ok("ENC-S", f"active_edges_acyclic: constraint set equals the reference schema on {n_ok} graphs", points=n_ok)
        from .encodings import cross_check

        cross_check(rep, "active_edges_acyclic", "active_edges_acyclic", xitems, what="edge set")
    else:
        triage(rep, "active_edges_acyclic", "active_edges_acyclic", [d[:5] for d in deviating], forests,
               lambda inst: [i for a in inst.arrays if a["user"] for i in a["ids"]], "assignment of the caller's variables (edge flags, or their operands)", "one whose active edges form a forest",
               specs={id(d[3]): d[5] for d in deviating})
    rep.assume("the reference schema (every vertex has at most one active edge to a strictly lower-ranked neighbour, adjacent ranks distinct, "
               "n rank values) is exact: argument in DESIGN.md C09")
