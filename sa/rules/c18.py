"""C18 - the segmentation builder only ever produces valid room partitions.

SEG-E  abstract evaluation of SegmentationBuilder2D on small boards: from initial(), every update that
       candidates() proposes is applied with copy_with_update, breadth first over all reachable values up
       to a state budget, for several bound configurations and several scripts of the (mocked) random
       draws.  Every value must be a partition of the board into orthogonally connected blocks with the
       block count and every block size inside the configured bounds; candidates()/copy_with_update must
       leave the value they were applied to unchanged.
SEG-G  the guards in candidates() that protect the bounds are strict where they must be (linear
       entailment from the guard facts to the post-update bound), for every board size.
RNG-1  (shared with C19) no ambient randomness in segmentation.py.
"""

from __future__ import annotations

import ast
import copy
import itertools
from concurrent.futures import ProcessPoolExecutor
from typing import Any, Dict, List, Optional, Set, Tuple

from ..core import guards as G, linear as L
from ..core.classworld import ClassWorld
from ..core.fde import IndexOutOfRange, Obj, Raised, Undecided
from ..core.findings import Report
from ..core.loader import AnalysisError, Repo, norm, short
from .c19 import BUILDER, SEG, confinement

CONFIGS = [
    # (height, width, min_num_blocks, max_num_blocks, min_block_size, max_block_size)
    (1, 3, None, None, None, None),
    (2, 2, None, None, None, None),
    (2, 2, 2, 3, 1, 2),
    (2, 3, 2, 3, 2, 4),
    (2, 3, 2, 2, 3, 3),
    (2, 3, None, 4, None, 3),
    (3, 2, 3, None, 1, 2),
    (3, 3, 3, 4, 2, 4),
    (1, 4, 2, 3, 1, 2),
]
# non-convex starting partitions (U, C and ring shapes only arise after several moves): given through initial_blocks
SHAPED = [
    (3, 3, 1, 4, 1, 8, [[(0, 0), (1, 0), (2, 0), (2, 1), (2, 2), (1, 2), (0, 2)], [(0, 1), (1, 1)]]),
    (3, 3, 1, 4, 1, 8, [[(0, 0), (0, 1), (0, 2), (1, 2), (2, 2), (2, 1), (2, 0), (1, 0)], [(1, 1)]]),
    (2, 4, 1, 4, 1, 7, [[(0, 0), (1, 0), (1, 1), (1, 2), (1, 3), (0, 3)], [(0, 1), (0, 2)]]),
    (3, 4, 1, 5, 1, 10, [[(0, 0), (0, 1), (0, 2), (0, 3), (1, 3), (2, 3), (2, 2), (2, 1), (2, 0)], [(1, 0), (1, 1), (1, 2)]]),
]
# blocks whose cells are listed out of positional order (a merge concatenates two lists, a move appends): one-line boards and a 2x2 block
SHAPED += [
    (1, 4, 1, 4, 1, 4, [[(0, 2), (0, 3), (0, 0), (0, 1)]]),
    (4, 1, 1, 4, 1, 4, [[(3, 0), (0, 0), (1, 0), (2, 0)]]),
    (1, 5, 1, 3, 1, 4, [[(0, 4), (0, 1), (0, 3), (0, 2)], [(0, 0)]]),
    (2, 2, 1, 4, 1, 4, [[(1, 1), (0, 0), (1, 0), (0, 1)]]),
]
# starting points where one bound is already tight, one per guard of candidates(): the update that the guard must
# forbid is the only tempting one (a non-strict comparison then produces a value outside the bounds)
SHAPED += [
    (1, 2, 2, 2, 1, 2, [[(0, 0)], [(0, 1)]]),                       # merge with the block count at its minimum
    (1, 3, 1, 3, 1, 2, [[(0, 0), (0, 1)], [(0, 2)]]),               # merge that would exceed max_block_size
    (1, 2, 1, 1, 1, 2, [[(0, 0), (0, 1)]]),                         # split with the block count at its maximum
    (1, 3, 1, 3, 2, 3, [[(0, 0), (0, 1), (0, 2)]]),                 # split whose smaller half is below min_block_size
    (1, 4, 2, 2, 2, 3, [[(0, 0), (0, 1)], [(0, 2), (0, 3)]]),       # move out of a block at min_block_size
    (1, 4, 2, 2, 1, 2, [[(0, 0), (0, 1)], [(0, 2), (0, 3)]]),       # move into a block at max_block_size
    (2, 2, 2, 2, 2, 2, [[(0, 0), (0, 1)], [(1, 0), (1, 1)]]),       # everything tight on a 2x2 board
]
# initial_blocks= that break a bound from the *other* side than the default start does (one block covering the board can only
# have too few blocks / too large a block): too many blocks, a block below min_block_size.  Without allow_unmet_constraints_first
# initial() must walk them into the bounds before handing anything out (round 13: an "all met?" test that only looked at the
# two bounds the default start can break)
SHAPED += [
    (2, 2, 1, 2, 1, 4, [[(0, 0)], [(0, 1)], [(1, 0)], [(1, 1)]]),                            # four blocks, at most two allowed
    (2, 3, 1, 6, 2, 6, [[(0, 0)], [(0, 1), (0, 2), (1, 2), (1, 1), (1, 0)]]),                  # a single cell, min_block_size 2
    (1, 4, 1, 2, 2, 4, [[(0, 0)], [(0, 1)], [(0, 2), (0, 3)]]),                               # both at once on a one-line board
]
# allow_unmet_constraints_first=True: initial() hands out the given blocks although the block count is still below its minimum; what
# candidates() proposes from there must still be partitions into connected blocks (8th element "unmet": the starting value itself is
# only checked for that, the proposed values for everything but the lower count bound).  Rooms with a hub and arms (T, plus) have no
# split into two connected parts of two cells each: a fallback that forces one produces a disconnected block.
UNMET = [
    (3, 3, 3, None, 2, None, [[(0, 0), (0, 1), (0, 2), (1, 1)], [(1, 0), (2, 0), (2, 1), (2, 2), (1, 2)]], "unmet"),
    (3, 3, 4, None, 2, None, [[(0, 1), (1, 0), (1, 1), (1, 2), (2, 1)], [(0, 0)], [(0, 2)], [(2, 0)], [(2, 2)]][:1] + [[(0, 0)], [(0, 2)], [(2, 0)], [(2, 2)]], "unmet"),
]
# bounds no partition can meet (or that the random walk cannot reach): initial() may give up by raising, it must not return
STUCK = [
    (2, 2, None, None, 3, 3),
    (1, 3, None, None, 2, 2),
    (2, 3, 2, 2, 2, 2),
    (2, 2, 3, 3, 2, 4),
]
SCRIPTS = [[0, 1, 2, 3, 4, 5, 6, 7], [3, 1, 4, 1, 5, 9, 2, 6], [7, 0, 5, 2, 8, 1, 6, 3]]


def connected(block: List[Tuple[int, int]]) -> bool:
    if not block:
        return False
    bs = set(block)
    seen = {block[0]}
    st = [block[0]]
    while st:
        y, x = st.pop()
        for dy, dx in ((1, 0), (-1, 0), (0, 1), (0, -1)):
            p = (y + dy, x + dx)
            if p in bs and p not in seen:
                seen.add(p)
                st.append(p)
    return len(seen) == len(bs)


def validity(value: Any, cfg: Tuple) -> Optional[str]:
    h, w, mnb, mxb, mns, mxs = cfg
    if not isinstance(value, list) or not all(isinstance(b, list) for b in value):
        return f"value is not a list of blocks: {value!r}"
    cells = [tuple(c) for b in value for c in b]
    want = sorted((y, x) for y in range(h) for x in range(w))
    if sorted(cells) != want:
        return f"blocks {value} do not partition the {h}x{w} board"
    for b in value:
        if not connected([tuple(c) for c in b]):
            return f"block {b} is not orthogonally connected"
    nb = len(value)
    if nb < (mnb or 1) or nb > (mxb or h * w):
        return f"{nb} blocks, outside [{mnb or 1}, {mxb or h * w}]"
    for b in value:
        if len(b) < (mns or 1) or len(b) > (mxs or h * w):
            return f"block {b} has size {len(b)}, outside [{mns or 1}, {mxs or h * w}]"
    return None


def _job(args) -> Tuple[str, Optional[str], int]:
    root, overrides, cfg, script = args
    init_blocks = None
    unmet = len(cfg) == 8
    if len(cfg) >= 7:
        init_blocks = cfg[6]
        cfg = cfg[:6]
    repo = Repo(root, overrides)
    cw = ClassWorld([repo.mod(BUILDER), repo.mod(SEG)])
    cw.ev.max_steps = 3_000_000
    state = [sum(script) * 2654435761 % (2 ** 32) or 1]

    def lcg():
        while True:
            state[0] = (state[0] * 1103515245 + 12345) % (2 ** 31)
            yield state[0] >> 8

    draws = lcg()
    cw.ev.max_loop = 5000
    cw.genv["srandom.randint"] = lambda a, b: a + next(draws) % (b - a + 1)
    cw.genv["srandom.choice"] = lambda xs: xs[next(draws) % len(xs)] if len(xs) else (_ for _ in ()).throw(Raised("IndexError(choice from empty)"))
    cw.genv["srandom.shuffle"] = lambda xs: None
    cw.genv["deepcopy"] = copy.deepcopy
    h, w, mnb, mxb, mns, mxs = cfg
    n = 0
    try:
        kw = {"allow_unmet_constraints_first": True} if unmet else {}
        b = cw.new("SegmentationBuilder2D", h, w, min_num_blocks=mnb, max_num_blocks=mxb, min_block_size=mns, max_block_size=mxs,
                   initial_blocks=copy.deepcopy(init_blocks), **kw)
        if unmet:
            # only "partition into connected blocks" is asked of the values here (the bounds are unmet by construction)
            cfg = (h, w, None, None, None, None)
        cw.ev.steps = 0
        try:
            init = cw.method(b, "initial")()
        except Raised as ex:
            if "choice from empty" in ex.what and len(cfg) == 6 and cfg in STUCK:
                # bounds that cannot be met: giving up with an exception is fine, returning a partition that breaks them is not
                return "ok", None, n
            raise
        msg = validity(init, cfg)
        if msg:
            return "bad", f"config {cfg}: initial() returns {init}: {msg}", n
        seen: Set[Any] = set()
        frontier = [init]
        budget = 60 if init_blocks is None else 12
        depth = 0
        while frontier and budget > 0 and depth < (3 if init_blocks is None else 2):
            nxt_frontier = []
            for cur in frontier:
                key = frozenset(frozenset(map(tuple, blk)) for blk in cur)
                if key in seen:
                    continue
                seen.add(key)
                budget -= 1
                if budget <= 0:
                    break
                before = copy.deepcopy(cur)
                cw.ev.steps = 0
                cands = cw.method(b, "candidates")(cur)
                if cur != before:
                    return "bad", f"config {cfg}: candidates() mutated the value {before} -> {cur}", n
                for upd in cands:
                    n += 1
                    cw.ev.steps = 0
                    new = cw.method(b, "copy_with_update")(cur, upd)
                    if cur != before:
                        return "bad", f"config {cfg}: copy_with_update mutated the value it was applied to ({before} -> {cur}) for update {upd}", n
                    msg = validity(new, cfg)
                    if msg:
                        return "bad", f"config {cfg}: from {cur} the proposed update {upd} gives {new}: {msg}", n
                    nxt_frontier.append(new)
            frontier = nxt_frontier
            depth += 1
    except Undecided as ex:
        return "undecided", f"config {cfg}: {ex}", n
    except Raised as ex:
        return "bad", f"config {cfg}: raises {ex.what}", n
    except IndexOutOfRange as ex:
        return "bad", f"config {cfg}: raises IndexError ({ex})", n
    except RecursionError:
        return "undecided", f"config {cfg}: analyser recursion limit", n
    return "ok", None, n


def evaluation(repo: Repo, rep: Report) -> None:
    rep.rule("SEG-E", "every value reachable from initial() through proposed updates is a partition into connected blocks within all bounds; updates never mutate their input")
    rep.saw(SEG)
    jobs = [(repo.root, repo.overrides, cfg, sc) for cfg in CONFIGS + STUCK for sc in SCRIPTS] + [(repo.root, repo.overrides, cfg, sc) for cfg in SHAPED + UNMET for sc in SCRIPTS]
    with ProcessPoolExecutor(max_workers=16) as ex:
        results = list(ex.map(_job, jobs))
    bad = [r for r in results if r[0] == "bad"]
    und = [r for r in results if r[0] == "undecided"]
    total = sum(r[2] for r in results)
    if und:
        rep.undecide("SEG-E", und[0][1] or "")
    if bad:
        rep.finding("SEG-E", SEG, "SegmentationBuilder2D.candidates", "segmentation updates", bad[0][1] or "")
    elif not und:
        rep.ok("SEG-E", f"{len(jobs)} (configuration, draw script) runs, {total} applied updates: all values valid, inputs never mutated", points=total)


def guards_strict(repo: Repo, rep: Report) -> None:
    """SEG-G: at every place where an update is proposed, the dominating guards entail the bounds that hold after the update.
    The sites are recognised by the *shape of the proposed value*, not by names:
      merge  a pair of block indices is recorded (`S.add((a, b))` / `.append`), to be replaced by the union of the two blocks
      split  ([i], [A, B])                    one block replaced by two
      move   ([i, j], [[p for p in cur[s] if p != c], cur[d] + [c]])   one cell handed from block s to block d
    `cur` is the partition parameter of the function the site is in; the block count is len(cur) (or a local equal to it)."""
    rep.rule("SEG-G", "bound guards in candidates() entail the post-update bounds (merge: count-1 >= min, sum <= max; split: count+1 <= max, halves >= min; move: donor-1 >= min, receiver+1 <= max)")
    mod = repo.mod(SEG)
    fn = mod.func("SegmentationBuilder2D.candidates")
    rep.saw(SEG, "SegmentationBuilder2D.candidates")
    sites: List[Tuple[ast.AST, G.Facts, str]] = []  # (proposed value, facts, partition parameter)
    move_values: List[Tuple[ast.AST, G.Facts, str]] = []
    G.register_predicates({q: f for q, f in mod.funcs.items() if q.startswith("SegmentationBuilder2D.") or "." not in q})

    callsites: Dict[str, List[Tuple[ast.Call, G.Facts]]] = {}
    entry_of_ref: List[Any] = [None]

    def walk(f: ast.FunctionDef, cur: Optional[str], entry: Optional[G.Facts] = None) -> None:
        params = [a.arg for a in f.args.args if a.arg != "self"]
        cur_here = cur if cur in [a.arg for a in f.args.args] or not params else None
        if cur_here is None and params:
            cur_here = params[0]

        def on_expr(n: ast.AST, facts: G.Facts) -> None:
            if isinstance(n, ast.Call) and isinstance(n.func, ast.Attribute) and isinstance(n.func.value, ast.Name) and n.func.value.id == "self":
                callsites.setdefault(n.func.attr, []).append((n, facts))
            if isinstance(n, ast.Call) and isinstance(n.func, ast.Name) and n.func.id in nested:
                nested_calls.setdefault(n.func.id, []).append((n, facts))
            if isinstance(n, ast.Call) and isinstance(n.func, ast.Attribute) and n.func.attr in ("append", "add") and len(n.args) == 1:
                v = n.args[0]
                if isinstance(v, ast.IfExp) and isinstance(v.body, ast.Tuple) and isinstance(v.orelse, ast.Tuple) and \
                        sorted(norm(e) for e in v.body.elts) == sorted(norm(e) for e in v.orelse.elts):
                    v = v.body  # (i, j) if i < j else (j, i): the same pair either way
                if isinstance(v, ast.Tuple) and len(v.elts) == 2:
                    sites.append((v, facts, cur_here or "current"))
            # the value of a move wherever it is built (e.g. returned by a helper and appended by its caller):
            # [[p for p in D if p != c], R + [c]]
            if isinstance(n, ast.List) and len(n.elts) == 2 and isinstance(n.elts[0], ast.ListComp) and len(n.elts[0].generators) == 1 \
                    and len(n.elts[0].generators[0].ifs) == 1 and isinstance(n.elts[0].generators[0].ifs[0], ast.Compare) \
                    and isinstance(n.elts[0].generators[0].ifs[0].ops[0], ast.NotEq) and isinstance(n.elts[1], ast.BinOp) \
                    and isinstance(n.elts[1].op, ast.Add) and isinstance(n.elts[1].right, ast.List) and len(n.elts[1].right.elts) == 1:
                move_values.append((n, facts, cur_here or "current"))

        nested: Dict[str, ast.FunctionDef] = {}
        nested_calls: Dict[str, List[Tuple[ast.Call, G.Facts]]] = {}

        def on_nested(nfn: ast.FunctionDef, _f: G.Facts) -> None:
            nested[nfn.name] = nfn

        G.Walker(on_expr=on_expr, on_nested=on_nested).run_function(f, entry)
        # a nested helper is analysed under what holds at every one of its calls, restated over its parameters; one that is also
        # passed around as a value (or called before its definition was seen) gets no entry facts
        scope = {a.arg for a in f.args.args} | {n.id for n in ast.walk(f) if isinstance(n, ast.Name) and isinstance(n.ctx, ast.Store)}
        for nm, nfn in nested.items():
            escapes = any(isinstance(x, ast.Name) and x.id == nm and isinstance(x.ctx, ast.Load) for x in ast.walk(f)) and \
                sum(1 for x in ast.walk(f) if isinstance(x, ast.Name) and x.id == nm and isinstance(x.ctx, ast.Load)) != len(nested_calls.get(nm, []))
            walk(nfn, cur_here, None if escapes else entry_of_ref[0](nfn, nested_calls.get(nm, []), scope))

    # the helper methods reachable from candidates() through self.<m>(...)
    reach: Dict[str, ast.FunctionDef] = {"candidates": fn}
    todo = [fn]
    while todo:
        c = todo.pop()
        for n in ast.walk(c):
            if isinstance(n, ast.Call) and isinstance(n.func, ast.Attribute) and isinstance(n.func.value, ast.Name) and n.func.value.id == "self":
                q = f"SegmentationBuilder2D.{n.func.attr}"
                if n.func.attr not in reach and mod.has_func(q):
                    reach[n.func.attr] = mod.func(q)
                    rep.saw(SEG, q)
                    todo.append(reach[n.func.attr])
    callers: Dict[str, Set[str]] = {m: set() for m in reach}
    for m, f_ in reach.items():
        for n in ast.walk(f_):
            if isinstance(n, ast.Call) and isinstance(n.func, ast.Attribute) and isinstance(n.func.value, ast.Name) and n.func.value.id == "self" \
                    and n.func.attr in reach and n.func.attr != m:
                callers[n.func.attr].add(m)

    module_names = {q for q in mod.funcs if "." not in q} | {"len", "self", "min", "max", "sum", "abs", "int"}

    def rename_facts(facts: G.Facts, f_: ast.FunctionDef, call: ast.Call, free: Set[str] = frozenset()) -> G.Facts:
        """the facts of one call site, restated over the callee's parameters: every occurrence of an argument expression becomes the
        parameter it is bound to; a fact that still mentions a caller-side name afterwards is out of scope in the callee and is dropped"""
        params = [a.arg for a in f_.args.args if a.arg != "self"]
        passed = {p: a for p, a in zip(params, call.args)}
        passed.update({k.arg: k.value for k in call.keywords if k.arg})
        by_text = {norm(a): p_ for p_, a in passed.items()}
        # a closure reads the enclosing function's names at the time of the call: those it does not shadow keep their meaning
        own = {a.arg for a in f_.args.args} | {n.id for n in ast.walk(f_) if isinstance(n, ast.Name) and isinstance(n.ctx, ast.Store)}
        allowed = module_names | set(by_text.values()) | (set(free) - own)

        class Sub(ast.NodeTransformer):
            depth = 0

            def generic_visit(self, node: ast.AST) -> ast.AST:
                if isinstance(node, ast.expr) and norm(node) in by_text:
                    return ast.Name(id=by_text[norm(node)], ctx=ast.Load())
                if isinstance(node, ast.Name) and node.id not in allowed and self.depth < 4:
                    # a caller local with a single known definition (num_blocks = len(current)) stands for that expression
                    d = facts.definition(node.id)
                    if d is not None:
                        try:
                            tree = ast.parse(d, mode="eval").body
                        except SyntaxError:
                            return node
                        self.depth += 1
                        try:
                            return self.generic_visit(tree)
                        finally:
                            self.depth -= 1
                return super().generic_visit(node)

            visit = generic_visit  # type: ignore[assignment]

        def rn(text: str) -> Optional[str]:
            try:
                tree = ast.parse(text, mode="eval").body
            except SyntaxError:
                return None
            tree = Sub().generic_visit(tree)
            for x in ast.walk(tree):
                if isinstance(x, ast.Name) and x.id not in allowed:
                    return None
            return norm(tree)

        def rn_form(form: L.Form) -> Optional[L.Form]:
            out: L.Form = {}
            for k, v in form.items():
                if not isinstance(k, str):
                    out[k] = v
                    continue
                info = L.SYMINFO.get(k)
                if info is not None and info[0] != "len":
                    return None
                k2 = rn(k)
                if k2 is None:
                    return None
                if info is not None:
                    inner = rn(info[1])
                    if inner is None:
                        return None
                    L.SYMINFO[k2] = ("len", inner)
                out[k2] = out.get(k2, 0) + v
            return out

        lin = [g for g in (rn_form(f0) for f0 in facts.lin) if g is not None]
        neq = [g for g in (rn_form(f0) for f0 in facts.neq) if g is not None]
        tr = [t2 for t2 in (rn(t) for t in facts.true) if t2 is not None]
        fa = [t2 for t2 in (rn(t) for t in facts.false) if t2 is not None]
        return G.Facts(lin, neq, tr, fa, ())

    def entry_of(f_: ast.FunctionDef, calls: List[Tuple[ast.Call, G.Facts]], free: Set[str] = frozenset()) -> Optional[G.Facts]:
        """what holds at every call of a helper, restated over its parameters (a guard such as `if n > self.min_num_blocks:` or
        `if self._can_give(current, i, j, c):` around the call); names the helper assigns mean something else inside it"""
        if not calls:
            return None
        acc: Optional[G.Facts] = None
        for call, facts in calls:
            if any(isinstance(a, ast.Starred) for a in call.args) or any(k.arg is None for k in call.keywords):
                return None
            r = rename_facts(facts, f_, call, free)
            acc = r if acc is None else acc.join(r)
        assert acc is not None
        local = {n.id for n in ast.walk(f_) if isinstance(n, ast.Name) and isinstance(n.ctx, ast.Store)}
        return acc.havoc(local)

    entry_of_ref[0] = entry_of

    def entry_facts(m: str) -> Optional[G.Facts]:
        return entry_of(reach[m], callsites.get(m, []))

    walked: Set[str] = set()
    order = ["candidates"]
    pending = [m for m in reach if m != "candidates"]
    while pending:
        ready = [m for m in pending if callers[m] <= set(order)]
        nxt = ready[0] if ready else pending[0]
        order.append(nxt)
        pending.remove(nxt)
    for m in order:
        ent = entry_facts(m) if m != "candidates" and callers[m] <= walked else None
        walk(reach[m], None, ent)
        walked.add(m)

    kinds = {"merge": 0, "split": 0, "move": 0}

    def ln(text: str) -> Any:
        L.SYMINFO[f"len({text})"] = ("len", text)
        return L.sym(f"len({text})")

    # a move value that is not written directly inside an appended tuple is a site of its own (the index pair is not needed)
    inside = {id(v.elts[1]) for v, _f, _c in sites if isinstance(v, ast.Tuple) and len(v.elts) == 2}
    for mv, facts_mv, cur_mv in move_values:
        if id(mv) not in inside:
            pair = ast.Tuple(elts=[ast.List(elts=[ast.Name(id="_", ctx=ast.Load()), ast.Name(id="_", ctx=ast.Load())], ctx=ast.Load()), mv], ctx=ast.Load())
            pair.lineno = getattr(mv, "lineno", 0)  # type: ignore[attr-defined]
            sites.append((pair, facts_mv, cur_mv))
    for val, facts, cur in sites:
        pr = G.Prover(facts)
        nb = ln(cur)
        a0, a1 = val.elts
        names0 = [norm(e) for e in a0.elts] if isinstance(a0, ast.List) else None
        # ---- merge: a pair of block indices (names or min/max of two names) -------------------------------
        if names0 is None:
            ids = []
            for e in val.elts:
                ns = sorted({x.id for x in ast.walk(e) if isinstance(x, ast.Name) and x.id not in ("min", "max")})
                ids.append(ns)
            flat = sorted({x for ns in ids for x in ns})
            if len(flat) != 2:
                continue
            kinds["merge"] += 1
            i, j = flat
            ok1 = pr.ge0(L.add(L.add(nb, L.sym("self.min_num_blocks"), -1), L.const(-1)))
            ok2 = pr.ge0(L.add(L.sym("self.max_block_size"), L.add(ln(f"{cur}[{i}]"), ln(f"{cur}[{j}]")), -1))
            if ok1 and ok2:
                rep.ok("SEG-G", f"merge pair `{short(val)}`: count - 1 >= min_num_blocks and merged size <= max_block_size follow from the guards")
            else:
                rep.finding("SEG-G", SEG, "SegmentationBuilder2D.candidates", f"merge guard for {short(val)}",
                            "a merge is proposed where the guards do not imply " +
                            ("block count - 1 >= min_num_blocks" if not ok1 else f"len({cur}[{i}]) + len({cur}[{j}]) <= max_block_size"), val.lineno)
            continue
        if not isinstance(a1, ast.List):
            continue
        # ---- split ---------------------------------------------------------------------------------------
        if len(a0.elts) == 1 and len(a1.elts) == 2 and not isinstance(a1.elts[0], ast.ListComp):
            kinds["split"] += 1
            ok1 = pr.ge0(L.add(L.add(L.sym("self.max_num_blocks"), nb, -1), L.const(-1)))
            a, b = (norm(e) for e in a1.elts)
            ok2 = pr.ge0(L.add(ln(a), L.sym("self.min_block_size"), -1)) and pr.ge0(L.add(ln(b), L.sym("self.min_block_size"), -1))
            if ok1 and ok2:
                rep.ok("SEG-G", "split: count + 1 <= max_num_blocks and both halves >= min_block_size follow from the guards")
            else:
                rep.finding("SEG-G", SEG, "SegmentationBuilder2D.candidates", f"split guard for {short(val)}",
                            "a split is proposed where the guards do not imply " +
                            ("block count + 1 <= max_num_blocks" if not ok1 else "both halves >= min_block_size"), val.lineno)
        # ---- move ----------------------------------------------------------------------------------------
        elif len(a0.elts) == 2 and len(a1.elts) == 2 and isinstance(a1.elts[0], ast.ListComp):
            kinds["move"] += 1
            comp = a1.elts[0]
            donor = norm(comp.generators[0].iter)
            moved = norm(comp.generators[0].ifs[0].comparators[0]) if comp.generators[0].ifs and isinstance(comp.generators[0].ifs[0], ast.Compare) else None
            recv = norm(a1.elts[1].left) if isinstance(a1.elts[1], ast.BinOp) else None
            okd = pr.ge0(L.add(L.add(ln(donor), L.sym("self.min_block_size"), -1), L.const(-1)))
            okr = bool(recv) and pr.ge0(L.add(L.add(L.sym("self.max_block_size"), ln(recv or "?"), -1), L.const(-1)))
            conn = facts.knows(f"_is_connected({donor}, {moved})") is True
            appended = norm(a1.elts[1].right.elts[0]) if recv and isinstance(a1.elts[1].right, ast.List) and a1.elts[1].right.elts else None
            if okd and okr and conn and appended == moved:
                rep.ok("SEG-G", f"move of {moved} from {donor} to {recv}: donor-1 >= min, receiver+1 <= max, donor stays connected without exactly that cell")
            else:
                why = ("donor size - 1 >= min_block_size" if not okd else "receiver size + 1 <= max_block_size" if not okr else
                       f"the connectivity test is about the cell that is removed ({moved})" if not conn else "the cell added to the receiver is the one removed from the donor")
                rep.finding("SEG-G", SEG, "SegmentationBuilder2D.candidates", f"move guard for {short(val, 70)}",
                            f"a cell move is proposed where the guards do not imply that {why}", val.lineno)
    if kinds["merge"] < 1 or kinds["split"] < 1 or kinds["move"] < 1:
        raise AnalysisError(f"candidates(): update kinds found {kinds}")


def _connected_subsets(h: int, w: int, max_size: int) -> List[List[Tuple[int, int]]]:
    cells_ = [(y, x) for y in range(h) for x in range(w)]
    out = []
    for mask in range(1, 1 << len(cells_)):
        sub = [c for k, c in enumerate(cells_) if mask >> k & 1]
        if 2 <= len(sub) <= max_size and connected(sub):
            out.append(sub)
    return out


def _split_job(args) -> Tuple[str, Optional[str], int]:
    root, overrides, blocks = args
    repo = Repo(root, overrides)
    cw = ClassWorld([repo.mod(BUILDER), repo.mod(SEG)])
    cw.ev.max_steps = 3_000_000
    cw.ev.max_loop = 5000
    cw.genv["deepcopy"] = copy.deepcopy
    n = 0
    try:
        for block in blocks:
            # every order in which the cells may be listed matters little; every pair of distinct seeds does
            for a in range(len(block)):
                for b in range(len(block)):
                    if a == b:
                        continue
                    draws = iter([a, b])
                    cw.genv["srandom.randint"] = lambda lo, hi, draws=draws: next(draws)
                    cw.ev.steps = 0
                    n += 1
                    res = cw.call("split_block", list(block))
                    if not (isinstance(res, tuple) and len(res) == 2):
                        return "bad", f"split_block({block}) with seeds {block[a]}, {block[b]} returns {res!r}", n
                    pa, pb = [tuple(c) for c in res[0]], [tuple(c) for c in res[1]]
                    if sorted(pa + pb) != sorted(block) or not pa or not pb:
                        return "bad", f"split_block({block}) with seeds {block[a]}, {block[b]} returns {pa} / {pb}: not a partition into two non-empty parts", n
                    for part in (pa, pb):
                        if not connected(part):
                            return "bad", (f"split_block({block}) with seeds {block[a]}, {block[b]} returns the part {part}, "
                                           "which is not orthogonally connected"), n
    except StopIteration:
        return "undecided", "split_block draws more than two random numbers for distinct seeds", n
    except Undecided as ex:
        return "undecided", str(ex), n
    except Raised as ex:
        return "bad", f"split_block raises {ex.what}", n
    except IndexOutOfRange as ex:
        return "bad", f"split_block raises IndexError ({ex})", n
    return "ok", None, n


def split_semantics(repo: Repo, rep: Report) -> None:
    rep.rule("SEG-S", "split_block: for every connected block of at most 6 cells inside a 3x3 board (5 cells in 2x4) and every pair of distinct seed cells, "
                      "the two parts are non-empty, orthogonally connected and partition the block")
    blocks = _connected_subsets(3, 3, 6 if rep.tier != "quick" else 5) + _connected_subsets(2, 4, 5)
    chunks = [blocks[i::16] for i in range(16)]
    with ProcessPoolExecutor(max_workers=16) as ex:
        results = list(ex.map(_split_job, [(repo.root, repo.overrides, ch) for ch in chunks if ch]))
    bad = [r for r in results if r[0] == "bad"]
    und = [r for r in results if r[0] == "undecided"]
    total = sum(r[2] for r in results)
    if bad:
        rep.finding("SEG-S", SEG, "split_block", "split of a block", bad[0][1] or "")
    elif und:
        rep.undecide("SEG-S", und[0][1] or "")
    else:
        rep.ok("SEG-S", f"{len(blocks)} connected blocks x all ordered pairs of distinct seeds = {total} splits: two non-empty connected parts each", points=total)


def _conn_job(args) -> Tuple[str, Optional[str], int]:
    root, overrides, fname, blocks = args
    repo = Repo(root, overrides)
    cw = ClassWorld([repo.mod(BUILDER), repo.mod(SEG)])
    cw.ev.max_steps = 3_000_000
    cw.ev.max_loop = 5000
    n = 0
    try:
        for block in blocks:
            for order in (list(block), list(reversed(block))):
                for excluded in order:
                    rest = [c for c in order if c != excluded]
                    if not rest:
                        continue
                    cw.ev.steps = 0
                    n += 1
                    got = cw.call(fname, list(order), excluded)
                    want = connected(rest)
                    if got is not want:
                        return "bad", (f"{fname}({order}, {excluded}) returns {got!r}: the block without that cell is "
                                       f"{'' if want else 'not '}orthogonally connected"), n
    except Undecided as ex:
        return "undecided", str(ex), n
    except Raised as ex:
        return "bad", f"{fname} raises {ex.what}", n
    except IndexOutOfRange as ex:
        return "bad", f"{fname} raises IndexError ({ex})", n
    return "ok", None, n


def connectivity_semantics(repo: Repo, rep: Report) -> None:
    rep.rule("SEG-C", "the donor-connectivity test used by the move guards: for every connected block inside a 3x3 board (and 2x4, 1x4) and every "
                      "cell of it, in both listing orders, it answers exactly whether the block without that cell is orthogonally connected")
    mod = repo.mod(SEG)
    cands = [q for q, fn in mod.funcs.items() if "." not in q and "connect" in q and len(fn.args.args) == 2]
    fname = "_is_connected" if "_is_connected" in cands else (cands[0] if len(cands) == 1 else None)
    if fname is None:
        rep.undecide("SEG-C", f"the connectivity helper of {SEG} was not identified (candidates: {cands})")
        return
    rep.saw(SEG, fname)
    blocks = _connected_subsets(3, 3, 9) + _connected_subsets(2, 4, 8) + _connected_subsets(1, 4, 4)
    chunks = [blocks[i::16] for i in range(16)]
    with ProcessPoolExecutor(max_workers=16) as ex:
        results = list(ex.map(_conn_job, [(repo.root, repo.overrides, fname, ch) for ch in chunks if ch]))
    bad = [r for r in results if r[0] == "bad"]
    und = [r for r in results if r[0] == "undecided"]
    total = sum(r[2] for r in results)
    if bad:
        rep.finding("SEG-C", SEG, fname, "connectivity of a block without one cell", bad[0][1] or "")
    elif und:
        rep.undecide("SEG-C", und[0][1] or "")
    else:
        rep.ok("SEG-C", f"{len(blocks)} connected blocks x every removed cell x two listing orders = {total} questions answered correctly", points=total)


class _Hold:
    """SEG-G failures mean 'not entailed by the guards', not 'refuted': they are reported as violations only when SEG-E
    has a concrete history that breaks a bound; alone they leave the property undecided (exit 2)"""

    def __init__(self, rep: Report):
        self.rep = rep
        self.held: List[Tuple[Any, ...]] = []

    def __getattr__(self, name: str) -> Any:
        return getattr(self.rep, name)

    def finding(self, rule: str, *a: Any, **k: Any) -> None:
        if rule == "SEG-G":
            self.held.append((rule,) + a)
        else:
            self.rep.finding(rule, *a, **k)


def run(repo: Repo, rep: Report) -> None:
    from ..selftest.guards_check import engine_selfcheck
    engine_selfcheck(rep)
    confinement(repo, rep)
    hold = _Hold(rep)
    guards_strict(repo, hold)  # type: ignore[arg-type]
    before = len(rep.findings)
    split_semantics(repo, rep)
    connectivity_semantics(repo, rep)
    evaluation(repo, rep)
    witnessed = len(rep.findings) > before
    for h in hold.held:
        rule, file, func, construct, message = h[:5]
        line = h[5] if len(h) > 5 else None
        if witnessed:
            rep.finding(rule, file, func, construct, message, line)
        else:
            rep.undecide(rule, f"{construct}: {message} (not entailed; SEG-E found no history that breaks a bound)")
    rep.assume("boards up to 3x3 and three draw scripts stand for all boards/seeds in SEG-E; SEG-G is size-independent")
