"""ENC family (C04-C10): the auxiliary-variable encodings of cspuz/graph.py.

Method.  Each graph-constraint function is evaluated abstractly on a family of small graphs (the
constraints are *built*, never solved).  The set of constraint trees it posts is put into a canonical
form (commutativity, comparison direction, double negation, count/threshold normal forms) and compared,
up to the naming of auxiliary arrays, with a *reference schema* of the same encoding written in the
checker, whose exactness is argued in DESIGN.md.  Domains of rank-like arrays are compared by
sufficiency (at least as many values as the argument needs), not by equality.

  ENC-S  the posted constraint set equals the reference schema on every instance
A deviation is not by itself a violation (another exact encoding is conceivable).  It is triaged on the
same small instances: the projection of the deviating constraint set onto the caller's variables is
enumerated and compared with the graph-theoretic definition; a differing pattern is reported as a
VIOLATION with that pattern as witness, otherwise the check stops with ANALYSIS-ERROR (undecided).
"""

from __future__ import annotations

import itertools
import time
from typing import Any, Callable, Dict, List, Optional, Sequence, Set, Tuple

from ..core.fde import IndexOutOfRange, Obj, Raised, Tag, Undecided
from ..core.findings import Report
from ..core.loader import AnalysisError, Repo
from . import exprmodel as EM
from .graphnative import GRAPH, GraphWorld

T = Tuple  # canonical term


# ------------------------------------------------------------------------------------------
# canonical form of constraint trees
# ------------------------------------------------------------------------------------------

FLIP = {"<": ">", "<=": ">=", ">": "<", ">=": "<=", "==": "==", "!=": "!="}
NEG = {"<": ">=", "<=": ">", ">": "<=", ">=": "<", "==": "!=", "!=": "=="}
OPREL = {"EQ": "==", "NE": "!=", "LE": "<=", "LT": "<", "GE": ">=", "GT": ">"}


class Canon:
    def __init__(self, names: Dict[int, T]):
        self.names = names  # variable id -> canonical name

    def term(self, t: Any) -> T:
        if isinstance(t, bool):
            return ("c", t)
        if isinstance(t, int):
            return ("c", t)
        if t is None:
            return ("c", None)
        if not isinstance(t, Obj):
            raise Undecided(f"cannot canonicalise {t!r}")
        op = t.attrs.get("op")
        opn = op.name.split(".")[-1] if isinstance(op, Tag) else None
        if opn == "VAR":
            vid = t.attrs.get("id")
            if vid not in self.names:
                raise Undecided(f"variable #{vid} has no role")
            return self.names[vid]
        xs = [self.term(o) for o in t.attrs.get("operands", [])]
        if opn in ("BOOL_CONSTANT", "INT_CONSTANT"):
            return xs[0]
        if opn == "NOT":
            return self.neg(xs[0])
        if opn in ("AND", "OR"):
            return self.nary(opn.lower(), xs)
        if opn == "IMP":
            return self.nary("or", [self.neg(xs[0]), xs[1]])
        if opn in ("IFF", "XOR"):
            a, b = xs
            if opn == "XOR":
                b = self.neg(b)
            # iff(not a, b) == iff(a, not b): keep negation off the smaller side
            return self.iff(a, b)
        if opn in OPREL:
            return self.cmp(OPREL[opn], xs[0], xs[1])
        if opn == "IF":
            c, a, b = xs
            if a == ("c", 1) and b == ("c", 0):
                return ("b2i", c)
            if a == ("c", 0) and b == ("c", 1):
                return ("b2i", self.neg(c))
            if c[0] == "not":
                return ("ite", c[1], b, a)
            return ("ite", c, a, b)
        if opn == "ADD":
            return self.add(xs)
        if opn == "SUB":
            return self.add([xs[0]] + [("neg", x) for x in xs[1:]])
        if opn == "NEG":
            return ("neg", xs[0])
        if opn == "ALLDIFF":
            return ("alldiff",) + tuple(sorted(xs, key=repr))
        if opn and opn.startswith("GRAPH_"):
            return self.native(opn, xs)
        raise Undecided(f"operator {opn}")

    def fold(self, t: T) -> T:
        """constant folding after construction (both sides of a comparison go through it)"""
        if not isinstance(t, tuple) or not t or not isinstance(t[0], str):
            return t
        k = t[0]
        if k == "c" or (len(t) == 2 and isinstance(t[1], int) and k not in ("b2i", "not", "neg")):
            return t
        if k == "b2i":
            x = self.fold(t[1])
            return ("c", 1 if x[1] else 0) if x[0] == "c" else ("b2i", x)
        if k == "ite":
            c, a, b = self.fold(t[1]), self.fold(t[2]), self.fold(t[3])
            if c[0] == "c":
                return a if c[1] else b
            if a == ("c", 1) and b == ("c", 0):
                return ("b2i", c)
            if a == ("c", 0) and b == ("c", 1):
                return ("b2i", self.neg(c))
            return ("ite", c, a, b)
        if k == "not":
            return self.neg(self.fold(t[1]))
        if k in ("and", "or"):
            return self.nary(k, [self.fold(x) for x in t[1:]])
        if k == "add":
            return self.add([self.fold(x) for x in t[1:]])
        if k == "iff":
            return self.iff(self.fold(t[1]), self.fold(t[2]))
        if k == "cmp":
            a, b = self.fold(t[2]), self.fold(t[3])
            off = t[4][1] if len(t) > 4 else 0
            if off:
                b = self.add([b, ("c", off)])
            if a[0] == "c" and b[0] == "c" and not isinstance(a[1], bool) and not isinstance(b[1], bool):
                x, y = a[1], b[1]
                return ("c", {"<": x < y, "<=": x <= y, ">": x > y, ">=": x >= y, "==": x == y, "!=": x != y}[t[1]])
            return self.cmp(t[1], a, b)
        if k == "neg":
            x = self.fold(t[1])
            return ("c", -x[1]) if x[0] == "c" else ("neg", x)
        if k.startswith("GRAPH_"):
            return t
        return (k,) + tuple(self.fold(x) if isinstance(x, tuple) else x for x in t[1:])

    def native(self, opn: str, xs: List[T]) -> T:
        """native operators: the order in which the edges are listed is immaterial; borders travel with their edge"""
        try:
            n, m = xs[0][1], xs[1][1]
            verts = tuple(xs[2:2 + n])
            ends = xs[2 + n:2 + n + 2 * m]
            rest = xs[2 + n + 2 * m:]
            pairs = []
            for k in range(m):
                a, b = sorted([ends[2 * k][1], ends[2 * k + 1][1]])
                pairs.append((a, b) + ((rest[k],) if len(rest) == m else ()))
            return (opn, n, m, verts, tuple(sorted(pairs, key=repr)))
        except (IndexError, TypeError):
            return (opn,) + tuple(xs)

    def neg(self, x: T) -> T:
        if x[0] == "c" and isinstance(x[1], bool):
            return ("c", not x[1])
        if x[0] == "not":
            return x[1]
        if x[0] == "cmp":
            # ("cmp", rel, a, b[, ("c", k)]) reads a rel b + k: the offset belongs to the right-hand side and is negated with it
            return self.cmp(NEG[x[1]], x[2], self.add([x[3], x[4]]) if len(x) == 5 else x[3])
        if x[0] == "and":
            return self.nary("or", [self.neg(y) for y in x[1:]])
        if x[0] == "or":
            return self.nary("and", [self.neg(y) for y in x[1:]])
        if x[0] == "iff":
            return self.iff(self.neg(x[1]), x[2])
        return ("not", x)

    def iff(self, a: T, b: T) -> T:
        # constants
        if a[0] == "c":
            return b if a[1] else self.neg(b)
        if b[0] == "c":
            return a if b[1] else self.neg(a)
        na, nb = a[0] == "not", b[0] == "not"
        if na and nb:
            a, b = a[1], b[1]
        elif na:
            a, b = a[1], self.neg(b)
        a, b = sorted([a, b], key=repr)
        if a[0] == "not":
            a, b = a[1], self.neg(b)
            a, b = sorted([a, b], key=repr)
        return ("iff", a, b)

    def nary(self, kind: str, xs: List[T]) -> T:
        flat: List[T] = []
        for x in xs:
            if x[0] == kind:
                flat.extend(x[1:])
            else:
                flat.append(x)
        absorbing = kind == "or"
        out: List[T] = []
        for x in flat:
            if x[0] == "c" and isinstance(x[1], bool):
                if x[1] == absorbing:
                    return ("c", absorbing)
                continue
            out.append(x)
        out = sorted(set(out), key=repr)
        if not out:
            return ("c", not absorbing)
        if len(out) == 1:
            return out[0]
        return (kind,) + tuple(out)

    def add(self, xs: List[T]) -> T:
        flat: List[T] = []
        const = 0
        for x in xs:
            if x[0] == "add":
                for y in x[1:]:
                    if y[0] == "c":
                        const += y[1]
                    else:
                        flat.append(y)
            elif x[0] == "c" and isinstance(x[1], int) and not isinstance(x[1], bool):
                const += x[1]
            elif x[0] == "neg" and x[1][0] == "c":
                const -= x[1][1]
            else:
                flat.append(x)
        flat = sorted(flat, key=repr)
        if not flat:
            return ("c", const)
        items = tuple(flat) + ((("c", const),) if const else ())
        if len(items) == 1:
            return items[0]
        return ("add",) + items

    def cmp(self, rel: str, a: T, b: T) -> T:
        # move constants to the right; integer tightening against constants (> k  ==  >= k+1, < k == <= k-1)
        a, b = self.add([a]), self.add([b])
        # pull a constant addend of the left side over to the right
        def split(x: T) -> Tuple[T, int]:
            if x[0] == "c" and isinstance(x[1], int) and not isinstance(x[1], bool):
                return ("c", 0), x[1]
            if x[0] == "add" and x[-1][0] == "c":
                rest = x[1:-1]
                return (rest[0] if len(rest) == 1 else ("add",) + rest), x[-1][1]
            return x, 0

        (ta, ca), (tb, cb) = split(a), split(b)
        if ta == ("c", 0) and tb != ("c", 0):
            ta, tb, ca, cb, rel = tb, ta, cb, ca, FLIP[rel]
        if tb == ("c", 0):
            k = cb - ca
            if rel == ">":
                rel, k = ">=", k + 1
            elif rel == "<":
                rel, k = "<=", k - 1
            return ("cmp", rel, ta, ("c", k))
        # both sides symbolic
        k = cb - ca
        if repr(ta) > repr(tb):
            ta, tb, rel, k = tb, ta, FLIP[rel], -k
        if rel == ">" :
            rel, k = ">=", k + 1
        elif rel == "<":
            rel, k = "<=", k - 1
        return ("cmp", rel, ta, tb, ("c", k)) if k else ("cmp", rel, ta, tb)


# ------------------------------------------------------------------------------------------
# instances
# ------------------------------------------------------------------------------------------

GRAPHS: List[Tuple[str, int, List[Tuple[int, int]]]] = [
    ("single vertex", 1, []),
    ("edge", 2, [(0, 1)]),
    ("edge+isolated", 3, [(0, 1)]),
    ("path3", 3, [(0, 1), (1, 2)]),
    ("triangle", 3, [(0, 1), (1, 2), (0, 2)]),
    ("star+isolated", 5, [(0, 1), (0, 2), (0, 3)]),
    ("square", 4, [(0, 1), (1, 2), (2, 3), (3, 0)]),
    ("two components", 4, [(0, 1), (2, 3)]),
    ("parallel edges", 2, [(0, 1), (0, 1)]),
    # fewer edges than vertices and still cyclic (edge-count shortcuts are wrong on disconnected graphs)
    # ... its edges entered head-to-tail (0->1->2->0): a tie-break by stored direction lets the three vertices support each other
    ("triangle+isolated", 4, [(0, 1), (1, 2), (2, 0)]),
    ("parallel edges+isolated", 3, [(0, 1), (0, 1)]),
    # the edge-less vertex FIRST in the numbering: a per-vertex loop that stops (return for continue) at it never reaches the cycle
    ("isolated vertex before a triangle", 4, [(1, 2), (2, 3), (1, 3)]),
    # non-bipartite and dense: a spanning star has two adjacent leaves at the same depth (rank differences along tree edges are not +-1)
    ("K4", 4, [(0, 1), (0, 2), (0, 3), (1, 2), (1, 3), (2, 3)]),
    # edges entered with the larger endpoint first (a guard `if i < j` copied onto the edge list drops them), one of them a bridge
    ("path with a descending edge", 3, [(0, 1), (2, 1)]),
    ("descending triangle", 3, [(1, 0), (2, 1), (2, 0)]),
]


class Instance:
    """one evaluated call: the world, the solver, the logged auxiliary arrays and the posted constraints"""

    def __init__(self, repo: Repo, prim: bool = False, div: bool = False, world: Optional[GraphWorld] = None):
        # `world`: evaluate in the world of an earlier instance (same interpreter state: module-level variables keep what earlier
        # calls left there), with a fresh Solver
        self.w = world if world is not None else GraphWorld(repo, use_graph_primitive=prim, use_graph_division_primitive=div)
        self.s = self.w.solver()
        self.arrays: List[Dict[str, Any]] = []
        cw = self.w.cw
        real_int, real_bool = cw.method(self.s, "int_array"), cw.method(self.s, "bool_array")

        nesting = [0]

        def int_array(shape: Any, lo: int, hi: int) -> Obj:
            nesting[0] += 1
            try:
                a = real_int(shape, lo, hi)
            finally:
                nesting[0] -= 1
            self.arrays.append({"kind": "i", "lo": lo, "hi": hi, "ids": [v.attrs["id"] for v in a.attrs["data"]], "user": False})
            return a

        def bool_array(shape: Any) -> Obj:
            nesting[0] += 1
            try:
                a = real_bool(shape)
            finally:
                nesting[0] -= 1
            self.arrays.append({"kind": "b", "ids": [v.attrs["id"] for v in a.attrs["data"]], "user": False})
            return a

        self.s.attrs["int_array"] = int_array
        self.s.attrs["bool_array"] = bool_array
        # single auxiliary variables (solver.bool_var() / int_var(lo, hi)) are logged as arrays of one
        try:
            real_bv, real_iv = cw.method(self.s, "bool_var"), cw.method(self.s, "int_var")

            def bool_var() -> Obj:
                v = real_bv()
                if not nesting[0]:
                    self.arrays.append({"kind": "b", "ids": [v.attrs["id"]], "user": False})
                return v

            def int_var(lo: int, hi: int) -> Obj:
                v = real_iv(lo, hi)
                if not nesting[0]:
                    self.arrays.append({"kind": "i", "lo": lo, "hi": hi, "ids": [v.attrs["id"]], "user": False})
                return v

            self.s.attrs["bool_var"] = bool_var
            self.s.attrs["int_var"] = int_var
        except Undecided:
            pass

    def user_bools(self, n: int, role: str) -> Obj:
        a = self.s.attrs["bool_array"](n)
        self.arrays[-1]["user"] = role
        return a

    def user_ints(self, n: int, lo: int, hi: int, role: str) -> Obj:
        a = self.s.attrs["int_array"](n, lo, hi)
        self.arrays[-1]["user"] = role
        return a

    def constraints(self) -> List[Any]:
        return list(self.s.attrs["constraints"])

    def aux_arrays(self) -> List[Dict[str, Any]]:
        return [a for a in self.arrays if not a["user"]]

    def domains(self) -> Dict[int, List[Any]]:
        out: Dict[int, List[Any]] = {}
        for a in self.arrays:
            for i in a["ids"]:
                out[i] = [False, True] if a["kind"] == "b" else list(range(a["lo"], a["hi"] + 1))
        return out


# ------------------------------------------------------------------------------------------
# comparison with a reference schema
# ------------------------------------------------------------------------------------------


class RefArray:
    def __init__(self, name: str, kind: str, size: int, need: int = 0, exact: Optional[Tuple[int, int]] = None):
        self.name, self.kind, self.size, self.need, self.exact = name, kind, size, need, exact


def match_arrays(inst: Instance, refs: List[RefArray], fixed: Optional[Dict[str, List[int]]] = None) -> List[Dict[int, T]]:
    """all assignments of the instance's auxiliary arrays to the reference arrays that are compatible in
    kind, size and (for integers) domain: domain must contain at least `need` consecutive values from lo.
    `fixed` binds reference arrays to known variable ids (e.g. the arrays a function returns)."""
    aux = inst.aux_arrays()
    base: Dict[int, T] = {}
    if fixed:
        for name, ids in fixed.items():
            hit = [a for a in aux if a["ids"] == ids]
            ref = [r for r in refs if r.name == name]
            if len(hit) != 1 or len(ref) != 1 or hit[0]["kind"] != ref[0].kind or len(ids) != ref[0].size:
                return []
            aux = [a for a in aux if a is not hit[0]]
            refs = [r for r in refs if r is not ref[0]]
            for k, vid in enumerate(ids):
                base[vid] = (name, k)
    if len(aux) != len(refs):
        return []
    out = []
    for perm in itertools.permutations(range(len(refs))):
        okay = True
        names: Dict[int, T] = dict(base)
        for a, ri in zip(aux, perm):
            r = refs[ri]
            if a["kind"] != r.kind or len(a["ids"]) != r.size:
                okay = False
                break
            if r.kind == "i":
                if r.exact is not None and (a["lo"], a["hi"]) != r.exact:
                    okay = False
                    break
                if a["hi"] - a["lo"] + 1 < r.need:
                    okay = False
                    break
            for k, vid in enumerate(a["ids"]):
                names[vid] = (r.name, k)
        if okay:
            out.append(names)
    return out


def user_names(inst: Instance) -> Dict[int, T]:
    names: Dict[int, T] = {}
    for a in inst.arrays:
        if a["user"]:
            if "user_map" in a:
                names.update(a["user_map"])
                continue
            for k, vid in enumerate(a["ids"]):
                names[vid] = (a["user"], k)
    return names


LAST_MATCH: Dict[int, T] = {}  # variable naming under which the last successful comparison held


def compare(inst: Instance, refs: List[RefArray], ref_constraints: Callable[[], List[T]], offsets: Optional[Dict[str, int]] = None,
            fixed: Optional[Dict[str, List[int]]] = None) -> Tuple[bool, str]:
    """(equal?, description of the first difference)"""
    fold0 = Canon({}).fold
    want = sorted({c for c in (fold0(x) for x in ref_constraints()) if c != ("c", True)}, key=repr)
    best = None
    cands = match_arrays(inst, refs, fixed)
    if not cands:
        aux = [(a["kind"], len(a["ids"]), a.get("lo"), a.get("hi")) for a in inst.aux_arrays()]
        return False, (f"auxiliary arrays {aux} do not fit the reference schema "
                       f"{[(r.kind, r.size, 'domain>=' + str(r.need) if r.kind == 'i' else '') for r in refs]}")
    for names in cands:
        names = dict(names)
        names.update(user_names(inst))
        cn = Canon(names)
        got = sorted((c for c in (cn.fold(cn.term(t)) for t in inst.constraints()) if c != ("c", True)), key=repr)
        got = sorted(set(got), key=repr)
        if got == want:
            LAST_MATCH.clear()
            LAST_MATCH.update(names)
            return True, ""
        missing = [c for c in want if c not in got]
        extra = [c for c in got if c not in want]
        score = len(missing) + len(extra)
        if best is None or score < best[0]:
            best = (score, missing, extra)
    assert best is not None
    return False, f"posted but not in the reference: {show(best[2][:2])}; in the reference but not posted: {show(best[1][:2])}"


def show(cs: Sequence[T]) -> str:
    def one(t: T) -> str:
        if t[0] == "c":
            return repr(t[1])
        if t[0] == "cmp":
            tail = f" + {one(t[4])}" if len(t) > 4 else ""
            return f"({one(t[2])} {t[1]} {one(t[3])}{tail})"
        if t[0] in ("and", "or", "add", "iff", "alldiff"):
            sep = {"and": " & ", "or": " | ", "add": " + ", "iff": " <-> ", "alldiff": ", "}[t[0]]
            return ("alldiff" if t[0] == "alldiff" else "") + "(" + sep.join(one(x) for x in t[1:]) + ")"
        if t[0] == "not":
            return "~" + one(t[1])
        if t[0] == "b2i":
            return "[" + one(t[1]) + "]"
        if t[0] == "ite":
            return f"({one(t[1])} ? {one(t[2])} : {one(t[3])})"
        if t[0] == "neg":
            return "-" + one(t[1])
        if len(t) == 2 and isinstance(t[1], int):
            return f"{t[0]}[{t[1]}]"
        return repr(t)

    return "; ".join(one(c) for c in cs) or "-"


# ------------------------------------------------------------------------------------------
# witness triage: projection of a (deviating) constraint set onto the caller's variables
# ------------------------------------------------------------------------------------------


def native_connected(ops: List[Any]) -> bool:
    """documented meaning of graph-active-vertices-connected: [n, m] + n flags + 2m endpoints"""
    n, m = ops[0], ops[1]
    act = ops[2:2 + n]
    ends = ops[2 + n:2 + n + 2 * m]
    on = [i for i in range(n) if act[i]]
    if not on:
        return True
    adj: Dict[int, List[int]] = {i: [] for i in range(n)}
    for k in range(m):
        a, b = ends[2 * k], ends[2 * k + 1]
        adj[a].append(b)
        adj[b].append(a)
    seen = {on[0]}
    st = [on[0]]
    while st:
        v = st.pop()
        for u in adj[v]:
            if act[u] and u not in seen:
                seen.add(u)
                st.append(u)
    return len(seen) == len(on)


def native_division(ops: List[Any]) -> bool:
    """documented meaning of graph-division: [n, m] + n sizes (None = free) + 2m endpoints + m border flags:
    cutting the border edges leaves connected blocks, every sized vertex lies in a block of that size,
    and every border edge joins two different blocks"""
    n, m = ops[0], ops[1]
    sizes = ops[2:2 + n]
    ends = ops[2 + n:2 + n + 2 * m]
    borders = ops[2 + n + 2 * m:2 + n + 3 * m]
    parent = list(range(n))

    def find(x: int) -> int:
        while parent[x] != x:
            parent[x] = parent[parent[x]]
            x = parent[x]
        return x

    for k in range(m):
        if not borders[k]:
            parent[find(ends[2 * k])] = find(ends[2 * k + 1])
    for k in range(m):
        if borders[k] and find(ends[2 * k]) == find(ends[2 * k + 1]):
            return False
    cnt: Dict[int, int] = {}
    for i in range(n):
        cnt[find(i)] = cnt.get(find(i), 0) + 1
    return all(sizes[i] is None or sizes[i] == cnt[find(i)] for i in range(n))


WORK = [0]  # constraint evaluations done by Extender: the deterministic unit in which enumeration budgets are expressed
EVALS_PER_SECOND = 25000  # calibration of the budgets below (an unloaded core of the reference machine); budgets never read the clock


def work_now() -> float:
    """elapsed work in nominal seconds (evaluations / EVALS_PER_SECOND)"""
    return WORK[0] / EVALS_PER_SECOND


class K3:
    """Three-valued / interval evaluation of posted constraint trees under a partial assignment:
    booleans are True / False / None (unknown); integers are closed intervals (lo, hi).  A constraint that is already
    True needs none of its remaining variables; one that is already False prunes the search."""

    def __init__(self, doms: Dict[int, List[Any]]):
        self.doms = doms

    def ev(self, v: Any, val: Dict[int, Any]) -> Any:
        if isinstance(v, bool):
            return v
        if isinstance(v, int):
            return (v, v)
        if v is None:
            return None
        if not (isinstance(v, Obj) and isinstance(v.attrs.get("op"), Tag)):
            raise Undecided(f"cannot evaluate {v!r}")
        nm = v.attrs["op"].name.split(".")[-1]
        ops = v.attrs.get("operands", [])
        if nm == "VAR":
            i = v.attrs["id"]
            if i in val:
                x = val[i]
                return x if isinstance(x, bool) else (x, x)
            d = self.doms[i]
            return None if isinstance(d[0], bool) else (d[0], d[-1])
        if nm in ("BOOL_CONSTANT", "INT_CONSTANT"):
            return self.ev(ops[0], val)
        if nm == "NOT":
            x = self.ev(ops[0], val)
            return None if x is None else (not x)
        if nm in ("AND", "OR"):
            absorbing = nm == "OR"
            unk = False
            for o in ops:
                x = self.ev(o, val)
                if x is None:
                    unk = True
                elif x is absorbing:
                    return absorbing
            return None if unk else (not absorbing)
        if nm == "IMP":
            a_, b_ = self.ev(ops[0], val), self.ev(ops[1], val)
            if a_ is False or b_ is True:
                return True
            if a_ is True and b_ is False:
                return False
            return None
        if nm in ("IFF", "XOR"):
            a_, b_ = self.ev(ops[0], val), self.ev(ops[1], val)
            if a_ is None or b_ is None:
                return None
            return (a_ == b_) if nm == "IFF" else (a_ != b_)
        if nm in ("EQ", "NE", "LE", "LT", "GE", "GT"):
            (al, ah), (bl, bh) = self.ev(ops[0], val), self.ev(ops[1], val)
            if nm in ("GE", "GT"):
                (al, ah), (bl, bh) = (bl, bh), (al, ah)
                nm = "LE" if nm == "GE" else "LT"
            if nm == "LE":
                return True if ah <= bl else (False if al > bh else None)
            if nm == "LT":
                return True if ah < bl else (False if al >= bh else None)
            if al == ah == bl == bh:
                return nm == "EQ"
            if ah < bl or bh < al:
                return nm == "NE"
            return None
        if nm in ("ADD", "SUB"):
            lo, hi = self.ev(ops[0], val)
            for o in ops[1:]:
                l2, h2 = self.ev(o, val)
                lo, hi = (lo + l2, hi + h2) if nm == "ADD" else (lo - h2, hi - l2)
            return (lo, hi)
        if nm == "NEG":
            lo, hi = self.ev(ops[0], val)
            return (-hi, -lo)
        if nm == "IF":
            c = self.ev(ops[0], val)
            if c is True:
                return self.ev(ops[1], val)
            if c is False:
                return self.ev(ops[2], val)
            (al, ah), (bl, bh) = self.ev(ops[1], val), self.ev(ops[2], val)
            return (min(al, bl), max(ah, bh))
        if nm == "ALLDIFF":
            xs = [self.ev(o, val) for o in ops]
            known = [x[0] for x in xs if x[0] == x[1]]
            if len(set(known)) < len(known):
                return False
            return True if len(known) == len(xs) else None
        if nm in ("GRAPH_ACTIVE_VERTICES_CONNECTED", "GRAPH_DIVISION"):
            xs = [None if o is None else self.ev(o, val) for o in ops]
            flat = []
            for o, x in zip(ops, xs):
                if o is None:
                    flat.append(None)
                elif x is None or (isinstance(x, tuple) and x[0] != x[1]):
                    return None
                else:
                    flat.append(x[0] if isinstance(x, tuple) else x)
            return native_connected(flat) if nm.endswith("CONNECTED") else native_division(flat)
        if nm == "X_ACTIVE_ACYCLIC":
            # definitional stand-in for the `acyclic=True` part of active_vertices_connected: [n, m] + n flags + 2m endpoints -
            # the edges between active vertices contain no cycle.  Vertices whose flag is still unknown count as inactive here,
            # which can only hide a cycle: False is final, True needs every flag known
            n_, m_ = ops[0], ops[1]
            flags = [self.ev(o, val) for o in ops[2:2 + n_]]
            ends = ops[2 + n_:2 + n_ + 2 * m_]
            parent = list(range(n_))

            def find(x: int) -> int:
                while parent[x] != x:
                    parent[x] = parent[parent[x]]
                    x = parent[x]
                return x

            for k in range(m_):
                a_, b_ = ends[2 * k], ends[2 * k + 1]
                if flags[a_] is True and flags[b_] is True:
                    ra, rb = find(a_), find(b_)
                    if ra == rb:
                        return False
                    parent[ra] = rb
            return None if any(f is None for f in flags) else True
        if nm == "X_VARGROUPS":
            # definitional stand-in for division_connected_variable_groups (graph form): [n, m, size or None] + 2m endpoints + n ids
            n_, m_, size_ = ops[0], ops[1], ops[2]
            ends = ops[3:3 + 2 * m_]
            gids = [self.ev(o, val) for o in ops[3 + 2 * m_:]]
            if any(g[0] != g[1] for g in gids):
                # partial pruning: a block is named after one of its own vertices, never exceeds the size, and the vertices that can
                # still take its name (exact remaining candidate values, not just the interval) must be able to complete it
                known = {v_: g[0] for v_, g in enumerate(gids) if g[0] == g[1]}
                cnt: Dict[int, int] = {}
                for v_, g_ in known.items():
                    cnt[g_] = cnt.get(g_, 0) + 1
                    if g_ in known and known[g_] != g_:
                        return False
                if size_ is not None and any(c_ > size_ for c_ in cnt.values()):
                    return False
                cand: Dict[int, Any] = {}
                for v_, o_ in enumerate(ops[3 + 2 * m_:]):
                    if v_ in known:
                        continue
                    if isinstance(o_, Obj) and isinstance(o_.attrs.get("op"), Tag) and o_.attrs["op"].name.endswith("VAR") and o_.attrs.get("id") in self.doms:
                        cand[v_] = set(self.doms[o_.attrs["id"]])
                    else:
                        cand[v_] = set(range(gids[v_][0], gids[v_][1] + 1))
                adj_: Dict[int, List[int]] = {i_: [] for i_ in range(n_)}
                for k_ in range(m_):
                    adj_[ends[2 * k_]].append(ends[2 * k_ + 1])
                    adj_[ends[2 * k_ + 1]].append(ends[2 * k_])
                for g_ in set(known.values()):
                    if not (0 <= g_ < n_) or not (known.get(g_) == g_ or (g_ not in known and g_ in cand.get(g_, ()))):
                        return False
                    members = [v_ for v_, x_ in known.items() if x_ == g_]
                    seen_ = {members[0]}
                    st_ = [members[0]]
                    while st_:
                        u_ = st_.pop()
                        for w_ in adj_[u_]:
                            if w_ not in seen_ and (known.get(w_) == g_ or (w_ not in known and g_ in cand[w_])):
                                seen_.add(w_)
                                st_.append(w_)
                    if any(v_ not in seen_ for v_ in members) or g_ not in seen_:
                        return False
                    if size_ is not None and len(seen_) < size_:
                        return False
                return None
            gv = [g[0] for g in gids]
            adj: Dict[int, List[int]] = {i: [] for i in range(n_)}
            for k in range(m_):
                adj[ends[2 * k]].append(ends[2 * k + 1])
                adj[ends[2 * k + 1]].append(ends[2 * k])
            blocks: Dict[int, List[int]] = {}
            for v_, g_ in enumerate(gv):
                blocks.setdefault(g_, []).append(v_)
            for g_, vs_ in blocks.items():
                if g_ not in vs_ or (size_ is not None and len(vs_) != size_):
                    return False
                seen_ = {vs_[0]}
                st_ = [vs_[0]]
                while st_:
                    u_ = st_.pop()
                    for w_ in adj[u_]:
                        if w_ in vs_ and w_ not in seen_:
                            seen_.add(w_)
                            st_.append(w_)
                if len(seen_) != len(vs_):
                    return False
            return True
        raise Undecided(f"no three-valued meaning for {nm}")


def _vars_of(t: Any, acc: Set[int]) -> None:
    if isinstance(t, Obj):
        op = t.attrs.get("op")
        if isinstance(op, Tag) and op.name.endswith("VAR"):
            acc.add(t.attrs["id"])
        for o in t.attrs.get("operands", []):
            _vars_of(o, acc)


class Extender:
    # every constraint evaluation is counted in WORK (see work_now)
    """decides whether an assignment of the caller's variables extends to all posted constraints (backtracking over the
    auxiliary variables that still occur in an undetermined constraint; three-valued pruning)"""

    def __init__(self, inst: Instance, budget_s: float):
        self.doms = inst.domains()
        self.cons = inst.constraints()
        self.cvars: List[Set[int]] = []
        for c in self.cons:
            acc: Set[int] = set()
            _vars_of(c, acc)
            self.cvars.append(acc)
        self.k3 = K3(self.doms)
        self.t0 = work_now()
        self.budget = budget_s

    def sat(self, fixed: Dict[int, Any]) -> bool:
        assign = dict(fixed)
        pending = []
        for idx, c in enumerate(self.cons):
            WORK[0] += 1
            r = self.k3.ev(c, assign)
            if r is False:
                return False
            if r is None:
                pending.append(idx)
        return self._extend(assign, pending)

    def _extend(self, assign: Dict[int, Any], pending: List[int]) -> bool:
        """all undetermined constraints satisfiable?  Constraints that share no free variable are solved separately."""
        if not pending:
            return True
        if len(pending) == 1:
            return self._branch(assign, pending)
        # connected components of the pending constraints over their free variables
        owner: Dict[int, int] = {}
        parent = list(range(len(pending)))

        def find(x: int) -> int:
            while parent[x] != x:
                parent[x] = parent[parent[x]]
                x = parent[x]
            return x

        for k, idx in enumerate(pending):
            for v in self.cvars[idx]:
                if v in assign:
                    continue
                if v in owner:
                    parent[find(k)] = find(owner[v])
                else:
                    owner[v] = k
        comps: Dict[int, List[int]] = {}
        for k, idx in enumerate(pending):
            comps.setdefault(find(k), []).append(idx)
        for comp in sorted(comps.values(), key=len):
            if not self._branch(assign, comp):
                return False
        return True

    def _branch(self, assign: Dict[int, Any], pending: List[int]) -> bool:
        if work_now() - self.t0 > self.budget:
            raise TimeoutError
        # unit propagation: a constraint with one free variable left restricts that variable's values; a forced value is taken at once
        forced: List[int] = []
        narrowed: Dict[int, List[Any]] = {}
        changed = True
        while changed and pending:
            changed = False
            for idx in pending:
                free = [v for v in self.cvars[idx] if v not in assign]
                if len(free) != 1:
                    continue
                v = free[0]
                dom = narrowed.get(v, self.doms[v])
                keep = []
                for val in dom:
                    assign[v] = val
                    WORK[0] += 1
                    if self.k3.ev(self.cons[idx], assign) is not False:
                        keep.append(val)
                assign.pop(v, None)
                if not keep:
                    for u in forced:
                        assign.pop(u, None)
                    return False
                if len(keep) == 1:
                    assign[v] = keep[0]
                    forced.append(v)
                    nxt0 = []
                    good0 = True
                    for j in pending:
                        if v in self.cvars[j]:
                            WORK[0] += 1
                            r0 = self.k3.ev(self.cons[j], assign)
                            if r0 is False:
                                good0 = False
                                break
                            if r0 is None:
                                nxt0.append(j)
                        else:
                            nxt0.append(j)
                    if not good0:
                        for u in forced:
                            assign.pop(u, None)
                        return False
                    pending = nxt0
                    changed = True
                    break
                if len(keep) < len(dom):
                    narrowed[v] = keep
        if forced or narrowed:
            # continue on what is left (components may have split); restricted domains apply to this subtree only
            saved = {v: self.doms[v] for v in narrowed}
            self.doms.update(narrowed)
            try:
                res = self._extend(assign, pending) if forced else self._branch_plain(assign, pending)
            finally:
                self.doms.update(saved)
                for u in forced:
                    assign.pop(u, None)
            return res
        return self._branch_plain(assign, pending)

    def _branch_plain(self, assign: Dict[int, Any], pending: List[int]) -> bool:
        if not pending:
            return True
        # branch on the unassigned variable that occurs in the most undetermined constraints (ties: smaller domain)
        count: Dict[int, int] = {}
        for idx in pending:
            for v in self.cvars[idx]:
                if v not in assign:
                    count[v] = count.get(v, 0) + 1
        if not count:
            raise Undecided("undetermined constraint without free variables")
        v = max(sorted(count), key=lambda x: (count[x], -len(self.doms[x])))
        for val in self.doms[v]:
            assign[v] = val
            nxt = []
            good = True
            for idx in pending:
                if v in self.cvars[idx]:
                    WORK[0] += 1
                    r = self.k3.ev(self.cons[idx], assign)
                    if r is False:
                        good = False
                        break
                    if r is None:
                        nxt.append(idx)
                else:
                    nxt.append(idx)
            if good and self._extend(assign, nxt):
                assign.pop(v, None)
                return True
        assign.pop(v, None)
        return False


def projection(inst: Instance, user_ids: List[int], budget_s: float = 4.0) -> Optional[Set[Tuple[Any, ...]]]:
    """set of assignments of the caller's variables that extend to a satisfying assignment of all variables;
    None when the enumeration budget is exceeded"""
    ext = Extender(inst, budget_s)
    out: Set[Tuple[Any, ...]] = set()
    try:
        for vals in itertools.product(*[ext.doms[i] for i in user_ids]):
            if ext.sat(dict(zip(user_ids, vals))):
                out.add(tuple(vals))
    except TimeoutError:
        return None
    return out


def cross_check(rep: Report, label: str, func: str, items: List[Tuple[str, Instance, List[int], Callable[[], Set[Tuple[Any, ...]]]]],
                total_budget_s: float = 8.0, each_s: float = 2.0, what: str = "pattern") -> None:
    """ENC-X: guards the reference schema itself.  On the cheap instances the projection of the posted constraints onto the
    caller's variables is enumerated and must equal the graph-theoretic definition; it can only add a violation (with witness)."""
    rep.rule("ENC-X", "on the small instances the projection of the posted constraints onto the caller's variables equals the graph-theoretic definition (guards the reference schemas; can only add violations)")
    t0 = work_now()
    checked = skipped = 0
    for desc, inst, ids, spec in items:
        if work_now() - t0 > total_budget_s:
            skipped += 1
            continue
        proj = projection(inst, ids, budget_s=each_s)
        if proj is None:
            skipped += 1
            continue
        checked += 1
        want = spec()
        acc, rej = sorted(proj - want), sorted(want - proj)
        if acc or rej:
            w_ = acc[0] if acc else rej[0]
            rep.finding("ENC-X", GRAPH, func, f"{label} semantics",
                        f"{label} on [{desc}]: the posted constraints {'admit' if acc else 'reject'} the {what} {[int(v) if isinstance(v, bool) else v for v in w_]}, "
                        f"which the definition {'rejects' if acc else 'admits'}")
            return
    rep.ok("ENC-X", f"{label}: projection equals the definition on {checked} small instances ({skipped} skipped for budget)", points=checked)


# ------------------------------------------------------------------------------------------
# ENC-H: nothing is carried from one call to the next
# ------------------------------------------------------------------------------------------


def tree_sig(t: Any) -> str:
    """structural rendering of a posted constraint (operator names, variable ids, constants)"""
    if isinstance(t, Obj):
        op = t.attrs.get("op")
        if isinstance(op, Tag):
            nm = op.name.split(".")[-1]
            if nm == "VAR":
                return f"v{t.attrs.get('id')}"
            return nm + "(" + ",".join(tree_sig(o) for o in t.attrs.get("operands", [])) + ")"
        if "data" in t.attrs:
            return "[" + ",".join(tree_sig(o) for o in t.attrs["data"]) + "]"
        return t.attrs.get("__class__", "obj")
    if isinstance(t, (list, tuple)):
        return "[" + ",".join(tree_sig(o) for o in t) + "]"
    return repr(t)


def history_rule(repo: Repo, rep: Report, func: str, calls: List[Tuple[str, Callable[[Instance], Any]]], prim: bool = False, div: bool = False) -> None:
    """ENC-H: every call in `calls` is evaluated twice - in a fresh interpreter state, and as one of a sequence of calls in ONE state
    (module-level variables and attributes of module-level objects keep what earlier calls left there; each call gets its own Solver
    and its own argument objects).  The constraints posted and the value returned must be the same both times: a cache keyed by too
    little, a default argument that accumulates, a module-level list that grows, all show as a difference."""
    rep.rule("ENC-H", "a graph constraint posts the same constraints and returns the same value whether it is the first call in an interpreter state "
                      "or follows other calls with other arguments (nothing is carried from call to call)")
    try:
        fresh: List[Tuple[str, str]] = []
        for desc, thunk in calls:
            inst = Instance(repo, prim=prim, div=div)
            ret = thunk(inst)
            fresh.append((";".join(tree_sig(c) for c in inst.constraints()), tree_sig(ret)))
        shared = None
        # the sequence, then the sequence once more: the second round also meets what the first one left behind for the *same* arguments
        for rnd in (1, 2):
            for (desc, thunk), (want_c, want_r) in zip(calls, fresh):
                inst = Instance(repo, prim=prim, div=div, world=shared)
                shared = inst.w
                ret = thunk(inst)
                got_c, got_r = ";".join(tree_sig(c) for c in inst.constraints()), tree_sig(ret)
                if got_c != want_c or got_r != want_r:
                    k = next((i for i, (a_, b_) in enumerate(zip(got_c.split(";"), want_c.split(";"))) if a_ != b_), None)
                    what = ("the returned value differs" if got_c == want_c else
                            f"constraint #{k} is {got_c.split(';')[k][:160]} instead of {want_c.split(';')[k][:160]}" if k is not None else
                            f"{len(got_c.split(';'))} constraints are posted instead of {len(want_c.split(';'))}")
                    rep.finding("ENC-H", GRAPH, func, f"{func} call history",
                                f"{func} [{desc}] evaluated after other calls in the same interpreter state (round {rnd}) differs from the same call "
                                f"evaluated first: {what}")
                    return
        rep.ok("ENC-H", f"{func}: {len(calls)} calls, alone and as a sequence repeated twice in one interpreter state, post identical constraints", points=len(calls))
    except Undecided as ex:
        rep.undecide("ENC-H", f"{func}: {ex}")
    except (Raised, IndexOutOfRange) as ex:
        rep.finding("ENC-H", GRAPH, func, f"{func} call history", f"{func} raises {ex} when called repeatedly")


def standard_history(repo: Repo, rep: Report, func: str, kind: str, extra_kw: Optional[Dict[str, Any]] = None, grid: bool = True,
                     prim: bool = False) -> None:
    """the usual sequence for one graph function.  kind: 'vertices' (flags per vertex, grid form = BoolArray2D), 'edges' (flags per edge,
    grid form = BoolGridFrame), 'labels' (an int per vertex, grid form = IntArray2D)"""
    kw = dict(extra_kw or {})
    graphs = [("path of 3", 3, [(0, 1), (1, 2)]), ("triangle", 3, [(0, 1), (1, 2), (0, 2)]), ("star of 4", 4, [(0, 1), (0, 2), (0, 3)]),
              ("path of 4", 4, [(0, 1), (1, 2), (2, 3)])]
    calls: List[Tuple[str, Callable[[Instance], Any]]] = []
    for gname, n, edges in graphs:
        def on_graph(inst: Instance, n: int = n, edges: List[Tuple[int, int]] = edges) -> Any:
            g = inst.w.graph(n, edges)
            if kind == "vertices":
                return inst.w.call(func, inst.s, inst.user_bools(n, "A"), g, **kw)
            if kind == "edges":
                return inst.w.call(func, inst.s, inst.user_bools(len(edges), "E"), g, **kw)
            return inst.w.call(func, inst.s, inst.user_ints(n, 0, 1, "D"), 2, g, **kw)
        calls.append((f"graph '{gname}'", on_graph))
    for h, w in ((2, 3), (3, 2), (1, 3)) if grid else ():
        def on_grid(inst: Instance, h: int = h, w: int = w) -> Any:
            if kind == "vertices":
                arr = inst.s.attrs["bool_array"]((h, w))
                inst.arrays[-1]["user"] = "A"
                return inst.w.call(func, inst.s, arr, **kw)
            if kind == "edges":
                fr = inst.w.cw.new("BoolGridFrame", inst.s, h, w)
                return inst.w.call(func, inst.s, fr, **kw)
            arr = inst.s.attrs["int_array"]((h, w), 0, 1)
            inst.arrays[-1]["user"] = "D"
            return inst.w.call(func, inst.s, arr, 2, **kw)
        calls.append((f"{h}x{w} grid form", on_grid))
    history_rule(repo, rep, func, calls, prim=prim)


def engine_selfcheck(rep: Any) -> None:
    """the canonical form must preserve meaning (sa/selftest/canon_check.py): random trees through every constructor, compared with an
    independent evaluator on a grid of assignments.  A failure makes the ENC verdicts worthless, so the check refuses to give one."""
    from ..selftest import canon_check

    msg = canon_check.run(seed=getattr(rep, "seed", 0) or 0, rounds=40 if rep.tier != "thorough" else 400)
    if msg:
        raise AnalysisError(f"ENC engine self-check failed - the canonical form changes the meaning of a constraint: {msg}")
    from ..selftest import k3_check

    k3_check.engine_selfcheck(rep)
    rep.extra["engine_selfcheck"] = "canonical form preserves meaning on random trees (cmp/neg/nary/iff/add/fold against an independent evaluator)"
