"""C14 - BoolGridFrame accessors are consistent with the lattice geometry.

Reference model (the specification side, independent of the code): a frame of H x W cells has
  h(r, c), 0<=r<=H, 0<=c<W : joins lattice points (r,c)-(r,c+1), separates cells (r-1,c) | (r,c), doubled coord (2r, 2c+1)
  v(r, c), 0<=r<H, 0<=c<=W : joins lattice points (r,c)-(r+1,c), separates cells (r,c-1) | (r,c), doubled coord (2r+1, 2c)
ALG-V  vocabulary: accessor guards compare coordinates with unit-coefficient affine forms of height/width
       and use parity tests only (so the evaluated size/coordinate grid reaches every region).
ALG-1..5 evaluation of every accessor on every frame size 0..3 x 0..3 and every coordinate in a margin
       of 2 around the frame, against the model.
"""

from __future__ import annotations

import ast
from typing import Any, Dict, List, Optional, Set, Tuple

from ..core import linear as L
from ..core.fde import IndexOutOfRange, Obj, Raised, Tag, Undecided
from ..core.findings import Report
from ..core.loader import AnalysisError, Repo, norm
from .graphnative import GRAPH, GraphWorld

FRAME = "cspuz/grid_frame.py"
SIZES = [(h, w) for h in range(0, 4) for w in range(0, 4)]


def model(H: int, W: int):
    hs = {(r, c) for r in range(H + 1) for c in range(W)}
    vs = {(r, c) for r in range(H) for c in range(W + 1)}
    return hs, vs


def vocabulary(repo: Repo, rep: Report) -> None:
    rep.rule("ALG-V", "accessor guards are unit-coefficient affine comparisons in the coordinates and height/width, plus parity tests")
    lz = L.Linearizer()
    n = 0
    bad: List[str] = []
    targets = [(FRAME, q) for q in ("BoolGridFrame.__getitem__", "BoolGridFrame.cell_neighbors", "BoolGridFrame.vertex_neighbors")]
    targets.append((GRAPH, "_from_grid_frame"))
    for file, q in targets:
        fn = repo.mod(file).func(q)
        rep.saw(file, q)
        # single-assignment locals are looked through (`parity = (y % 2, x % 2)` ... `if parity == (0, 1)`)
        assigned: Dict[str, List[ast.AST]] = {}
        for node in ast.walk(fn):
            if isinstance(node, ast.Assign) and len(node.targets) == 1 and isinstance(node.targets[0], ast.Name):
                assigned.setdefault(node.targets[0].id, []).append(node.value)

        def operands(e: ast.AST, depth: int = 0) -> List[ast.AST]:
            if isinstance(e, ast.Tuple):
                return [x for el in e.elts for x in operands(el, depth)]
            if isinstance(e, ast.Name) and len(assigned.get(e.id, [])) == 1 and depth < 2 and isinstance(assigned[e.id][0], ast.Tuple):
                return operands(assigned[e.id][0], depth + 1)
            return [e]

        for node in ast.walk(fn):
            if isinstance(node, ast.Compare):
                for s in [x for o in [node.left] + list(node.comparators) for x in operands(o)]:
                    n += 1
                    if isinstance(s, ast.Constant) and s.value is None:
                        continue
                    f = lz.lin(s)
                    if f is None:
                        bad.append(f"{q}: {norm(s)}")
                        continue
                    for k, v in f.items():
                        if k == L.ONE:
                            continue
                        info = L.SYMINFO.get(str(k))
                        if info is not None and not (info[0] == "mod" and info[2] == 2):
                            bad.append(f"{q}: {norm(s)}")
                        elif abs(v) > 2:
                            bad.append(f"{q}: {norm(s)}")
    if bad:
        rep.undecide("ALG-V", "guard outside the affine/parity vocabulary: " + "; ".join(bad[:3]))
    else:
        rep.ok("ALG-V", f"{n} guard operands in the four geometry functions are affine (|coefficient| <= 2) or parity tests")


def ident(x: Any) -> Any:
    return x.attrs.get("id") if isinstance(x, Obj) else x


def check(repo: Repo, rep: Report) -> None:
    rep.rule("ALG-1", "frame[y, x] returns the edge at that doubled coordinate and raises IndexError everywhere else")
    rep.rule("ALG-2", "cell_neighbors(y, x) = the four edges bounding that cell; IndexError outside the frame")
    rep.rule("ALG-3", "vertex_neighbors(y, x) = the edges incident to that lattice point; IndexError outside")
    rep.rule("ALG-4", "dual() swaps the arrays and shifts the size by one; dual(dual) is the original; default shapes agree")
    rep.rule("ALG-5", "all_edges/iteration order agree (horizontal then vertical, row-major); _from_grid_frame puts every edge variable on the lattice segment it sits on")
    w = GraphWorld(repo)
    rep.saw(FRAME)
    res: Dict[str, Optional[str]] = {k: None for k in ("ALG-1", "ALG-2", "ALG-3", "ALG-4", "ALG-5")}
    count = {k: 0 for k in res}

    def call(thunk):
        w.cw.ev.steps = 0
        try:
            return "ok", thunk()
        except Raised as ex:
            return "raise", ex.what.split("(")[0]
        except IndexOutOfRange:
            return "raise", "IndexError(list)"

    try:
        sizes = SIZES + ([(h, ww) for h in range(0, 5) for ww in range(0, 5) if h == 4 or ww == 4] if rep.tier == "thorough" else [])
        for H, W in sizes:
            s = w.solver()
            st_, fr = call(lambda: w.cw.new("BoolGridFrame", s, H, W))
            if st_ != "ok":
                res["ALG-4"] = res["ALG-4"] or f"constructing BoolGridFrame(solver, {H}, {W}) raises {fr}"
                continue
            hor, ver = fr.attrs["horizontal"], fr.attrs["vertical"]
            if tuple(hor.attrs["shape"]) != (H + 1, W) or tuple(ver.attrs["shape"]) != (H, W + 1):
                res["ALG-4"] = res["ALG-4"] or f"frame {H}x{W}: default arrays have shapes {hor.attrs['shape']} / {ver.attrs['shape']}"
                continue
            hid = {(r, c): ident(hor.attrs["data"][r * W + c]) for r in range(H + 1) for c in range(W)}
            vid = {(r, c): ident(ver.attrs["data"][r * (W + 1) + c]) for r in range(H) for c in range(W + 1)}
            # ALG-1
            get = w.cw.method(fr, "__getitem__")
            for y in range(-2, 2 * H + 3):
                for x in range(-2, 2 * W + 3):
                    count["ALG-1"] += 1
                    st, v = call(lambda: get((y, x)))
                    want = None
                    if y >= 0 and x >= 0:
                        if y % 2 == 0 and x % 2 == 1 and (y // 2, x // 2) in hid:
                            want = hid[(y // 2, x // 2)]
                        elif y % 2 == 1 and x % 2 == 0 and (y // 2, x // 2) in vid:
                            want = vid[(y // 2, x // 2)]
                    if want is None:
                        if not (st == "raise" and v == "IndexError"):
                            res["ALG-1"] = res["ALG-1"] or f"frame {H}x{W}: frame[{y}, {x}] addresses no edge but gives {st} {ident(v)!r} instead of IndexError"
                    elif not (st == "ok" and ident(v) == want):
                        res["ALG-1"] = res["ALG-1"] or f"frame {H}x{W}: frame[{y}, {x}] gives {st} {ident(v)!r}, the edge at that position is variable {want}"
            # ALG-2
            for y in range(-2, H + 2):
                for x in range(-2, W + 2):
                    for form in (0, 1):
                        count["ALG-2"] += 1
                        st, v = call(lambda: w.cw.method(fr, "cell_neighbors")(*((y, x) if form == 0 else ((y, x),))))
                        if 0 <= y < H and 0 <= x < W:
                            want_set = sorted([hid[(y, x)], hid[(y + 1, x)], vid[(y, x)], vid[(y, x + 1)]])
                            got = sorted(ident(e) for e in v.attrs["data"]) if st == "ok" and isinstance(v, Obj) else None
                            if got != want_set:
                                res["ALG-2"] = res["ALG-2"] or f"frame {H}x{W}: cell_neighbors({y}, {x}) gives {got if got is not None else (st, v)}, the cell is bounded by variables {want_set}"
                        elif not (st == "raise" and v == "IndexError"):
                            res["ALG-2"] = res["ALG-2"] or f"frame {H}x{W}: cell_neighbors({y}, {x}) outside the frame gives {st} instead of IndexError"
            # ALG-3
            for y in range(-2, H + 3):
                for x in range(-2, W + 3):
                    for form in (0, 1):
                        count["ALG-3"] += 1
                        st, v = call(lambda: w.cw.method(fr, "vertex_neighbors")(*((y, x) if form == 0 else ((y, x),))))
                        if 0 <= y <= H and 0 <= x <= W:
                            want_l = []
                            if (y - 1, x) in vid:
                                want_l.append(vid[(y - 1, x)])
                            if (y, x) in vid:
                                want_l.append(vid[(y, x)])
                            if (y, x - 1) in hid:
                                want_l.append(hid[(y, x - 1)])
                            if (y, x) in hid:
                                want_l.append(hid[(y, x)])
                            got = sorted(ident(e) for e in v.attrs["data"]) if st == "ok" and isinstance(v, Obj) else None
                            if got != sorted(want_l):
                                res["ALG-3"] = res["ALG-3"] or (f"frame {H}x{W}: vertex_neighbors{'((%d, %d))' % (y, x) if form else '(%d, %d)' % (y, x)} gives "
                                                               f"{got if got is not None else (st, v)}, incident edges are {sorted(want_l)}")
                        elif not (st == "raise" and v == "IndexError"):
                            res["ALG-3"] = res["ALG-3"] or f"frame {H}x{W}: vertex_neighbors({y}, {x}) outside the lattice gives {st} instead of IndexError"
            # ALG-5 order
            count["ALG-5"] += 1
            order = [hid[(r, c)] for r in range(H + 1) for c in range(W)] + [vid[(r, c)] for r in range(H) for c in range(W + 1)]
            st, ae = call(lambda: w.cw.method(fr, "all_edges")())
            it = [ident(e) for e in w.cw.ev.iterate(fr)]
            ael = [ident(e) for e in ae.attrs["data"]] if st == "ok" and isinstance(ae, Obj) else None
            if ael != order or it != order:
                res["ALG-5"] = res["ALG-5"] or f"frame {H}x{W}: all_edges gives {ael}, iteration gives {it}; horizontal-then-vertical row-major order is {order}"
            # ALG-5 graph
            st, r = call(lambda: w.call("_from_grid_frame", fr))
            if st != "ok":
                res["ALG-5"] = res["ALG-5"] or f"frame {H}x{W}: _from_grid_frame raises {r}"
            else:
                edges, graph = r
                ge = [tuple(e) for e in graph.attrs["edges"]]
                if graph.attrs["num_vertices"] != (H + 1) * (W + 1) or len(edges) != len(ge):
                    res["ALG-5"] = res["ALG-5"] or f"frame {H}x{W}: lattice graph has {graph.attrs['num_vertices']} vertices / {len(ge)} edges for {len(edges)} variables"
                seen: Set[Any] = set()
                for var, (p, q) in zip(edges, ge):
                    pp, qq = sorted([(p // (W + 1), p % (W + 1)), (q // (W + 1), q % (W + 1))])
                    vi = ident(var)
                    seen.add(vi)
                    if pp[0] == qq[0] and qq[1] == pp[1] + 1:
                        want = hid.get((pp[0], pp[1]))
                    elif pp[1] == qq[1] and qq[0] == pp[0] + 1:
                        want = vid.get((pp[0], pp[1]))
                    else:
                        want = None
                    if want is None or want != vi or not (0 <= p < (H + 1) * (W + 1) and 0 <= q < (H + 1) * (W + 1)):
                        res["ALG-5"] = res["ALG-5"] or (
                            f"frame {H}x{W}: variable {vi} is attached to graph edge {p}-{q} = lattice points {pp}-{qq}; "
                            f"the variable on that segment is {want}")
                if seen != set(order) and not res["ALG-5"]:
                    res["ALG-5"] = f"frame {H}x{W}: the lattice graph does not carry every edge variable exactly once"
            # ALG-4 dual
            count["ALG-4"] += 1
            st, d = call(lambda: w.cw.method(fr, "dual")())
            if st != "ok" or not isinstance(d, Obj) or d.attrs.get("__class__") != "BoolInnerGridFrame":
                res["ALG-4"] = res["ALG-4"] or f"frame {H}x{W}: dual() gives {st} {d!r}"
            else:
                if not (d.attrs["horizontal"] is ver and d.attrs["vertical"] is hor and d.attrs["height"] == H + 1 and d.attrs["width"] == W + 1):
                    res["ALG-4"] = res["ALG-4"] or f"frame {H}x{W}: dual() must be the (H+1)x(W+1) cell grid whose horizontal borders are this frame's vertical edges and vice versa"
                st, dd = call(lambda: w.cw.method(d, "dual")())
                if not (st == "ok" and isinstance(dd, Obj) and dd.attrs.get("__class__") == "BoolGridFrame" and dd.attrs["horizontal"] is hor
                        and dd.attrs["vertical"] is ver and dd.attrs["height"] == H and dd.attrs["width"] == W):
                    res["ALG-4"] = res["ALG-4"] or f"frame {H}x{W}: dual(dual()) is not the original frame"
                it2 = [ident(e) for e in w.cw.ev.iterate(d)]
                if it2 != order:
                    res["ALG-4"] = res["ALG-4"] or f"frame {H}x{W}: iterating the dual yields {it2}, expected the same edge order {order}"
        # inner frames built directly: default shapes, and each border variable sits between the cells it separates
        for h, wd in [(1, 1), (1, 3), (3, 1), (2, 3), (3, 3)]:
            count["ALG-4"] += 1
            s = w.solver()
            inner = w.cw.new("BoolInnerGridFrame", s, h, wd)
            ih, iv = inner.attrs["horizontal"], inner.attrs["vertical"]
            if tuple(ih.attrs["shape"]) != (h - 1, wd) or tuple(iv.attrs["shape"]) != (h, wd - 1):
                res["ALG-4"] = res["ALG-4"] or f"inner frame {h}x{wd}: default border arrays have shapes {ih.attrs['shape']} / {iv.attrs['shape']}"
                continue
            st, r = call(lambda: w.call("_from_grid_frame", w.cw.method(inner, "dual")()))
            if st != "ok":
                res["ALG-4"] = res["ALG-4"] or f"inner frame {h}x{wd}: dual graph raises {r}"
                continue
            edges, graph = r
            want_pairs = {}
            for rr in range(h - 1):
                for c in range(wd):
                    want_pairs[ident(ih.attrs["data"][rr * wd + c])] = tuple(sorted((rr * wd + c, (rr + 1) * wd + c)))
            for rr in range(h):
                for c in range(wd - 1):
                    want_pairs[ident(iv.attrs["data"][rr * (wd - 1) + c])] = tuple(sorted((rr * wd + c, rr * wd + c + 1)))
            got_pairs = {ident(v): tuple(sorted(e)) for v, e in zip(edges, [tuple(e) for e in graph.attrs["edges"]])}
            if got_pairs != want_pairs or graph.attrs["num_vertices"] != h * wd:
                res["ALG-4"] = res["ALG-4"] or (f"inner frame {h}x{wd}: border variables are attached to cell pairs {got_pairs}, "
                                               f"they separate {want_pairs} (row-major cell ids)")
    except Undecided as ex:
        rep.undecide("ALG-1", str(ex))
        return
    except (Raised, IndexOutOfRange) as ex:
        # an operation on a well-formed frame (construction, dual, iteration, graph inference) raised inside the library
        res["ALG-4"] = res["ALG-4"] or f"an operation on a well-formed frame raises {ex} (frames of height or width 0 and their duals included)"
    where = {"ALG-1": "BoolGridFrame.__getitem__", "ALG-2": "BoolGridFrame.cell_neighbors", "ALG-3": "BoolGridFrame.vertex_neighbors",
             "ALG-4": "BoolGridFrame.dual", "ALG-5": "_from_grid_frame"}
    for k, msg in res.items():
        if msg:
            rep.finding(k, GRAPH if k == "ALG-5" and "graph" in msg else FRAME, where[k], where[k], msg)
        else:
            rep.ok(k, f"{where[k]}: {count[k]} evaluated points over frame sizes 0..3 x 0..3 agree with the lattice model", points=count[k])


def run(repo: Repo, rep: Report) -> None:
    vocabulary(repo, rep)
    check(repo, rep)
    rep.assume("the arrays hold pairwise distinct variables (Solver.bool_array, VID rules of C01)")
