"""C17 - decoding arbitrary text never crashes and only yields re-encodable problems.

Static may-raise rules over every function on the decode path (guard facts + linear entailment):
  EXC-1  every non-slice subscript of the *input text* is proved in bounds (entry contract 0 <= idx <= len(data))
  EXC-2  every subscript of a literal dict has its key set proved inside the dict's keys
  EXC-3  every `assert` is entailed by the dominating facts (or is a listed internal invariant)
  EXC-4  no directly recursive function (recursion depth would grow with the board in the URL)
  EXC-5  no division / modulo by a value read from the URL without a non-zero guard
  EXC-6  int(text, base) on a multi-character slice only after a character-class validation
         (Python's int accepts signs, blanks, underscores and prefixes: non-canonical or negative values)
Finite-quotient evaluation:
  EXC-7  every decoder is evaluated on all strings up to length 3 (4 for grids) over an alphabet with one
         representative per character class the decoders distinguish: the outcome must be None, ValueError or
         a value that serializes and decodes back to itself.
"""

from __future__ import annotations

import ast
import itertools
from concurrent.futures import ProcessPoolExecutor
from typing import Any, Dict, List, Optional, Set, Tuple

from ..core import guards as G, linear as L
from ..core.fde import Obj, Raised, Undecided
from ..core.classworld import ClassWorld
from ..core.findings import Report
from ..core.loader import AnalysisError, Module, Repo, dotted, norm, qualname, short, walk_no_nested
from .serworld import SER, SerWorld, same_value

INPUT_NAMES = {"data", "serialized", "url", "body"}
# asserts that state an invariant of the combinator library itself (not of the input); each is
# exercised by EXC-7 on every evaluated string, so a change that breaks it is reported there.
# asserts that restate what the callee just guaranteed; keyed by function and by the assert's shape with every identifier
# replaced by `_` (so renaming a local does not matter); each is exercised by EXC-7 on every evaluated input
INTERNAL_INVARIANTS = {
    ("Grid.deserialize", "len(_) == 1"): "Seq.deserialize returns a one-element list display",
    ("Grid.deserialize", "len(_) == _ * _"): "Seq.deserialize returns exactly n items (loop exit + slice)",
    ("Rooms._deserialize", "_[_][_] != -1"): "the numbering double loop visits every cell",
}


def _shape_of(test: ast.AST) -> str:
    import copy

    class Blank(ast.NodeTransformer):
        def visit_Name(self, n: ast.Name) -> ast.AST:
            return n if n.id in ("len",) else ast.copy_location(ast.Name(id="_", ctx=n.ctx), n)

    return norm(Blank().visit(copy.deepcopy(test)))


ALPHABET = ["0", "1", "4", "5", "9", "a", "f", "g", "z", "-", "+", ".", "_", " ", "A", "٣"]
QUICK_ALPHABET = ["0", "4", "5", "a", "f", "g", "z", "-", "+", ".", "_", "٣"]
TOKENS = ["0", "4", "5", "a", "f", "g", "h", "z", ".", "-", "+", "_", "٣", "A", "-1f", "--1", "-_1", "+1ff", "+-12", "1.", "0.", "4f", "5f"]


def decode_functions(repo: Repo) -> List[Tuple[Module, str, ast.FunctionDef]]:
    out = []
    ser = repo.mod(SER)
    for q, fn in ser.funcs.items():
        last = q.split(".")[-1]
        if last in ("deserialize", "_deserialize") or q in ("deserialize_problem", "deserialize_problem_as_url", "get_puzzle_info_from_url",
                                                             "_from_base16", "_from_base36", "_is_alnum_lower", "_is_hex"):
            out.append((ser, q, fn))
        elif "." in q and q.split(".")[-2] in ("_deserialize",):  # nested helpers
            out.append((ser, q, fn))
    for m in repo.iter("cspuz/puzzle/"):
        for q, fn in m.funcs.items():
            last = q.split(".")[-1]
            if last in ("deserialize", "_deserialize") or last.startswith("deserialize_") or q == "parse_puzz_link_url":
                out.append((m, q, fn))
    if len(out) < 25:
        raise AnalysisError(f"only {len(out)} decode-path functions found")
    return out


def int_wrappers(mod: Module) -> Dict[str, int]:
    """module functions of the form `return int(param, <const>)`"""
    out = {}
    for q, fn in mod.funcs.items():
        body = [s for s in fn.body if not (isinstance(s, ast.Expr) and isinstance(s.value, ast.Constant))]
        if len(body) == 1 and isinstance(body[0], ast.Return) and isinstance(body[0].value, ast.Call) and dotted(body[0].value.func) == "int":
            c = body[0].value
            if c.args and isinstance(c.args[0], ast.Name) and c.args[0].id in [a.arg for a in fn.args.args]:
                out[q] = 1
    return out


VALIDATORS = ("_is_hex", "_is_alnum_lower")


def static_rules(repo: Repo, rep: Report) -> None:
    rep.rule("EXC-1", "input-text subscripts are in bounds under the dominating guards (entry contract 0 <= idx <= len(data))")
    rep.rule("EXC-2", "literal-dict subscripts have their key set inside the dict's keys")
    rep.rule("EXC-3", "asserts on the decode path are entailed by dominating facts or are listed internal invariants")
    rep.rule("EXC-4", "no directly recursive function on the decode path")
    rep.rule("EXC-5", "no division/modulo by a value read from the URL without a non-zero guard")
    rep.rule("EXC-6", "int() of a multi-character slice of the input only after character-class validation")
    funcs = decode_functions(repo)
    lz = L.Linearizer()
    base_set = {(m.rel, q) for m, q, _f in funcs}
    # helpers of the same module that a decode-path function hands (a piece of) the input to: analysed too, under the
    # facts that hold at every call site (computed entry contract)
    calls: Dict[Tuple[str, str], List[Tuple[G.Facts, ast.Call, Set[str]]]] = {}
    summaries_of: Dict[str, Any] = {}
    work: List[Tuple[Module, str, ast.FunctionDef, Optional[G.Facts], Optional[Set[str]]]] = [(m, q, f, None, None) for m, q, f in funcs]
    seen_helpers: Set[Tuple[str, str]] = set()
    rounds = 0
    while work:
      batch, work = work, []
      rounds += 1
      for mod, q, fn, entry_in, inputs_in in batch:
        rep.saw(mod.rel, q)
        params = [a.arg for a in fn.args.args]
        entry = entry_in or G.Facts()
        inputs = set(inputs_in) if inputs_in is not None else {p for p in params if p in INPUT_NAMES}
        if entry_in is None and "idx" in params and "data" in params:
            e = ast.parse("0 <= idx <= len(data)", mode="eval").body
            entry = entry.assume(e, True)
        if mod.rel not in summaries_of:
            summaries_of[mod.rel] = G.summarise_module(mod.funcs)
            G.register_predicates(mod.funcs)
        wrappers = int_wrappers(mod)
        local_dicts: Dict[str, Set[Any]] = {}
        for n in ast.walk(fn):
            if isinstance(n, ast.Assign) and len(n.targets) == 1 and isinstance(n.targets[0], ast.Name) and isinstance(n.value, ast.Dict):
                if all(isinstance(k, ast.Constant) for k in n.value.keys):
                    local_dicts[n.targets[0].id] = {k.value for k in n.value.keys}  # type: ignore[union-attr]
        # names holding (slices of) the input
        derived = set(inputs)
        url_ints: Set[str] = set()
        for n in ast.walk(fn):
            if isinstance(n, ast.Assign):
                src = norm(n.value)
                tn = [t.id for t in ast.walk(n.targets[0]) if isinstance(t, ast.Name)]
                if any(isinstance(x, ast.Name) and x.id in derived for x in ast.walk(n.value)):
                    if isinstance(n.value, ast.Call) and dotted(n.value.func) == "int":
                        url_ints |= set(tn)
                    elif isinstance(n.value, (ast.Subscript, ast.Call, ast.Name)) and ("split" in src or isinstance(n.value, ast.Subscript) or isinstance(n.value, ast.Name)):
                        derived |= set(tn)

        def on_expr(node: ast.AST, facts: G.Facts) -> None:
            # ---- EXC-1 / EXC-2 -----------------------------------------------------------------
            if isinstance(node, ast.Subscript) and isinstance(node.ctx, ast.Load) and not isinstance(node.slice, ast.Slice):
                base = node.value
                if isinstance(base, ast.Name) and base.id in local_dicts:
                    keys = local_dicts[base.id]
                    vals = key_values(node.slice, facts)
                    if vals is not None and vals <= keys:
                        rep.ok("EXC-2", f"{mod.rel}::{q} {short(node)}: keys {sorted(map(str, vals))} within the dict")
                    else:
                        rep.finding("EXC-2", mod.rel, q, short(node),
                                    f"`{short(node)}` can raise KeyError: the key {'set ' + str(sorted(map(str, vals))) if vals is not None else 'is not bounded by any guard'} "
                                    f"vs dict keys {sorted(map(str, keys))}", node.lineno)
                    return
                if isinstance(base, ast.Name) and base.id in derived and not isinstance(node.slice, ast.Tuple):
                    idx = lz.lin(node.slice)
                    if idx is None:
                        return
                    if isinstance(node.slice, ast.Constant) and isinstance(node.slice.value, int) and node.slice.value < 0:
                        return  # negative literal on a non-empty... handled as list idiom (url.split()[-3:])
                    pr = G.Prover(facts)
                    ln = L.sym(f"len({base.id})")
                    L.SYMINFO[f"len({base.id})"] = ("len", base.id)
                    lo_ok = pr.ge0(idx)
                    hi_ok = pr.ge0(L.add(L.add(ln, idx, -1), L.const(-1)))
                    if lo_ok and hi_ok:
                        rep.ok("EXC-1", f"{mod.rel}::{q} {short(node)} within [0, len({base.id}))")
                    else:
                        rep.finding("EXC-1", mod.rel, q, short(node),
                                    f"`{short(node)}` can raise IndexError: "
                                    f"{'index may be negative' if not lo_ok else 'index is not proved < len(' + base.id + ')'} under the dominating guards",
                                    node.lineno)
            # ---- EXC-5 -------------------------------------------------------------------------
            if isinstance(node, ast.BinOp) and isinstance(node.op, (ast.FloorDiv, ast.Mod, ast.Div)):
                d = node.right
                if isinstance(d, ast.Name) and d.id in url_ints:
                    pr = G.Prover(facts)
                    f = lz.lin(d)
                    if f is not None and (pr.ge0(L.add(f, L.const(-1))) or pr.ge0(L.add(L.scale(f, -1), L.const(-1)))):
                        rep.ok("EXC-5", f"{mod.rel}::{q} {short(node)} divisor non-zero")
                    else:
                        rep.finding("EXC-5", mod.rel, q, short(node),
                                    f"`{short(node)}` divides by `{d.id}`, an integer read from the URL with no non-zero guard: ZeroDivisionError", node.lineno)
            # ---- EXC-6 -------------------------------------------------------------------------
            if isinstance(node, ast.Call):
                name = dotted(node.func)
                if isinstance(node.func, ast.Name) and name in mod.funcs and (mod.rel, name) not in base_set and name != q \
                        and any(isinstance(a, ast.Name) and a.id in derived for a in node.args) and not node.keywords:
                    calls.setdefault((mod.rel, name), []).append((facts, node, set(derived)))
                if name == "int" or name in wrappers:
                    if node.args:
                        a = node.args[0]
                        text_src = a
                        if isinstance(a, ast.Name):
                            d0 = facts.definition(a.id)
                            if d0 is not None:
                                try:
                                    text_src = ast.parse(d0, mode="eval").body
                                except SyntaxError:
                                    text_src = a
                        multi = isinstance(text_src, ast.Subscript) and isinstance(text_src.slice, ast.Slice) and any(
                            isinstance(x, ast.Name) and x.id in derived for x in ast.walk(text_src))
                        whole = isinstance(text_src, ast.Name) and text_src.id in derived and text_src.id not in inputs and name == "int" \
                            and len(node.args) == 1 and q == "parse_puzz_link_url"
                        if multi or whole:
                            at = norm(a)
                            validated = any(facts.knows(f"{v}({at})") is True for v in VALIDATORS) or facts.knows(f"{at}.isdigit()") is True
                            if not validated and isinstance(text_src, ast.Subscript):
                                validated = digit_loop_validated(fn, text_src)
                            if validated:
                                rep.ok("EXC-6", f"{mod.rel}::{q} {short(node)}: characters validated before int()")
                            else:
                                rep.finding("EXC-6", mod.rel, q, short(node),
                                            f"`{short(node)}` parses a multi-character piece of the input without validating its characters: "
                                            "int() accepts signs, blanks, underscores and 0x prefixes, so negative or non-canonical "
                                            "values are returned as a problem that does not re-encode", node.lineno)

        def on_stmt(st: ast.stmt, facts: G.Facts) -> None:
            if isinstance(st, ast.Assert):
                txt = norm(st.test)
                pr_ok = entailed(st.test, facts)
                if pr_ok:
                    rep.ok("EXC-3", f"{mod.rel}::{q} assert {txt} is entailed by the dominating guards")
                elif (q, _shape_of(st.test)) in INTERNAL_INVARIANTS:
                    rep.ok("EXC-3", f"{mod.rel}::{q} assert {txt}: internal invariant ({INTERNAL_INVARIANTS[(q, _shape_of(st.test))]}); exercised by EXC-7", nontrivial=False)
                else:
                    rep.finding("EXC-3", mod.rel, q, f"assert {txt}",
                                f"`assert {txt}` on the decode path is not implied by the guards before it: malformed input raises AssertionError "
                                "instead of returning None / raising ValueError", st.lineno)

        w = G.Walker(on_expr=on_expr, on_stmt=on_stmt, summaries=summaries_of[mod.rel])
        w.run_function(fn, entry)
        # ---- EXC-4 ---------------------------------------------------------------------------
        for n in walk_no_nested(fn):
            if isinstance(n, ast.Call) and isinstance(n.func, ast.Name) and n.func.id == fn.name and "." in q:
                # nested helper calling itself
                rep.finding("EXC-4", mod.rel, q, f"recursive call {fn.name}(...)",
                            f"`{fn.name}` calls itself once per visited cell: depth grows with height x width taken from the URL (RecursionError)", n.lineno)
                break
        else:
            rep.ok("EXC-4", f"{mod.rel}::{q} is not directly recursive", nontrivial=False)
      # schedule newly discovered helpers with their computed entry contract
      if rounds <= 3:
        for (rel, name), sites in list(calls.items()):
            if (rel, name) in seen_helpers:
                continue
            seen_helpers.add((rel, name))
            hmod = repo.mod(rel)
            hfn = hmod.funcs[name]
            hp = [a.arg for a in hfn.args.args]
            if any(len(c.args) != len(hp) or any(isinstance(a, ast.Starred) for a in c.args) for _f, c, _d in sites):
                continue
            h_inputs = {hp[j] for j in range(len(hp)) if all(isinstance(c.args[j], ast.Name) and c.args[j].id in d for _f, c, d in sites)}
            entry = G.Facts()
            for j, pj in enumerate(hp):
                forms = [lz.lin(c.args[j]) for _f, c, _d in sites]
                if any(f is None for f in forms) or pj in h_inputs:
                    continue
                if all(G.Prover(f).ge0(fm) for (f, _c, _d), fm in zip(sites, forms)):
                    entry = entry.assume(ast.parse(f"{pj} >= 0", mode="eval").body, True)
                for k, pk in enumerate(hp):
                    if pk not in h_inputs:
                        continue
                    okay = True
                    for (f, c, _d), fm in zip(sites, forms):
                        nm = c.args[k].id  # type: ignore[attr-defined]
                        L.SYMINFO[f"len({nm})"] = ("len", nm)
                        if not G.Prover(f).ge0(L.add(L.sym(f"len({nm})"), fm, -1)):
                            okay = False
                    if okay:
                        entry = entry.assume(ast.parse(f"{pj} <= len({pk})", mode="eval").body, True)
            rep.info(f"EXC: helper {rel}::{name} analysed under the contract computed from its {len(sites)} call site(s): inputs {sorted(h_inputs)}")
            work.append((hmod, name, hfn, entry, h_inputs))
    rep.floor("EXC-1", 6)  # about half of what the pinned tree has: guards against a vacuous rule, not against tidier code


def entailed(test: ast.AST, facts: G.Facts) -> bool:
    txt = norm(test)
    if facts.knows(txt) is True:
        return True
    if isinstance(test, ast.Compare) and len(test.ops) == 1:
        a, b = test.left, test.comparators[0]
        if isinstance(test.ops[0], ast.IsNot) and facts.knows(f"{norm(a)} is {norm(b)}") is False:
            return True
        if isinstance(test.ops[0], ast.Is) and facts.knows(f"{norm(a)} is {norm(b)}") is True:
            return True
        lz = L.Linearizer()
        fa, fb = lz.lin(a), lz.lin(b)
        if fa is not None and fb is not None:
            pr = G.Prover(facts)
            t = type(test.ops[0])
            if t is ast.Eq:
                return pr.eq(fa, fb)
            if t is ast.LtE:
                return pr.ge(fb, fa)
            if t is ast.Lt:
                return pr.gt(fb, fa)
            if t is ast.GtE:
                return pr.ge(fa, fb)
            if t is ast.Gt:
                return pr.gt(fa, fb)
    return False


def key_values(idx: ast.AST, facts: G.Facts) -> Optional[Set[Any]]:
    """finite value set of a dict key expression under the facts (membership guards on characters)"""
    if isinstance(idx, ast.Constant):
        return {idx.value}
    conv = None
    inner = idx
    if isinstance(idx, ast.Call) and dotted(idx.func) == "int" and len(idx.args) == 1:
        conv = int
        inner = idx.args[0]
    t = norm(inner)
    cands = []
    for txt in facts.true:
        if txt.startswith(t + " in "):
            cands.append(txt[len(t) + 4:])
    for c in cands:
        try:
            v = ast.literal_eval(c)
        except (ValueError, SyntaxError):
            continue
        if isinstance(v, str):
            vals = set(v)
        elif isinstance(v, (list, tuple, set)):
            vals = set(v)
        else:
            continue
        vals = {x for x in vals if facts.knows(f"{t} == {x!r}") is not False and facts.knows(f"{t} != {x!r}") is not True}
        if conv is int:
            try:
                return {int(x) for x in vals}
            except (ValueError, TypeError):
                return None
        return vals
    return None


def digit_loop_validated(fn: ast.FunctionDef, sl: ast.Subscript) -> bool:
    """`int(data[idx : idx + n])` where a preceding while-loop advanced n only over .isdigit() characters"""
    up = sl.slice.upper if isinstance(sl.slice, ast.Slice) else None
    if up is None:
        return False
    names = {x.id for x in ast.walk(up) if isinstance(x, ast.Name)}
    for n in ast.walk(fn):
        if isinstance(n, ast.While) and ".isdigit()" in norm(n.test):
            incs = {s.target.id for s in n.body if isinstance(s, ast.AugAssign) and isinstance(s.target, ast.Name)}
            if incs and incs <= names and len(n.body) == len(incs):
                return True
    return False


# ------------------------------------------------------------------------------------------
# EXC-7: finite-quotient evaluation
# ------------------------------------------------------------------------------------------


def _leaf_specs() -> List[Tuple[str, str, tuple, dict, int, int]]:
    """(label, class, args, kwargs, board h, board w)"""
    return [
        ("HexInt", "HexInt", (), {}, 1, 1),
        ("DecInt", "DecInt", (), {}, 1, 1),
        ("Spaces(0,'g')", "Spaces", (0, "g"), {}, 1, 1),
        ("IntSpaces(-1,4,2)", "IntSpaces", (-1, 4, 2), {}, 1, 1),
        ("MultiDigit(3,3)", "MultiDigit", (3, 3), {}, 1, 1),
        ("MultiDigit(2,5)", "MultiDigit", (2, 5), {}, 1, 1),
        ("Dict", "Dict", ([1, 2], ["a", "-f"]), {}, 1, 1),
        ("FixStr", "FixStr", ("a-",), {}, 1, 1),
        # compositions in which an inner combinator is not the first item of its value list / not at the start of the text
        ("Seq(Grid(HexInt,1,2),2)", "Seq", (("new", "Grid", (("new", "HexInt", ()), 1, 2)), 2), {}, 3, 3),
        ("Seq(Grid(Spaces|HexInt),2)", "Seq", (("new", "Grid", (("new", "OneOf", (("new", "Spaces", (0, "g")), ("new", "HexInt", ()))),)), 2), {}, 1, 2),
        ("Seq(Tupl(DecInt,FixStr('-')),2)", "Seq", (("new", "Tupl", (("new", "DecInt", ()), ("new", "FixStr", ("-",)))), 2), {}, 1, 1),
    ]


def _build(w: Any, x: Any) -> Any:
    if isinstance(x, tuple) and len(x) == 3 and x[0] == "new":
        return w.new(x[1], *[_build(w, a) for a in x[2]])
    return x


def _eval_job(args) -> Tuple[str, Optional[str], int]:
    root, overrides, kind, label, deep = args
    repo = Repo(root, overrides)
    n = 0

    shifted: Dict[int, Obj] = {}

    def judge(w: SerWorld, comb: Obj, env: Obj, text: str, what: str, shift: bool = True) -> Optional[str]:
        if shift:
            # the same decoder as the second part of a Tupl (it then starts reading at position 1, not 0)
            c2 = shifted.get(id(comb))
            if c2 is None:
                c2 = shifted[id(comb)] = w.new("Tupl", w.new("FixStr", "0"), comb)
                shifted[-id(comb)] = comb  # keep the key object alive
            msg = judge(w, c2, env, "0" + text, f"Tupl(FixStr('0'), {what})", shift=False)
            if msg:
                return msg
        st, d = w.meth(comb, "deserialize", env, text, 0)
        if st == "raise":
            return None if d == "ValueError" else f"{what}: decoding {text!r} raises {d}"
        if d is None:
            return None
        try:
            n_read, vals = d
            if not (isinstance(n_read, int) and 0 <= n_read <= len(text) and isinstance(vals, list)):
                return f"{what}: decoding {text!r} returns {d!r}"
            if len(vals) == 0:
                return None
            st, r = w.meth(comb, "serialize", env, list(vals), 0)
            if st != "ok" or r is None:
                return f"{what}: {text!r} decodes to {vals!r}, which does not serialize again ({st} {r!r})"
            canon = r[1]
            st, d2 = w.meth(comb, "deserialize", env, canon, 0)
            if st != "ok" or d2 is None or not same_value(d2[1][: r[0]], list(vals)[: r[0]]):
                return f"{what}: {text!r} decodes to {vals!r}; its canonical text {canon!r} decodes to {st} {d2!r}"
        except (TypeError, ValueError, IndexError) as ex:
            return f"{what}: decoding {text!r} gives a malformed result ({ex})"
        return None

    try:
        if kind == "leaf":
            spec = [s for s in _leaf_specs() if s[0] == label][0]
            w = SerWorld(repo)
            comb = w.new(spec[1], *[_build(w, a) for a in spec[2]], **spec[3])
            env = w.env(spec[4], spec[5])
            for k in range(0, 4):
                for t in itertools.product(ALPHABET if deep else QUICK_ALPHABET, repeat=k):
                    n += 1
                    msg = judge(w, comb, env, "".join(t), label)
                    if msg:
                        return "bad", msg, n
        elif kind == "puzzle":
            modname, const, h, wd = label.split(":")
            w = SerWorld(repo, modname)
            comb = w.constants.get(const)
            if comb is None:
                return "undecided", f"{const} not found in {modname}", n
            env = w.env(int(h), int(wd))
            alpha = ["0", "4", "9", "f", "g", "z", "-", "+", ".", "_", "٣", "A"] if deep else TOKENS
            for k in range(0, 5 if deep else 3):
                for t in itertools.product(alpha, repeat=k):
                    n += 1
                    msg = judge(w, comb, env, "".join(t), f"{const} on a {h}x{wd} board")
                    if msg:
                        return "bad", msg, n
        elif kind == "url":
            w = SerWorld(repo, "nurikabe")
            urls = ["", "hello", "https://puzz.link/p?nurikabe/2/1", "https://puzz.link/p?nurikabe/2/1/", "https://puzz.link/p?nurikabe/2/1/zz",
                    "https://puzz.link/p?nurikabe/0/0/", "https://puzz.link/p?nurikabe/2/1/1", "https://puzz.link/p?nurikabe/2/1/--1",
                    "https://puzz.link/p?nurikabe/2/1/+-12", "https://puzz.link/p?nurikabe/2/1/-_1", "https://puzz.link/p?nurikabe/2/1/+ 12",
                    "http://pzv.jp/p.html?nurikabe/1/2/g0", "https://puzz.link/p?other/2/1/h", "https://puzz.link/p?nurikabe/-2/1/h",
                    "https://puzz.link/p?nurikabe/2/1/h/extra", "ftp://x/p?nurikabe/2/1/h",
                    "https://puzz.link/p?nurikabe/0/1/", "https://puzz.link/p?nurikabe/1/0/", "https://puzz.link/p?nurikabe/0/2/h",
                    "https://puzz.link/p?nurikabe/2/0/h", "https://puzz.link/p?nurikabe/0/1/g", "https://puzz.link/p?nurikabe/1/0/g"]
            for u in urls:
                for fn_, kw in (("deserialize_nurikabe", {}),):
                    n += 1
                    st, r = w.call(fn_, u)
                    if st == "raise" and r != "ValueError":
                        return "bad", f"{fn_}({u!r}) raises {r}", n
                    if st == "ok" and r is not None:
                        st2, u2 = w.call("serialize_nurikabe", r)
                        if st2 != "ok":
                            return "bad", f"{fn_}({u!r}) returns {r!r}, which serialize_nurikabe rejects ({u2})", n
                        st3, r3 = w.call(fn_, u2)
                        if st3 != "ok" or not same_value(r3, r):
                            return "bad", f"{fn_}({u!r}) returns {r!r}; canonical URL {u2!r} decodes to {st3} {r3!r}", n
                for allow in (False, True):
                    n += 1
                    st, r = w.call("deserialize_problem_as_url", w.constants["NURIKABE_COMBINATOR"], u, allow_failure=allow, return_size=True)
                    if st == "raise" and r != "ValueError":
                        return "bad", f"deserialize_problem_as_url(.., {u!r}, allow_failure={allow}) raises {r}", n
                    if st == "ok" and r is not None:
                        hh, ww, pb = r
                        if not (isinstance(pb, list) and len(pb) == hh and all(len(row) == ww for row in pb)):
                            return "bad", f"deserialize_problem_as_url(.., {u!r}) returns dimensions ({hh}, {ww}) with problem {pb!r}", n
                n += 1
                st, r = w.call("get_puzzle_info_from_url", u)
                if st == "raise":
                    return "bad", f"get_puzzle_info_from_url({u!r}) raises {r}", n
            # arbitrary combinators through deserialize_problem
            for cls, a in (("Spaces", (0, "g")), ("FixStr", ("ab",)), ("HexInt", ()), ("Seq", None)):
                comb = w.new("Seq", w.new("HexInt"), 2) if cls == "Seq" else w.new(cls, *a)
                for text in ("", "h", "ab", "1", "12", "zz~"):
                    n += 1
                    st, r = w.call("deserialize_problem", comb, text, height=1, width=1)
                    if st == "raise" and r != "ValueError":
                        return "bad", f"deserialize_problem({cls}{a or ''}, {text!r}) raises {r}", n
        elif kind in ("rooms",):
            w = SerWorld(repo, "heyawake")
            hh, ww = label.split("-")[1].split("x")
            for (h, wd) in [(int(hh), int(ww))]:
                nchar = (h * (wd - 1) + 4) // 5 + ((h - 1) * wd + 4) // 5
                env = w.env(h, wd)
                alpha = ["0", "1", "5", "9", "a", "g", "v", "w", "z", "-", "."] if deep else ["0", "1", "g", "v", "w", "-"]
                for comb_label, comb in (("Rooms()", w.new("Rooms")), ("HEYAWAKE_COMBINATOR", w.constants["HEYAWAKE_COMBINATOR"])):
                    for k in range(0, min(nchar + 1, 4 if deep else 3) + 1):
                        for t in itertools.product(alpha, repeat=k):
                            n += 1
                            msg = judge(w, comb, env, "".join(t) + ("" if comb_label == "Rooms()" else ""), f"{comb_label} on a {h}x{wd} board")
                            if msg:
                                return "bad", msg, n
            # recursion depth: a large all-zero border string must not exhaust the interpreter stack
        elif kind == "reuse":
            # the module-level combinators are singletons that decode many URLs in one process: one object, boards of different sizes
            # in sequence; each result must be what a fresh object gives (no state carried from one decode to the next)
            w = SerWorld(repo, "heyawake")
            seq = [(1, 2, "0"), (2, 3, "000"), (1, 2, "g"), (3, 2, "g0g"), (2, 2, "00"), (1, 1, ""), (2, 3, "vv0")]
            makers = {"Rooms()": lambda: w.new("Rooms"), "HEYAWAKE_COMBINATOR": lambda: w.constants["HEYAWAKE_COMBINATOR"]}
            for cl, mk in makers.items():
                shared = mk()
                for (h, wd, text) in seq + seq[::-1]:
                    n += 1
                    st1, r1 = w.meth(shared, "deserialize", w.env(h, wd), text, 0)
                    fresh = w.new("Rooms") if cl == "Rooms()" else None
                    if fresh is None:
                        w2 = SerWorld(repo, "heyawake")
                        st2, r2 = w2.meth(w2.constants["HEYAWAKE_COMBINATOR"], "deserialize", w2.env(h, wd), text, 0)
                    else:
                        st2, r2 = w.meth(fresh, "deserialize", w.env(h, wd), text, 0)
                    if st1 == "raise" and r1 != "ValueError":
                        return "bad", f"{cl} reused across boards: decoding {text!r} on a {h}x{wd} board (after other sizes) raises {r1}", n
                    if (st1, repr(r1)) != (st2, repr(r2)):
                        return "bad", (f"{cl} reused across boards: decoding {text!r} on a {h}x{wd} board gives {st1} {r1!r} after decodes of other sizes, "
                                       f"a fresh object gives {st2} {r2!r}"), n
        elif kind == "compass":
            w = SerWorld(repo, "compass")
            bodies = ["", "g", "1", "1.2", "1.23", "-1", "-1f.23", "z1.23", "....", "1.23k", "_", "٣...", "--1f...", "z1.23z1.23", "{", "-ff-10.0", "zz",
                      "--f...", "-+f...", "- f...", "-_f...", "-0x...", ".-f_..", "+1..", "A...", "-A1..."]
            for hw in ("4/5", "0/5", "5/0", "x/y", "-1/3", "+4/5", "1/1"):
                for b in bodies:
                    n += 1
                    u = f"https://puzz.link/p?compass/{hw}/{b}"
                    st, r = w.call("parse_puzz_link_url", u)
                    if st == "raise" and r != "ValueError":
                        return "bad", f"parse_puzz_link_url('.../compass/{hw}/{b}') raises {r}", n
                    if st == "ok":
                        try:
                            hh, ww, res = r
                            okay = isinstance(hh, int) and isinstance(ww, int) and hh > 0 and ww > 0 and all(
                                0 <= c[0] < hh and 0 <= c[1] < ww and all(isinstance(v, int) and v >= -1 for v in c[2:]) for c in res)
                        except (TypeError, ValueError):
                            okay = False
                        if not okay:
                            return "bad", f"parse_puzz_link_url('.../compass/{hw}/{b}') returns {r!r}: not a problem of the stated dimensions", n
                        st2, u2 = w.call("to_puzz_link_url", hh, ww, list(res))
                        if st2 != "ok":
                            return "bad", f"parse_puzz_link_url('.../compass/{hw}/{b}') returns {r!r}, which to_puzz_link_url rejects ({u2})", n
                        st3, r3 = w.call("parse_puzz_link_url", u2)
                        if st3 != "ok" or tuple(r3[:2]) != (hh, ww) or sorted(map(tuple, r3[2])) != sorted(map(tuple, res)):
                            return "bad", f"parse_puzz_link_url('.../compass/{hw}/{b}') returns {r!r}; its canonical URL {u2!r} parses to {st3} {r3!r}", n
    except Undecided as ex:
        return "undecided", str(ex), n
    return "ok", None, n


def evaluation(repo: Repo, rep: Report) -> None:
    rep.rule("EXC-7", "finite-quotient evaluation: every decoder on all short strings over one representative per character class: None, ValueError, or a re-encodable value")
    deep = rep.tier == "thorough"
    jobs = [(repo.root, repo.overrides, "leaf", s[0], deep) for s in _leaf_specs()]
    for modname, const in (("nurikabe", "NURIKABE_COMBINATOR"), ("sudoku", "SUDOKU_COMBINATOR"), ("nurimisaki", "NURIMISAKI_COMBINATOR"),
                           ("slitherlink", "SLITHERLINK_COMBINATOR"), ("masyu", "MASYU_COMBINATOR"), ("yajilin", "YAJILIN_COMBINATOR")):
        jobs.append((repo.root, repo.overrides, "puzzle", f"{modname}:{const}:1:2", deep))
    jobs.append((repo.root, repo.overrides, "url", "url", deep))
    for b in ("1x1", "1x3", "3x1", "2x2", "2x3"):
        jobs.append((repo.root, repo.overrides, "rooms", f"rooms-{b}", deep))
    jobs.append((repo.root, repo.overrides, "compass", "compass", deep))
    jobs.append((repo.root, repo.overrides, "reuse", "one combinator, several board sizes", deep))
    with ProcessPoolExecutor(max_workers=16) as ex:
        results = list(ex.map(_eval_job, jobs))
    where = {"leaf": (SER, "deserialize"), "puzzle": (SER, "deserialize"), "url": (SER, "deserialize_problem_as_url"),
             "rooms": (SER, "Rooms._deserialize"), "compass": ("cspuz/puzzle/compass.py", "parse_puzz_link_url"),
             "reuse": (SER, "Rooms._deserialize")}
    for job, (st, msg, n) in zip(jobs, results):
        kind, label = job[2], job[3]
        if st == "ok":
            rep.ok("EXC-7", f"{kind} {label}: {n} strings, every outcome is None / ValueError / re-encodable", points=n)
        elif st == "undecided":
            rep.undecide("EXC-7", f"{kind} {label}: {msg}")
        else:
            file, fn = where[kind]
            if kind == "puzzle":
                file = f"cspuz/puzzle/{label.split(':')[0]}.py" if "Yajilin" in (msg or "") or "YAJILIN" in label else SER
            rep.finding("EXC-7", file, fn, f"{kind} {label}", msg or "")


class _Hold:
    """holds back the findings of the proof rules until EXC-7 has had its say"""

    def __init__(self, rep: Report):
        self.rep = rep
        self.held: List[Tuple[Any, ...]] = []

    def __getattr__(self, name: str) -> Any:
        return getattr(self.rep, name)

    def finding(self, rule: str, *a: Any, **k: Any) -> None:
        if rule in PROOF_RULES:
            self.held.append((rule,) + a)
            self.rep.rule_counts[rule] = self.rep.rule_counts.get(rule, 0) + 1  # counts as an examined instance
        else:
            self.rep.finding(rule, *a, **k)


# rules whose failure means "not proved" rather than "refuted": alone they give exit 2, with an EXC-7 witness in the same
# function they are reported as the location of the defect
PROOF_RULES = ("EXC-1", "EXC-2", "EXC-3", "EXC-5")


VALIDATOR_CLASS = {"_is_hex": "0123456789abcdef", "_is_alnum_lower": "0123456789abcdefghijklmnopqrstuvwxyz"}


def check_validators(repo: Repo, rep: Report) -> None:
    """EXC-6 trusts a guard `_is_hex(piece)` / `_is_alnum_lower(piece)` by name; here every function of that name on the decode
    path is evaluated on all strings of length <= 2 (and some of length 3) over one representative per character class and must
    accept exactly the strings made of its class (the empty string included, as `all()` does)"""
    rep.rule("EXC-6V", "the character-class validators that EXC-6 relies on accept exactly the strings over their class (no sign, blank, underscore, prefix, upper case, non-ASCII digit)")
    alpha = ["0", "9", "a", "f", "g", "z", "-", "+", "_", " ", "x", "A", "F", "٣", "."]
    words = [""] + alpha + [a + b for a in alpha for b in alpha] + ["0x1", "-1f", "+0a", "1_0", " 1", "1 ", "0b1", "fff", "00g"]
    n = 0
    for m in [repo.mod(SER)] + list(repo.iter("cspuz/puzzle/")):
        for name, cls in VALIDATOR_CLASS.items():
            if name not in m.funcs:
                continue
            n += 1
            rep.saw(m.rel, name)
            cw = ClassWorld([m])
            bad = None
            try:
                for wd in words:
                    cw.ev.steps = 0
                    got = cw.call(name, wd)
                    want = all(ch in cls for ch in wd)
                    if wd == "":
                        continue  # accepting or rejecting the empty piece is the caller's business
                    if got is not want:
                        bad = (wd, got, want)
                        break
            except Undecided as ex:
                rep.undecide("EXC-6V", f"{m.rel}::{name}: {ex}")
                continue
            except Raised as ex:
                bad = (wd, f"raises {ex.what}", want)
            if bad:
                rep.finding("EXC-6V", m.rel, name, f"{name} character class",
                            f"{name}({bad[0]!r}) gives {bad[1]!r}, expected {bad[2]!r}: the guard lets through text that int() then reads as a signed / "
                            "prefixed / non-canonical number", m.funcs[name].lineno)
            else:
                rep.ok("EXC-6V", f"{m.rel}::{name} accepts exactly the strings over its class ({len(words)} probe strings)", points=len(words))
    if n < 2:
        raise AnalysisError("EXC-6V: the validators EXC-6 relies on were not found")


def run(repo: Repo, rep: Report) -> None:
    from ..selftest.guards_check import engine_selfcheck
    engine_selfcheck(rep)
    check_validators(repo, rep)
    hold = _Hold(rep)
    static_rules(repo, hold)  # type: ignore[arg-type]
    before = len(rep.findings)
    evaluation(repo, rep)
    witnessed = len(rep.findings) > before
    for h in hold.held:
        rule, file, func, construct, message = h[:5]
        line = h[5] if len(h) > 5 else None
        rep.rule_counts[rule] -= 1  # re-counted by finding()/undecide() below
        if witnessed:
            rep.finding(rule, file, func, construct, message, line)
        else:
            rep.undecide(rule, f"{file}::{func} {construct}: {message} (not proved; EXC-7 found no input that raises)")
    rep.assume("ValueError from int()/Rooms/allowed_puzzles is allowed by the property; non-termination and memory are not decided; "
               "the EXC-7 alphabet has one representative per character class the decoders test (digit ranges, a-f, g-z, - + . _, blank, upper case, non-ASCII digit)")
