"""C10 - active_edges_connected_crossable (degree table, boundary rule, split-graph schema)."""

from __future__ import annotations

import itertools
from typing import Any, Dict, List, Optional, Set, Tuple

from ..core.fde import IndexOutOfRange, Obj, Raised, Tag, Undecided
from ..core.findings import Report
from ..core.loader import Repo
from . import c14, c20, exprmodel as EM
from .c04 import ref_vertices_connected
from .encodings import Canon, Instance, RefArray, compare
from .graphnative import GRAPH

FRAMES = [(1, 1), (1, 2), (2, 1), (2, 2)]


def frame_instance(repo: Repo, H: int, W: int, single_cycle: bool):
    inst = Instance(repo)
    fr = inst.w.cw.new("BoolGridFrame", inst.s, H, W)
    inst.arrays[-2]["user"] = "Hz"
    inst.arrays[-1]["user"] = "Vt"
    fn = "active_edges_single_cycle_crossable" if single_cycle == "alias" else "active_edges_connected_crossable"
    if single_cycle == "alias":
        ret = inst.w.call(fn, inst.s, fr)
    else:
        ret = inst.w.call(fn, inst.s, fr, single_cycle=single_cycle)
    return inst, fr, ret


def ref_crossable(H: int, W: int, single_cycle: bool):
    cn = Canon({})
    h, w = H + 1, W + 1
    P = lambda p: ("passed", p)  # noqa: E731
    X = lambda p: ("cross", p)  # noqa: E731
    S = lambda p: ("single", p)  # noqa: E731
    DH = lambda p: ("dh", p)  # noqa: E731
    DV = lambda p: ("dv", p)  # noqa: E731
    HZ = lambda r, c: ("Hz", r * W + c)  # noqa: E731   horizontal[r, c], shape (H+1, W)
    VT = lambda r, c: ("Vt", r * (W + 1) + c)  # noqa: E731   vertical[r, c], shape (H, W+1)
    N = h * w * 3 + (h - 1) * w + h * (w - 1)

    def cons() -> List[Tuple]:
        out = []
        for y in range(h):
            for x in range(w):
                p = y * w + x
                out.append(cn.nary("or", [cn.neg(X(p)), P(p)]))
                if y == 0 or y == h - 1 or x == 0 or x == w - 1:
                    out.append(cn.neg(X(p)))
                nb = []
                if y > 0:
                    nb.append(VT(y - 1, x))
                if y < H:
                    nb.append(VT(y, x))
                if x > 0:
                    nb.append(HZ(y, x - 1))
                if x < W:
                    nb.append(HZ(y, x))
                d = cn.add([("b2i", e) for e in nb])
                out.append(cn.nary("or", [P(p), cn.cmp("==", d, ("c", 0))]))
                out.append(cn.nary("or", [cn.neg(cn.nary("and", [P(p), X(p)])), cn.cmp("==", d, ("c", 4))]))
                plain = cn.nary("and", [P(p), cn.neg(X(p))])
                if single_cycle:
                    out.append(cn.nary("or", [cn.neg(plain), cn.cmp("==", d, ("c", 2))]))
                else:
                    out.append(cn.nary("or", [cn.neg(plain), cn.cmp(">=", d, ("c", 1))]))
                    out.append(cn.nary("or", [cn.neg(plain), cn.cmp("<=", d, ("c", 2))]))
                out.append(cn.iff(S(p), plain))
                out.append(cn.iff(DH(p), X(p)))
                out.append(cn.iff(DV(p), X(p)))
        gv: List[Tuple] = []
        for p in range(h * w):
            gv += [S(p), DH(p), DV(p)]
        for y in range(h - 1):
            for x in range(w):
                gv.append(VT(y, x))
        for y in range(h):
            for x in range(w - 1):
                gv.append(HZ(y, x))
        ge: List[Tuple[int, int]] = []
        for y in range(h - 1):
            for x in range(w):
                eid = h * w * 3 + y * w + x
                v0, v1 = (y * w + x) * 3, ((y + 1) * w + x) * 3
                ge += [(eid, v0), (eid, v0 + 2), (eid, v1), (eid, v1 + 2)]
        for y in range(h):
            for x in range(w - 1):
                eid = h * w * 3 + (h - 1) * w + y * (w - 1) + x
                v0, v1 = (y * w + x) * 3, (y * w + x + 1) * 3
                ge += [(eid, v0), (eid, v0 + 1), (eid, v1), (eid, v1 + 1)]
        _refs, sub = ref_vertices_connected(N, ge, False, act=lambda i: gv[i], prefix="g")
        return out + sub()

    arrays = [RefArray(nm, "b", h * w) for nm in ("passed", "cross", "single", "dh", "dv")] + [RefArray("grank", "i", N, need=N), RefArray("groot", "b", N)]
    return arrays, cons


def degree_table(repo: Repo, rep: Report) -> None:
    rep.rule("FDT-1", "per lattice point the posted constraints admit exactly: degree 0 unvisited; degree 1 or 2 (2 only, for a cycle) visited not crossing; degree 4 visited crossing, interior points only")
    em = EM.ExprWorld(repo)
    # square, wider-than-tall and taller-than-wide frames: the border test must use the right dimension per axis
    # ... and frames without any cell (a single row / column of lattice points): the degree rules are what switches their segments off
    FDT_FRAMES = ((2, 2), (2, 3), (3, 2), (0, 2), (2, 0), (0, 1))
    for single_cycle in (False, True, "alias"):
      sc = bool(single_cycle)
      bad = None
      npts = 0
      for H, W in FDT_FRAMES:
        try:
            inst, fr, ret = frame_instance(repo, H, W, single_cycle)
        except Undecided as ex:
            rep.undecide("FDT-1", str(ex))
            bad = ""
            break
        except (Raised, IndexOutOfRange) as ex:
            rep.finding("FDT-1", GRAPH, "active_edges_connected_crossable", "raises", f"raises {ex}")
            bad = ""
            break
        if not (isinstance(ret, tuple) and len(ret) == 2 and all(isinstance(r, Obj) and tuple(r.attrs.get("shape", ())) == (H + 1, W + 1) for r in ret)):
            rep.finding("FDT-1", GRAPH, "active_edges_connected_crossable", "result",
                        f"on a {H}x{W} frame the function returns {ret!r}; expected two {H + 1}x{W + 1} arrays (passed, crossing)")
            bad = ""
            break
        passed, cross = ret
        hz = fr.attrs["horizontal"].attrs["data"]
        vt = fr.attrs["vertical"].attrs["data"]

        def vars_of(t: Any, acc: Set[int]) -> None:
            if isinstance(t, Obj):
                if isinstance(t.attrs.get("op"), Tag) and t.attrs["op"].name.endswith("VAR"):
                    acc.add(t.attrs["id"])
                for o in t.attrs.get("operands", []):
                    vars_of(o, acc)

        cons = []
        for c in inst.constraints():
            acc: Set[int] = set()
            vars_of(c, acc)
            cons.append((c, acc))

        class Den:
            def denote(self, v: Any, val: Dict[Any, Any]) -> Any:
                if isinstance(v, Obj) and isinstance(v.attrs.get("op"), Tag) and v.attrs["op"].name.endswith("VAR"):
                    return val[v.attrs["id"]]
                return EM.ExprWorld.denote(self, v, val)  # type: ignore[arg-type]

        den = Den()
        for y in range(H + 1):
          for x in range(W + 1):
            on_y, on_x = y in (0, H), x in (0, W)
            kind = "corner" if on_y and on_x else "edge" if on_y or on_x else "interior"
            nb = []
            if y > 0:
                nb.append(vt[(y - 1) * (W + 1) + x])
            if y < H:
                nb.append(vt[y * (W + 1) + x])
            if x > 0:
                nb.append(hz[y * W + x - 1])
            if x < W:
                nb.append(hz[y * W + x])
            p_var, x_var = passed.attrs["data"][y * (W + 1) + x], cross.attrs["data"][y * (W + 1) + x]
            ids = [v.attrs["id"] for v in nb] + [p_var.attrs["id"], x_var.attrs["id"]]
            local = [c for c, vs in cons if vs and vs <= set(ids)]
            admitted = set()
            for vals in itertools.product([False, True], repeat=len(ids)):
                val = dict(zip(ids, vals))
                if all(den.denote(c, val) is True for c in local):
                    admitted.add((sum(vals[: len(nb)]), vals[-2], vals[-1]))
            want = {(0, False, False)} | {(d, True, False) for d in ((2,) if sc else (1, 2)) if d <= len(nb)}
            if kind == "interior":
                want.add((4, True, True))
            npts += 1
            if admitted != want and bad is None:
                bad = (f"single_cycle={sc}: at the {kind} lattice point ({y},{x}) of a {H}x{W} frame the posted constraints admit (degree, visited, crossing) "
                       f"{sorted(admitted)}; the rule is {sorted(want)}")
        if bad is not None:
            break
      if bad:
          rep.finding("FDT-1", GRAPH, "active_edges_connected_crossable", f"degree rule single_cycle={single_cycle}", bad)
      elif bad is None:
          rep.ok("FDT-1", f"single_cycle={single_cycle}: all {npts} lattice points of the 2x2, 2x3 and 3x2 frames admit exactly the degree table; "
                          "(passed, crossing) arrays of lattice shape returned", points=npts)


def strand_semantics(repo: Repo, rep: Report) -> None:
    """the split graph handed to active_vertices_connected, with the node activities the local rules force, is
    connected exactly when all active segments form one strand (straight pass-through at 4-way points)"""
    rep.rule("SPLIT", "for every segment subset of the small frames: 'active nodes of the split graph connected' <=> 'all active segments lie on one strand'; the sub-call is active_vertices_connected on that graph")
    em = EM.ExprWorld(repo)

    class Den:
        def denote(self, v: Any, val: Dict[Any, Any]) -> Any:
            if isinstance(v, Obj) and isinstance(v.attrs.get("op"), Tag) and v.attrs["op"].name.endswith("VAR"):
                return val[v.attrs["id"]]
            return EM.ExprWorld.denote(self, v, val)  # type: ignore[arg-type]

    den = Den()
    for single_cycle, prim in ((False, False), (True, False), (False, True), (True, True)):
        # both settings of config.use_graph_primitive: the function must hand the same split graph and node flags to the
        # connectivity constraint whichever way that constraint is then encoded
        try:
            bad = None
            total = 0
            fresh_graphs: Dict[Tuple[int, int], Any] = {}
            shared_world = None
            # every frame in a fresh interpreter state, then the same frames again one after the other in ONE state (a wide frame, its
            # transpose with the same number of nodes, ...): what an earlier call left behind must not change the split graph
            # ... and frames without any cell (one row / one column of lattice points): no cycle fits there, but the segments are still
            # switched off by the degree rules, not by a shortcut
            for H, W, shared in ((1, 1, False), (1, 2, False), (2, 1, False), (2, 2, False), (0, 1, False), (0, 2, False), (2, 0, False),
                                 (1, 2, True), (2, 1, True), (2, 2, True), (1, 2, True)):
                inst = Instance(repo, prim=prim, world=shared_world if shared else None)
                if shared and shared_world is None:
                    shared_world = inst.w
                fr = inst.w.cw.new("BoolGridFrame", inst.s, H, W)
                captured: List[Any] = []
                orig = inst.w.cw.genv["active_vertices_connected"]

                def rec(solver: Any, is_active: Any, graph: Any = None, **kw: Any) -> Any:
                    captured.append((list(is_active) if isinstance(is_active, list) else is_active, graph, kw))
                    return None  # the connectivity constraint itself is C04's subject

                inst.w.cw.genv["active_vertices_connected"] = rec
                ret = inst.w.call("active_edges_connected_crossable", inst.s, fr, single_cycle=single_cycle)
                inst.w.cw.genv["active_vertices_connected"] = orig
                if not captured and (H == 0 or W == 0) and single_cycle:
                    continue  # no cycle fits on a cell-less frame: leaving connectivity out there is fine (the degree rules are FDT-1's)
                if len(captured) != 1 or captured[0][1] is None or not isinstance(captured[0][0], list):
                    bad = f"{H}x{W} frame: expected one call active_vertices_connected(solver, <node list>, graph=<split graph>), saw {len(captured)}"
                    break
                gv, g, kw = captured[0]
                if shared:
                    sig = (g.attrs["num_vertices"], [tuple(e) for e in g.attrs["edges"]])
                    if sig != fresh_graphs.get((H, W)):
                        bad = (f"{H}x{W} frame evaluated after other frames in the same interpreter state: the split graph handed to the connectivity "
                               f"constraint has {sig[0]} nodes and edges {sig[1][:6]}..., but {fresh_graphs[(H, W)][0]} nodes and edges "
                               f"{fresh_graphs[(H, W)][1][:6]}... when the frame is evaluated first: state carried over from an earlier call")
                        break
                    continue
                fresh_graphs[(H, W)] = (g.attrs["num_vertices"], [tuple(e) for e in g.attrs["edges"]])
                passed, cross = ret
                h, w = H + 1, W + 1
                hz = [v.attrs["id"] for v in fr.attrs["horizontal"].attrs["data"]]
                vt = [v.attrs["id"] for v in fr.attrs["vertical"].attrs["data"]]
                seg_ids = hz + vt
                # geometry of each segment: its two lattice points and its direction
                geo: Dict[int, Tuple[Tuple[int, int], Tuple[int, int], str]] = {}
                for r in range(H + 1):
                    for c in range(W):
                        geo[hz[r * W + c]] = ((r, c), (r, c + 1), "h")
                for r in range(H):
                    for c in range(W + 1):
                        geo[vt[r * (W + 1) + c]] = ((r, c), (r + 1, c), "v")
                p_ids = [v.attrs["id"] for v in passed.attrs["data"]]
                x_ids = [v.attrs["id"] for v in cross.attrs["data"]]
                # definitions of auxiliary node flags: constraints IFF(var, expr)
                defs: Dict[int, Any] = {}
                for c in inst.constraints():
                    if isinstance(c, Obj) and isinstance(c.attrs.get("op"), Tag) and c.attrs["op"].name.endswith("IFF"):
                        a, b = c.attrs["operands"]
                        for v, e in ((a, b), (b, a)):
                            if isinstance(v, Obj) and isinstance(v.attrs.get("op"), Tag) and v.attrs["op"].name.endswith("VAR") \
                                    and v.attrs["id"] not in seg_ids + p_ids + x_ids:
                                defs.setdefault(v.attrs["id"], e)
                edges_g = [tuple(e) for e in g.attrs["edges"]]
                n_nodes = g.attrs["num_vertices"]
                if n_nodes != len(gv):
                    bad = f"{H}x{W} frame: split graph has {n_nodes} nodes for {len(gv)} activity flags"
                    break
                adj: List[List[int]] = [[] for _ in range(n_nodes)]
                for a, b in edges_g:
                    adj[a].append(b)
                    adj[b].append(a)
                for pat in itertools.product([False, True], repeat=len(seg_ids)):
                    val: Dict[int, Any] = dict(zip(seg_ids, pat))
                    deg = {(y, x): 0 for y in range(h) for x in range(w)}
                    for sid, on in zip(seg_ids, pat):
                        if on:
                            deg[geo[sid][0]] += 1
                            deg[geo[sid][1]] += 1
                    if any(d == 3 for d in deg.values()) or (single_cycle and any(d == 1 for d in deg.values())):
                        continue
                    total += 1
                    for y in range(h):
                        for x in range(w):
                            val[p_ids[y * w + x]] = deg[(y, x)] > 0
                            val[x_ids[y * w + x]] = deg[(y, x)] == 4
                    changed = True
                    while changed:
                        changed = False
                        for vid, e in defs.items():
                            if vid not in val:
                                try:
                                    val[vid] = den.denote(e, val)
                                    changed = True
                                except KeyError:
                                    pass
                    try:
                        act = [den.denote(t, val) for t in gv]
                    except KeyError as ex:
                        raise Undecided(f"node flag without definition: variable #{ex}")
                    on_nodes = [i for i in range(n_nodes) if act[i] is True]
                    conn = True
                    if on_nodes:
                        seen = {on_nodes[0]}
                        st = [on_nodes[0]]
                        while st:
                            v = st.pop()
                            for u in adj[v]:
                                if act[u] is True and u not in seen:
                                    seen.add(u)
                                    st.append(u)
                        conn = len(seen) == len(on_nodes)
                    # specification: strands
                    segs = [sid for sid, on in zip(seg_ids, pat) if on]
                    spec = True
                    if segs:
                        seen2 = {segs[0]}
                        st2 = [segs[0]]
                        while st2:
                            s0 = st2.pop()
                            for s1 in segs:
                                if s1 in seen2:
                                    continue
                                shared = set(geo[s0][:2]) & set(geo[s1][:2])
                                for pt in shared:
                                    if deg[pt] <= 2 or (deg[pt] == 4 and geo[s0][2] == geo[s1][2]):
                                        seen2.add(s1)
                                        st2.append(s1)
                                        break
                        spec = len(seen2) == len(segs)
                    if conn != spec:
                        on_geo = [geo[sid][:2] for sid in segs]
                        bad = (f"{H}x{W} frame, single_cycle={single_cycle}: for the active segments {on_geo} the split graph's active nodes are "
                               f"{'connected' if conn else 'not connected'} but the segments {'do' if spec else 'do not'} form one strand")
                        break
                if bad:
                    break
            if bad:
                rep.finding("SPLIT", GRAPH, "active_edges_connected_crossable", f"split graph single_cycle={single_cycle} primitive={prim}", bad)
            else:
                rep.ok("SPLIT", f"single_cycle={single_cycle}, use_graph_primitive={prim}: {total} degree-admissible segment subsets of the 1x1, 1x2, 2x1, 2x2 frames: split-graph connectivity == one strand", points=total)
        except Undecided as ex:
            rep.undecide("SPLIT", str(ex))
        except (Raised, IndexOutOfRange) as ex:
            rep.finding("SPLIT", GRAPH, "active_edges_connected_crossable", "raises", f"raises {ex}")


def run(repo: Repo, rep: Report) -> None:
    from .encodings import engine_selfcheck
    engine_selfcheck(rep)
    rep.rule("ENC-S", "the whole constraint set (degree rules, pass-through node arrays, split graph of 3 nodes per point + 1 per segment, connectivity of its active nodes) equals the reference schema")
    rep.saw(GRAPH, "active_edges_connected_crossable")
    degree_table(repo, rep)
    strand_semantics(repo, rep)
    for single_cycle in (False, True):
        try:
            bad = None
            k = 0
            for H, W in FRAMES:
                k += 1
                inst, fr, ret = frame_instance(repo, H, W, single_cycle)
                refs, cons = ref_crossable(H, W, single_cycle)
                fixed = None
                if isinstance(ret, tuple) and len(ret) == 2 and all(isinstance(r, Obj) and "data" in r.attrs for r in ret):
                    fixed = {"passed": [v.attrs.get("id") for v in ret[0].attrs["data"]], "cross": [v.attrs.get("id") for v in ret[1].attrs["data"]]}
                same, diff = compare(inst, refs, cons, fixed=fixed)
                if not same:
                    bad = f"{H}x{W} frame, single_cycle={single_cycle}: {diff}"
                    break
            if bad:
                # a deviation in the large schema cannot be triaged by enumeration; its two semantic halves are decided by FDT-1 and SPLIT
                rep.info(f"active_edges_connected_crossable deviates from the reference schema ({bad}); decided by FDT-1 and SPLIT instead")
            else:
                rep.ok("ENC-S", f"single_cycle={single_cycle}: reference schema on {k} frames (split graph of 3 nodes per point, 1 per segment; connectivity of active nodes)", points=k)
        except Undecided as ex:
            rep.undecide("ENC-S", str(ex))
        except (Raised, IndexOutOfRange) as ex:
            rep.finding("ENC-S", GRAPH, "active_edges_connected_crossable", "raises", f"raises {ex}")
    # "one strand" = connectivity of the split graph's active nodes: SPLIT hands that sub-call over, so the sub-call's own encoding
    # (active_vertices_connected on explicit graphs, node flags that are variables, constants - a pre-drawn segment is the constant
    # True - and compound expressions) is decided here as well, by C04's schema rule
    from .c04 import check_encoding as connectivity_encoding
    connectivity_encoding(repo, rep)
    c20.check_gating(repo, rep)
    rep.assume("the split-graph schema (every segment node joined to the 'single' node and to the pass-through node of its own direction at both "
               "ends; active nodes connected) is exact for 'one strand': DESIGN.md C10; a consistent swap of the two pass-through halves would "
               "be reported as undecided, not as a violation")
