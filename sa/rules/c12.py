"""C12 - array operators and aggregate helpers have pointwise / mathematical meaning.

OPC-6A  every operator dunder / then / cond of the four array classes, on (array, array),
        (array, scalar expression) and (array, literal) operands: result is an array of the same
        shape whose element i denotes A[i] op B[i] (reference denotation, operand order preserved).
TYP     ill-typed operands (bool where int is needed and vice versa, Python bool literals for
        integers, shape mismatches) are rejected with an exception / NotImplemented from dunders only.
OPC-5   the type tables (is_bool_op, is_int_op, _make_*_expr, _elementwise) agree with the reference
        signature of every operator.
AGG     count_true / fold_or / fold_and / alldifferent / conv2d / four_neighbors over arrays.
"""

from __future__ import annotations

import itertools
from typing import Any, Dict, List, Optional, Tuple

from ..core import fde
from ..core.classworld import ClassWorld
from ..core.fde import IndexOutOfRange, Lin, Obj, Raised, Tag, Undecided
from ..core.findings import Report
from ..core.loader import AnalysisError, Repo
from . import exprmodel as EM
from . import opc
from .opc import same

ARRAY = "cspuz/array.py"
EXPR = "cspuz/expr.py"
CONS = "cspuz/constraints.py"


class World:
    def __init__(self, repo: Repo):
        self.repo = repo
        self.cw = ClassWorld([repo.mod(EXPR), repo.mod(ARRAY), repo.mod(CONS)])
        g = self.cw.genv
        g["Op"] = Tag("Op")
        # flatten_iterator: the repository's own generator function, evaluated from source
        for n in ("count_true", "fold_or", "fold_and", "alldifferent", "cond", "then"):
            if n in g:
                g["cspuz.constraints." + n] = g[n]
        self.em = EM.ExprWorld(repo)

    def flatten(self, *args: Any) -> List[Any]:
        out: List[Any] = []
        for a in args:
            if isinstance(a, (list, tuple)):
                for x in a:
                    out.extend(self.flatten(x))
            elif isinstance(a, Obj) and "leaf" not in a.attrs and "op" not in a.attrs and self.cw.find_method(
                a.attrs.get("__class__", ""), "__iter__"
            )[1] is not None:
                for x in self.cw.ev.iterate(a):
                    out.extend(self.flatten(x))
            else:
                out.append(a)
        return out

    def leaf(self, kind: str, name: str) -> Obj:
        cls = "BoolExpr" if kind == "b" else "IntExpr"
        o = Obj(self.cw.mro(cls), leaf=name, kind=kind, name=name, __class__=cls, op=Tag("Op.VAR"), operands=[])
        o.resolver = self.cw._resolver
        return o

    def array(self, kind: str, prefix: str, shape: Tuple[int, ...]) -> Obj:
        n = 1
        for s in shape:
            n *= s
        leaves = [self.leaf(kind, f"{prefix}{i}") for i in range(n)]
        cls = {("b", 1): "BoolArray1D", ("b", 2): "BoolArray2D", ("i", 1): "IntArray1D", ("i", 2): "IntArray2D"}[(kind, len(shape))]
        if len(shape) == 1:
            return self.cw.new(cls, leaves)
        return self.cw.new(cls, leaves, tuple(shape))

    def denote(self, v: Any, val: Dict[str, Any]) -> Any:
        return self.em.denote(v, val)


def _try(w: World, thunk) -> Tuple[str, Any]:
    w.cw.ev.steps = 0
    try:
        return "value", thunk()
    except Raised as ex:
        return "raised", ex.what.split("(")[0]
    except IndexOutOfRange as ex:
        return "raised", "IndexError"


BOOL_OPS = {k: v[1] for k, v in opc.BOOL_DUNDERS.items()}
INT_OPS = {k: (v[1], v[2]) for k, v in opc.INT_DUNDERS.items()}


def valuations(kind_by_name: Dict[str, str], order: bool):
    names = sorted(kind_by_name)
    doms = []
    for n in names:
        if kind_by_name[n] == "b":
            doms.append([False, True])
        elif order:
            doms.append(list(EM.INT_GRID))
        else:
            doms.append([Lin.sym(n)])
    for t in itertools.product(*doms):
        yield dict(zip(names, t))


def check_array_dunders(repo: Repo, rep: Report, w: World) -> None:
    rep.rule("OPC-6A", "array dunders/then/cond: same-shape result whose element i denotes A[i] op B[i] (operand order kept)")
    rep.rule("TYP", "ill-typed or mis-shaped operands are rejected (NotImplemented from dunders only, TypeError/ValueError otherwise)")
    mod = repo.mod(ARRAY)
    rep.saw(ARRAY)
    for kind, dims, cls in (("b", 1, "BoolArray1D"), ("b", 2, "BoolArray2D"), ("i", 1, "IntArray1D"), ("i", 2, "IntArray2D")):
        shape = (2,) if dims == 1 else (1, 2)
        other_shape = (3,) if dims == 1 else (2, 1)
        table = BOOL_OPS if kind == "b" else {k: v[1] for k, v in INT_OPS.items()}
        for name, meaning in table.items():
            q = f"{cls}.{name}"
            rep.saw(ARRAY, q)
            owner_, fn = w.cw.find_method(cls, name)  # through the MRO: the operator may live on a shared base or mixin
            if fn is None:
                rep.finding("OPC-6A", ARRAY, cls, f"missing {q}", f"{q} is not defined: the operator form is no longer available on {cls}")
                continue
            unary = name in ("__invert__", "__neg__")
            res_kind = "b" if kind == "b" else INT_OPS[name][0]
            order = kind == "i" and res_kind == "b"
            A = w.array(kind, "a", shape)
            variants_: List[Tuple[str, List[Any], Dict[str, str]]] = []
            if unary:
                variants_.append(("(array)", [], {}))
            else:
                B = w.array(kind, "b", shape)
                s = w.leaf(kind, "s")
                variants_.append(("(array, array)", [B], {"b0": kind, "b1": kind}))
                variants_.append(("(array, scalar)", [s], {"s": kind}))
                variants_.append(("(array, literal)", [True if kind == "b" else 2], {}))
                # the neutral-looking literals: 0 and 1 for integers, False for booleans (a fast path keyed on them must still be pointwise)
                for lit_ in ((0, 1) if kind == "i" else (False,)):
                    variants_.append((f"(array, literal {lit_})", [lit_], {}))
                # operands whose elements are themselves compound expressions of the same family, built with the library's own
                # operators: A op (B - C), A op (B + C) / A op (B & C), A op (B | C) - a kernel that looks inside its operands shows here
                C = w.array(kind, "c", shape)
                for inner in (("__sub__", "__add__") if kind == "i" else ("__and__", "__or__")):
                    kr, comp = _try(w, lambda: w.cw.method(B, inner)(C))
                    if kr == "value" and isinstance(comp, Obj):
                        variants_.append((f"(array, array {inner} array)", [comp], {"b0": kind, "b1": kind, "c0": kind, "c1": kind}))
            for label, args, extra in variants_:
                try:
                    kindr, res = _try(w, lambda: w.cw.method(A, name)(*args))
                    if kindr != "value" or res is fde.NOTIMPL or not isinstance(res, Obj):
                        rep.finding("OPC-6A", ARRAY, q, f"{q} {label}", f"well-typed operands are rejected ({kindr}: {res!r})", fn.lineno)
                        continue
                    want_cls = {("b", 1): "BoolArray1D", ("b", 2): "BoolArray2D", ("i", 1): "IntArray1D", ("i", 2): "IntArray2D"}[(res_kind, dims)]
                    if res.attrs.get("__class__") != want_cls or tuple(res.attrs.get("shape", ())) != tuple(shape):
                        rep.finding("OPC-6A", ARRAY, q, f"{q} {label}",
                                    f"result is {res.attrs.get('__class__')} of shape {res.attrs.get('shape')}, expected {want_cls} of shape {shape}", fn.lineno)
                        continue
                    names = {"a0": kind, "a1": kind, **extra}
                    bad = None
                    # the elements are expressions of the result's kind (an ADD node built as a BoolExpr denotes the sum, but is the
                    # wrong Python class: the next operator applied to it is looked up on the wrong type)
                    wrong_cls = [e.attrs.get("__class__") for e in res.attrs["data"] if isinstance(e, Obj)
                                 and e.attrs.get("__class__") not in (("BoolExpr", "BoolVar") if res_kind == "b" else ("IntExpr", "IntVar"))]
                    if wrong_cls:
                        rep.finding("OPC-6A", ARRAY, q, f"{q} {label} element class",
                                    f"the result's elements are {wrong_cls[0]} objects; a {'boolean' if res_kind == 'b' else 'integer'}-valued array holds "
                                    f"{'BoolExpr' if res_kind == 'b' else 'IntExpr'} elements", fn.lineno)
                        continue
                    for val in valuations(names, order):
                        for i in range(2):
                            sv = val[f"a{i}"]
                            if unary:
                                want = meaning(sv)
                            else:
                                o = args[0]
                                if label.startswith("(array, array __"):
                                    inner_m = (BOOL_OPS if kind == "b" else {k: v[1] for k, v in INT_OPS.items()})[label.split()[2]]
                                    ov = inner_m(val[f"b{i}"], val[f"c{i}"])
                                else:
                                    ov = val[f"b{i}"] if label == "(array, array)" else (val["s"] if label == "(array, scalar)" else o)
                                want = meaning(sv, ov)
                            got = w.denote(res.attrs["data"][i], val)
                            if not same(got, want):
                                bad = (i, val, got, want)
                                break
                        if bad:
                            break
                    if bad:
                        rep.finding("OPC-6A", ARRAY, q, f"{q} {label}",
                                    f"element {bad[0]} denotes {bad[2]!r} under {bad[1]!r}; pointwise meaning is {bad[3]!r}", fn.lineno)
                    else:
                        rep.ok("OPC-6A", f"{q} {label}: pointwise denotation and shape agree")
                except EM.IllFormed as ex:
                    rep.finding("OPC-6A", ARRAY, q, f"{q} {label}", f"builds an ill-formed element tree: {ex}", fn.lineno)
                except Undecided as ex:
                    rep.undecide("OPC-6A", f"{q} {label}: {ex}")
            if unary:
                continue
            # rejections: wrong kind (expression, array, literal), wrong shape
            wrong = "i" if kind == "b" else "b"
            bads = [
                ("wrong-kind scalar", w.leaf(wrong, "x"), ("NotImplemented",)),
                ("wrong-kind array", w.array(wrong, "x", shape), ("NotImplemented",)),
                ("wrong-kind literal", (3 if kind == "b" else True), ("NotImplemented",)),
                ("shape mismatch", w.array(kind, "m", other_shape), ("ValueError",)),
            ]
            for label, arg, accept in bads:
                try:
                    kindr, res = _try(w, lambda: w.cw.method(A, name)(arg))
                    rejected = (kindr == "value" and res is fde.NOTIMPL and "NotImplemented" in accept) or (
                        kindr == "raised" and (res in accept or res in ("TypeError", "ValueError"))
                    )
                    if rejected:
                        rep.ok("TYP", f"{q} rejects {label}")
                    else:
                        rep.finding("TYP", ARRAY, q, f"{q} accepts {label}",
                                    f"{label} operand is accepted ({kindr}: {_brief(res)})", fn.lineno)
                except Undecided as ex:
                    rep.undecide("TYP", f"{q} {label}: {ex}")
            # the same rejections when the receiver is EMPTY (a[0:0], the vertical-pair slice of a one-row board): there is no element to
            # trip over, the check has to be made on the operands themselves
            eshape = (0,) if dims == 1 else (0, 2)
            A0 = w.array(kind, "a", eshape)
            ebads = [
                ("wrong-kind scalar, empty receiver", w.leaf(wrong, "x")),
                ("wrong-kind array, empty receiver", w.array(wrong, "x", eshape)),
                ("wrong-kind literal, empty receiver", (3 if kind == "b" else True)),
                ("shape mismatch, empty receiver", w.array(kind, "m", (3,) if dims == 1 else (0, 3))),
            ]
            for label, arg in ebads:
                try:
                    kindr, res = _try(w, lambda: w.cw.method(A0, name)(arg))
                    if (kindr == "value" and res is fde.NOTIMPL) or (kindr == "raised" and res in ("TypeError", "ValueError")):
                        rep.ok("TYP", f"{q} rejects {label}", nontrivial=False)
                    else:
                        rep.finding("TYP", ARRAY, q, f"{q} accepts {label}", f"{label}: operand is accepted ({kindr}: {_brief(res)})", fn.lineno)
                except Undecided as ex:
                    rep.undecide("TYP", f"{q} {label}: {ex}")
    # then / cond on arrays (methods and module functions)
    for dims in (1, 2):
        shape = (2,) if dims == 1 else (2, 1)
        C = w.array("b", "a", shape)
        Bb = w.array("b", "b", shape)
        T = w.array("i", "t", shape)
        E = w.array("i", "e", shape)
        s_b, s_i = w.leaf("b", "s"), w.leaf("i", "n")
        bcls = "BoolArray1D" if dims == 1 else "BoolArray2D"
        icls = "IntArray1D" if dims == 1 else "IntArray2D"
        cases = [
            (f"{bcls}.then", ARRAY, lambda: w.cw.method(C, "then")(Bb), bcls, lambda v, i: (not v[f"a{i}"]) or v[f"b{i}"], {"b0": "b", "b1": "b"}),
            (f"{bcls}.then", ARRAY, lambda: w.cw.method(C, "then")(s_b), bcls, lambda v, i: (not v[f"a{i}"]) or v["s"], {"s": "b"}),
            ("then", CONS, lambda: w.cw.call("then", s_b, Bb), bcls, lambda v, i: (not v["s"]) or v[f"b{i}"], {"s": "b", "b0": "b", "b1": "b"}),
            ("then", CONS, lambda: w.cw.call("then", C, True), bcls, lambda v, i: True, {}),
            (f"{bcls}.cond", ARRAY, lambda: w.cw.method(C, "cond")(T, E), icls, lambda v, i: v[f"t{i}"] if v[f"a{i}"] else v[f"e{i}"], {"t0": "i", "t1": "i", "e0": "i", "e1": "i"}),
            (f"{bcls}.cond", ARRAY, lambda: w.cw.method(C, "cond")(1, s_i), icls, lambda v, i: 1 if v[f"a{i}"] else v["n"], {"n": "i"}),
            ("cond", CONS, lambda: w.cw.call("cond", s_b, T, 0), icls, lambda v, i: v[f"t{i}"] if v["s"] else 0, {"s": "b", "t0": "i", "t1": "i"}),
            ("cond", CONS, lambda: w.cw.call("cond", C, 5, E), icls, lambda v, i: 5 if v[f"a{i}"] else v[f"e{i}"], {"e0": "i", "e1": "i"}),
            ("BoolExpr.then", EXPR, lambda: w.cw.method(s_b, "then")(Bb), bcls, lambda v, i: (not v["s"]) or v[f"b{i}"], {"s": "b", "b0": "b", "b1": "b"}),
            ("BoolExpr.cond", EXPR, lambda: w.cw.method(s_b, "cond")(T, 0), icls, lambda v, i: v[f"t{i}"] if v["s"] else 0, {"s": "b", "t0": "i", "t1": "i"}),
        ]
        for q, file, thunk, want_cls, meaning, extra in cases:
            label = f"{dims}-D"
            try:
                kindr, res = _try(w, thunk)
                if kindr != "value" or not isinstance(res, Obj):
                    rep.finding("OPC-6A", file, q, f"{q} arrays {label}", f"well-typed call is rejected ({kindr}: {_brief(res)})")
                    continue
                if res.attrs.get("__class__") != want_cls or tuple(res.attrs.get("shape", ())) != tuple(shape):
                    rep.finding("OPC-6A", file, q, f"{q} arrays {label}", f"result is {res.attrs.get('__class__')} {res.attrs.get('shape')}, expected {want_cls} {shape}")
                    continue
                names = {"a0": "b", "a1": "b", **extra}
                bad = None
                for val in valuations(names, False):
                    for i in range(2):
                        got = w.denote(res.attrs["data"][i], val)
                        want = meaning(val, i)
                        if not same(got, want):
                            bad = (i, val, got, want)
                            break
                    if bad:
                        break
                if bad:
                    rep.finding("OPC-6A", file, q, f"{q} arrays {label}", f"element {bad[0]} denotes {bad[2]!r} under {bad[1]!r}, expected {bad[3]!r}")
                else:
                    rep.ok("OPC-6A", f"{q} on {label} arrays: pointwise denotation agrees")
            except EM.IllFormed as ex:
                rep.finding("OPC-6A", file, q, f"{q} arrays {label}", f"builds an ill-formed element tree: {ex}")
            except Undecided as ex:
                rep.undecide("OPC-6A", f"{q} arrays {label}: {ex}")
        # rejections for then / cond: must raise (never leak NotImplemented)
        rej = [
            (f"{bcls}.then", ARRAY, "int array as consequent", lambda: w.cw.method(C, "then")(T)),
            (f"{bcls}.cond", ARRAY, "bool array as branch", lambda: w.cw.method(C, "cond")(Bb, 0)),
            (f"{bcls}.cond", ARRAY, "bool literal as branch", lambda: w.cw.method(C, "cond")(True, 0)),
            ("then", CONS, "int array as consequent", lambda: w.cw.call("then", C, T)),
            ("then", CONS, "int expression as antecedent", lambda: w.cw.call("then", s_i, Bb)),
            ("cond", CONS, "bool array as branch", lambda: w.cw.call("cond", C, Bb, 0)),
            ("cond", CONS, "int array as condition", lambda: w.cw.call("cond", T, 1, 0)),
            ("cond", CONS, "shape mismatch", lambda: w.cw.call("cond", C, w.array("i", "m", (3,) if dims == 1 else (1, 3)), 0)),
        ]
        for q, file, label, thunk in rej:
            try:
                kindr, res = _try(w, thunk)
                if kindr == "raised" and res in ("TypeError", "ValueError"):
                    rep.ok("TYP", f"{q} ({dims}-D) rejects {label} with {res}")
                else:
                    rep.finding("TYP", file, q, f"{q} accepts {label}",
                                f"{label}: not rejected with an exception ({kindr}: {_brief(res)})")
            except Undecided as ex:
                rep.undecide("TYP", f"{q} {label}: {ex}")
    # scalar then/cond rejections
    # ---- then / cond with the array in every operand position: the function forms cond(c, t, f) / then(x, y) of constraints.py and the
    # scalar-receiver methods s.cond(t, f) / s.then(y) dispatch on *which* operand is an array; whatever position it has, the result has
    # its shape and element i denotes the operator on the i-th elements (scalars and literals repeated)
    for dims in (1, 2):
        shape = (2,) if dims == 1 else (1, 2)
        Cb, Ti, Fi, Yb = w.array("b", "c", shape), w.array("i", "t", shape), w.array("i", "f", shape), w.array("b", "y", shape)
        sc, st, sf, sy = w.leaf("b", "sc"), w.leaf("i", "st"), w.leaf("i", "sf"), w.leaf("b", "sy")
        forms: List[Tuple[str, Any, List[Tuple[str, Any]], str, Any]] = []
        for mask in itertools.product([False, True], repeat=3):
            if not any(mask):
                continue
            ops_ = [("c", Cb if mask[0] else sc), ("t", Ti if mask[1] else (st if mask[0] or mask[2] else 7)), ("f", Fi if mask[2] else sf)]
            forms.append((f"cond({', '.join(('array' if m else 'scalar') for m in mask)})", lambda o=ops_: w.cw.call("cond", *[x for _n, x in o]), ops_, "i",
                          lambda c, t, f: (t if c else f)))
            if not mask[0]:
                forms.append((f"BoolExpr.cond({', '.join(('array' if m else 'scalar') for m in mask[1:])})",
                              lambda o=ops_: w.cw.method(o[0][1], "cond")(o[1][1], o[2][1]), ops_, "i", lambda c, t, f: (t if c else f)))
        for mask2 in itertools.product([False, True], repeat=2):
            if not any(mask2):
                continue
            ops2 = [("c", Cb if mask2[0] else sc), ("y", Yb if mask2[1] else sy)]
            forms.append((f"then({', '.join(('array' if m else 'scalar') for m in mask2)})", lambda o=ops2: w.cw.call("then", *[x for _n, x in o]), ops2, "b",
                          lambda c, y: ((not c) or y)))
            if not mask2[0]:
                forms.append(("BoolExpr.then(array)", lambda o=ops2: w.cw.method(o[0][1], "then")(o[1][1]), ops2, "b", lambda c, y: ((not c) or y)))
        for label, thunk, operands_, rk, meaning_ in forms:
            q = label.split("(")[0]
            file = CONS if "." not in q else EXPR
            try:
                kindr, res = _try(w, thunk)
                want_cls = {("b", 1): "BoolArray1D", ("b", 2): "BoolArray2D", ("i", 1): "IntArray1D", ("i", 2): "IntArray2D"}[(rk, dims)]
                if kindr != "value" or not isinstance(res, Obj) or res.attrs.get("__class__") != want_cls or tuple(res.attrs.get("shape", ())) != tuple(shape):
                    rep.finding("OPC-6A", file, q, f"{label} {dims}-D", f"{label} on {dims}-D operands: expected {want_cls} of shape {shape}, got {kindr}: "
                                f"{_brief(res) if kindr == 'value' else res}")
                    continue
                names_: Dict[str, str] = {}
                for nm_, x in operands_:
                    if isinstance(x, Obj) and "data" in x.attrs:
                        names_.update({f"{nm_}{i}": ("b" if nm_ in ("c", "y") else "i") for i in range(2)})
                    elif isinstance(x, Obj):
                        names_[x.attrs["leaf"]] = x.attrs["kind"]
                bad = None
                for val in valuations(names_, False):
                    for i in range(2):
                        vals_ = [(val[f"{nm_}{i}"] if (isinstance(x, Obj) and "data" in x.attrs) else (val[x.attrs["leaf"]] if isinstance(x, Obj) else x))
                                 for nm_, x in operands_]
                        got, want = w.denote(res.attrs["data"][i], val), meaning_(*vals_)
                        if not same(got, want):
                            bad = (i, val, got, want)
                            break
                    if bad:
                        break
                if bad:
                    rep.finding("OPC-6A", file, q, f"{label} {dims}-D", f"{label}: element {bad[0]} denotes {bad[2]!r} under {bad[1]!r}; pointwise meaning is {bad[3]!r}")
                else:
                    rep.ok("OPC-6A", f"{label} ({dims}-D): shape and pointwise denotation agree")
            except EM.IllFormed as ex:
                rep.finding("OPC-6A", file, q, f"{label} {dims}-D", f"builds an ill-formed element tree: {ex}")
            except Undecided as ex:
                rep.undecide("OPC-6A", f"{label} {dims}-D: {ex}")
    s_b, s_i = w.leaf("b", "s"), w.leaf("i", "n")
    rej = [
        ("then", CONS, "int expression as consequent", lambda: w.cw.call("then", s_b, s_i)),
        ("then", CONS, "int expression as antecedent", lambda: w.cw.call("then", s_i, s_b)),
        ("cond", CONS, "int expression as condition", lambda: w.cw.call("cond", s_i, 1, 2)),
        ("cond", CONS, "bool expression as branch", lambda: w.cw.call("cond", s_b, s_b, 2)),
        ("BoolExpr.then", EXPR, "int expression as consequent", lambda: w.cw.method(s_b, "then")(s_i)),
        ("BoolExpr.cond", EXPR, "bool expression as branch", lambda: w.cw.method(s_b, "cond")(s_b, 0)),
        ("BoolExpr.cond", EXPR, "bool literal as branch", lambda: w.cw.method(s_b, "cond")(True, 0)),
    ]
    for q, file, label, thunk in rej:
        try:
            kindr, res = _try(w, thunk)
            if kindr == "raised" and res in ("TypeError", "ValueError"):
                rep.ok("TYP", f"{q} rejects {label} with {res}")
            else:
                rep.finding("TYP", file, q, f"{q} accepts {label}", f"{label}: not rejected with an exception ({kindr}: {_brief(res)})")
        except Undecided as ex:
            rep.undecide("TYP", f"{q} {label}: {ex}")
    # scalar dunder rejections
    for cls, kind, table in (("BoolExpr", "b", BOOL_OPS), ("IntExpr", "i", {k: v[1] for k, v in INT_OPS.items()})):
        s = w.leaf(kind, "s")
        wrong = "i" if kind == "b" else "b"
        for name in table:
            if name in ("__invert__", "__neg__"):
                continue
            q = f"{cls}.{name}"
            for label, arg in (("wrong-kind expression", w.leaf(wrong, "x")), ("wrong-kind literal", 3 if kind == "b" else True)):
                try:
                    kindr, res = _try(w, lambda: w.cw.method(s, name)(arg))
                    if (kindr == "value" and res is fde.NOTIMPL) or (kindr == "raised" and res == "TypeError"):
                        rep.ok("TYP", f"{q} rejects {label}", nontrivial=False)
                    else:
                        rep.finding("TYP", EXPR, q, f"{q} accepts {label}", f"{label} operand is accepted ({kindr}: {_brief(res)})")
                except Undecided as ex:
                    rep.undecide("TYP", f"{q} {label}: {ex}")


def _brief(x: Any) -> str:
    if isinstance(x, Obj):
        return f"{x.attrs.get('__class__', x.classes)}"
    return repr(x)[:80]


# ------------------------------------------------------------------------------------------


def check_type_tables(repo: Repo, rep: Report, w: World) -> None:
    rep.rule("OPC-5", "is_bool_op / is_int_op / _make_bool_expr / _make_int_expr / _elementwise accept exactly each operator's reference signature")
    members = EM.op_enum_members(repo)
    natives = {"GRAPH_ACTIVE_VERTICES_CONNECTED", "GRAPH_DIVISION", "VAR"}
    for op in members:
        if op in natives:
            continue
        if op not in EM.REF:
            raise AnalysisError(f"Op.{op} has no reference signature in the checker")
        spec = EM.REF[op]
        tag = Tag("Op." + op)
        try:
            b = w.cw.call("is_bool_op", tag)
            i = w.cw.call("is_int_op", tag)
            if (b is True) == (spec["res"] == "b") and (i is True) == (spec["res"] == "i"):
                rep.ok("OPC-5", f"is_bool_op/is_int_op classify Op.{op} as {'bool' if spec['res'] == 'b' else 'int'}")
            else:
                rep.finding("OPC-5", EXPR, "is_bool_op", f"classification of Op.{op}",
                            f"is_bool_op={b}, is_int_op={i} but Op.{op} yields a {'bool' if spec['res'] == 'b' else 'int'}")
        except Undecided as ex:
            rep.undecide("OPC-5", f"classification of Op.{op}: {ex}")
        # constructors: accept iff well-typed
        maker = "_make_bool_expr" if spec["res"] == "b" else "_make_int_expr"
        lo, hi = spec["arity"]
        # the checked constructors are binary for the n-ary operators (n-ary trees are built raw)
        for n in range(0, 4):
            kinds_ok = spec["kinds"](n)
            for kinds in itertools.product("bi", repeat=n):
                vec = []
                for j, k in enumerate(kinds):
                    vec.append(w.leaf(k, f"x{j}"))
                welltyped = len(kinds_ok) == n and all(
                    (ko in ("b", "B")) == (k == "b") for ko, k in zip(kinds_ok, kinds)
                ) and n >= lo and (hi is None or n <= hi)
                if op in ("BOOL_CONSTANT", "INT_CONSTANT"):
                    continue
                for fnname, file in ((maker, EXPR), ("_elementwise", ARRAY)):
                    try:
                        if fnname == "_elementwise":
                            if n == 0:
                                continue
                            arr = w.array(kinds[0], "z", (2,))
                            kindr, res = _try(w, lambda: w.cw.call("_elementwise", tag, (2,), [arr] + vec[1:]))
                        else:
                            kindr, res = _try(w, lambda: w.cw.call(fnname, tag, list(vec)))
                    except Undecided as ex:
                        rep.undecide("OPC-5", f"{fnname}(Op.{op}, {kinds}): {ex}")
                        continue
                    accepted = kindr == "value" and isinstance(res, Obj)
                    if welltyped and not accepted and n == 2 or (welltyped and not accepted and hi is not None):
                        rep.finding("OPC-5", file, fnname, f"{fnname} Op.{op} {''.join(kinds)}",
                                    f"well-typed operands ({''.join(kinds)}) are rejected ({kindr}: {_brief(res)})")
                    elif not welltyped and accepted and not (hi is None and n >= lo and all(
                        (ko in ("b", "B")) == (k == "b") for ko, k in zip(spec["kinds"](n), kinds)
                    )):
                        rep.finding("OPC-5", file, fnname, f"{fnname} Op.{op} {''.join(kinds) or 'no operands'}",
                                    f"ill-typed operand vector ({''.join(kinds) or 'empty'}) is accepted")
                    else:
                        rep.ok("OPC-5", f"{fnname}(Op.{op}, {''.join(kinds) or '-'}) {'accepted' if accepted else 'rejected'} as the signature requires", nontrivial=False)
        # the constant operators take exactly one Python literal of their own kind
        if op in ("BOOL_CONSTANT", "INT_CONSTANT"):
            good_lit: Any = True if op == "BOOL_CONSTANT" else 7
            cases = [([good_lit], True), ([False if op == "BOOL_CONSTANT" else 0], True), ([], False), ([good_lit, good_lit], False),
                     ([w.leaf("b" if op == "BOOL_CONSTANT" else "i", "x0")], False), ([None], False)]
            if op == "BOOL_CONSTANT":
                cases.append(([3], False))  # (an int constant given as True is Python's bool-is-int and reaches no public entry point: not demanded)
            for vec_c, want_ok in cases:
                try:
                    kindr, res = _try(w, lambda: w.cw.call(maker, tag, list(vec_c)))
                except Undecided as ex:
                    rep.undecide("OPC-5", f"{maker}(Op.{op}, {vec_c!r}): {ex}")
                    continue
                accepted = kindr == "value" and isinstance(res, Obj)
                if accepted != want_ok:
                    rep.finding("OPC-5", EXPR, maker, f"{maker} Op.{op} {_brief(vec_c)}",
                                f"{maker}(Op.{op}, {_brief(vec_c)}) is {'accepted' if accepted else 'rejected'}; a constant takes exactly one Python "
                                f"{'bool' if op == 'BOOL_CONSTANT' else 'int (not bool)'} literal")
                else:
                    rep.ok("OPC-5", f"{maker}(Op.{op}, {_brief(vec_c)}) {'accepted' if accepted else 'rejected'} as the signature requires", nontrivial=False)
        # python literals of the wrong kind
        if lo >= 1 and op not in ("BOOL_CONSTANT", "INT_CONSTANT", "ALLDIFF"):
            kinds_ok = spec["kinds"](max(lo, 1) if hi is not None else 2)
            vec = [w.leaf("b" if k in ("b", "B") else "i", f"x{j}") for j, k in enumerate(kinds_ok)]
            j = len(vec) - 1
            wrong_lit: Any = 3 if kinds_ok[j] in ("b", "B") else True
            vec2 = list(vec)
            vec2[j] = wrong_lit
            for fnname, file in ((maker, EXPR), ("_elementwise", ARRAY)):
                try:
                    if fnname == "_elementwise":
                        arr = w.array("b" if kinds_ok[0] in ("b", "B") else "i", "z", (2,))
                        if len(vec2) == 1:
                            continue
                        kindr, res = _try(w, lambda: w.cw.call("_elementwise", tag, (2,), [arr] + vec2[1:]))
                    else:
                        kindr, res = _try(w, lambda: w.cw.call(fnname, tag, vec2))
                    if kindr == "value" and isinstance(res, Obj):
                        rep.finding("OPC-5", file, fnname, f"{fnname} Op.{op} literal {wrong_lit!r}",
                                    f"Python literal {wrong_lit!r} is accepted where a {'bool' if kinds_ok[j] in ('b', 'B') else 'int'} operand is required")
                    else:
                        rep.ok("OPC-5", f"{fnname}(Op.{op}) rejects literal {wrong_lit!r} in operand {j}")
                except Undecided as ex:
                    rep.undecide("OPC-5", f"{fnname}(Op.{op}) literal: {ex}")


# ------------------------------------------------------------------------------------------


def check_aggregates(repo: Repo, rep: Report, w: World) -> None:
    rep.rule("AGG", "count_true/fold_or/fold_and/alldifferent over arrays and nestings; conv2d windows; four_neighbors geometry")
    mod = repo.mod(ARRAY)
    # aggregates over arrays
    # shapes: every axis length 0..3 (a shortcut keyed on `len(self)`, the row count or the size shows on one of them);
    # the heading shapes (3,) and (2, 2) come first so that finding keys of older reports stay the same
    shapes = [(3,), (2, 2), (0,), (1,), (2,)] + [(a, b) for a in range(4) for b in range(4) if (a, b) != (2, 2)]
    for shape in shapes:
        dims = len(shape)
        n = shape[0] if dims == 1 else shape[0] * shape[1]
        A = w.array("b", "a", shape)
        names = {f"a{i}": "b" for i in range(n)}
        cases = [
            ("count_true(array)", lambda: w.cw.call("count_true", A), lambda v: sum(1 for i in range(n) if v[f"a{i}"])),
            ("count_true([array, True])", lambda: w.cw.call("count_true", [A, True]), lambda v: 1 + sum(1 for i in range(n) if v[f"a{i}"])),
            ("array.count_true()", lambda: w.cw.method(A, "count_true")(), lambda v: sum(1 for i in range(n) if v[f"a{i}"])),
            ("fold_or(array)", lambda: w.cw.call("fold_or", A), lambda v: any(v[f"a{i}"] for i in range(n))),
            ("array.fold_or()", lambda: w.cw.method(A, "fold_or")(), lambda v: any(v[f"a{i}"] for i in range(n))),
            ("fold_and(array, False)", lambda: w.cw.call("fold_and", A, False), lambda v: False),
            ("fold_and(array)", lambda: w.cw.call("fold_and", A), lambda v: all(v[f"a{i}"] for i in range(n))),
            ("array.fold_and()", lambda: w.cw.method(A, "fold_and")(), lambda v: all(v[f"a{i}"] for i in range(n))),
        ]
        tag = "" if shape in ((3,), (2, 2)) else f" shape {shape}"
        cases = [(lb + tag, th, mn) for lb, th, mn in cases]
        for label, thunk, meaning in cases:
            try:
                kindr, res = _try(w, thunk)
                if kindr != "value":
                    rep.finding("AGG", ARRAY, label.split("(")[0], f"{label} {dims}-D", f"rejected: {kindr} {res}")
                    continue
                bad = None
                for val in valuations(names, False):
                    if not same(w.denote(res, val), meaning(val)):
                        bad = (val, w.denote(res, val), meaning(val))
                        break
                if bad:
                    rep.finding("AGG", ARRAY if "array." in label else CONS, label.split("(")[0], f"{label} {dims}-D",
                                f"denotes {bad[1]!r} under {bad[0]!r}, expected {bad[2]!r}")
                else:
                    rep.ok("AGG", f"{label} on a {dims}-D array denotes its mathematical meaning")
            except (EM.IllFormed,) as ex:
                rep.finding("AGG", CONS, label.split("(")[0], f"{label} {dims}-D", f"ill-formed tree: {ex}")
            except Undecided as ex:
                rep.undecide("AGG", f"{label} {dims}-D: {ex}")
        if n > 4:
            continue
        I = w.array("i", "n", shape)
        for label, thunk in (("alldifferent(array)" + tag, lambda: w.cw.call("alldifferent", I)),
                             ("array.alldifferent()" + tag, lambda: w.cw.method(I, "alldifferent")())):
            try:
                kindr, res = _try(w, thunk)
                okay = kindr == "value"
                if okay:
                    for val in valuations({f"n{i}": "i" for i in range(n)}, True):
                        if not same(w.denote(res, val), EM._alldiff([val[f"n{i}"] for i in range(n)])):
                            okay = False
                            break
                if okay:
                    rep.ok("AGG", f"{label} on a {dims}-D array is pairwise distinctness")
                else:
                    rep.finding("AGG", ARRAY if "array." in label else CONS, label.split("(")[0], f"{label} {dims}-D", "does not denote pairwise distinctness of all elements")
            except (EM.IllFormed, Undecided) as ex:
                rep.undecide("AGG", f"{label}: {ex}")
    # empty arrays
    try:
        E = w.array("b", "z", (0,))
        for label, thunk, want in (("array.fold_or() empty", lambda: w.cw.method(E, "fold_or")(), False),
                                   ("array.fold_and() empty", lambda: w.cw.method(E, "fold_and")(), True),
                                   ("array.count_true() empty", lambda: w.cw.method(E, "count_true")(), 0)):
            kindr, res = _try(w, thunk)
            if kindr == "value" and same(w.denote(res, {}), want):
                rep.ok("AGG", f"{label} denotes {want!r}")
            else:
                rep.finding("AGG", ARRAY, label.split("(")[0], label, f"does not denote {want!r} ({kindr})")
    except (EM.IllFormed, Undecided) as ex:
        rep.undecide("AGG", f"empty aggregates: {ex}")
    # conv2d
    rep.saw(ARRAY, "BoolArray2D.conv2d")
    try:
        bad = None
        ncase = 0
        for (H, W) in ((1, 1), (2, 3), (3, 3), (3, 2)):
            A = w.array("b", "a", (H, W))
            names = {f"a{i}": "b" for i in range(H * W)}
            for (h, wd) in ((1, 1), (2, 2), (1, 3), (3, 1), (2, 1), (4, 1)):
                for opn in ("and", "or"):
                    ncase += 1
                    kindr, res = _try(w, lambda: w.cw.method(A, "conv2d")(h, wd, opn))
                    rh, rw = max(0, H - h + 1), max(0, W - wd + 1)
                    if kindr != "value" or not isinstance(res, Obj) or tuple(res.attrs.get("shape", ())) != (rh, rw):
                        bad = f"array {H}x{W}, window {h}x{wd}: result {kindr} {_brief(res)} shape {getattr(res, 'attrs', {}).get('shape')}, expected shape {(rh, rw)}"
                        break
                    vals = list(valuations(names, False))
                    vals = vals[:: max(1, len(vals) // 24)]
                    for val in vals:
                        for y in range(rh):
                            for x in range(rw):
                                win = [val[f"a{(y + dy) * W + (x + dx)}"] for dy in range(h) for dx in range(wd)]
                                want = all(win) if opn == "and" else any(win)
                                got = w.denote(res.attrs["data"][y * rw + x], val)
                                if not same(got, want):
                                    bad = f"array {H}x{W}, window {h}x{wd} '{opn}': element ({y},{x}) is not the {opn} of its window"
                                    break
                            if bad:
                                break
                        if bad:
                            break
                    if bad:
                        break
                if bad:
                    break
            if bad:
                break
        kindr, res = _try(w, lambda: w.cw.method(w.array("b", "a", (2, 2)), "conv2d")(1, 1, "xor"))
        if not bad and kindr != "raised":
            bad = "an unknown op name is accepted"
        if bad:
            rep.finding("AGG", ARRAY, "BoolArray2D.conv2d", "conv2d", bad, mod.func("BoolArray2D.conv2d").lineno)
        else:
            rep.ok("AGG", f"conv2d: {ncase} (array, window, op) combinations give the windowed and/or with shape (max(0,H-h+1), max(0,W-w+1))")
    except (EM.IllFormed, Undecided) as ex:
        rep.undecide("AGG", f"conv2d: {ex}")
    # four_neighbors
    try:
        bad = None
        ncase = 0
        for cls, kind in (("BoolArray2D", "b"), ("IntArray2D", "i")):
            for (H, W) in ((1, 1), (1, 3), (3, 1), (3, 3), (2, 4)):
                A = w.array(kind, "a", (H, W))
                for y in range(H):
                    for x in range(W):
                        ncase += 1
                        want = [(y + dy, x + dx) for dy, dx in ((-1, 0), (1, 0), (0, -1), (0, 1)) if 0 <= y + dy < H and 0 <= x + dx < W]
                        for form in ("pair", "tuple"):
                            args = (y, x) if form == "pair" else ((y, x),)
                            k1, r1 = _try(w, lambda: w.cw.method(A, "four_neighbors")(*args))
                            k2, r2 = _try(w, lambda: w.cw.method(A, "four_neighbor_indices")(*args))
                            if k1 != "value" or k2 != "value":
                                bad = f"{cls} {H}x{W} cell ({y},{x}) [{form}]: rejected ({k1}/{k2})"
                                break
                            idx = [tuple(t) for t in r2]
                            elems = [e.attrs.get("leaf") for e in r1.attrs["data"]]
                            if sorted(idx) != sorted(want):
                                bad = f"{cls} {H}x{W} cell ({y},{x}): four_neighbor_indices gives {idx}, in-bounds orthogonal neighbours are {want}"
                                break
                            if elems != [f"a{yy * W + xx}" for yy, xx in idx]:
                                bad = f"{cls} {H}x{W} cell ({y},{x}): four_neighbors returns {elems}, not the elements at {idx} in that order"
                                break
                            # the caller owns what it got: editing the returned list and asking again (same cell, same board shape, also on
                            # another array of that shape) gives the same answer as the first time
                            if isinstance(r2, list):
                                r2.append((y, x))
                                if isinstance(r1.attrs.get("data"), list):
                                    r1.attrs["data"].append(r1.attrs["data"][0] if r1.attrs["data"] else None)
                                k3, r3 = _try(w, lambda: w.cw.method(A, "four_neighbor_indices")(*args))
                                k4, r4 = _try(w, lambda: w.cw.method(A, "four_neighbors")(*args))
                                again = [tuple(t) for t in r3] if k3 == "value" else k3
                                elems4 = [e.attrs.get("leaf") if isinstance(e, Obj) else e for e in r4.attrs["data"]] if k4 == "value" else k4
                                if again != idx or elems4 != elems:
                                    bad = (f"{cls} {H}x{W} cell ({y},{x}) [{form}]: after the caller appended to the list it got from four_neighbor_indices, "
                                           f"a second call gives {again} / elements {elems4} instead of {idx} / {elems} (the result object is shared between calls)")
                                    break
                        if bad:
                            break
                    if bad:
                        break
                if bad:
                    break
            if bad:
                break
        if bad:
            rep.finding("AGG", ARRAY, "_four_neighbors", "four_neighbors", bad, mod.func("_four_neighbors").lineno)
        else:
            rep.ok("AGG", f"four_neighbors / four_neighbor_indices: {ncase} cells, exactly the in-bounds orthogonal neighbours, siblings agree in order")
    except (EM.IllFormed, Undecided) as ex:
        rep.undecide("AGG", f"four_neighbors: {ex}")


def run(repo: Repo, rep: Report) -> None:
    w = World(repo)
    opc.check_scalar_dunders(repo, rep)
    opc.check_helpers(repo, rep)
    check_array_dunders(repo, rep, w)
    check_type_tables(repo, rep, w)
    check_aggregates(repo, rep, w)
    rep.floor("OPC-6A", 60)
    rep.floor("TYP", 80)
    rep.assume("grids for conv2d / four_neighbors (arrays up to 3x3 / 2x4) are taken as representative of the affine index "
               "code; the pointwise rules use two-element arrays (the kernel is uniform in the element index)")
