"""C03 - Sugar-family text protocol: emitted CSP text and parsed replies are faithful.

The wire format is taken from the repository's own reference wrapper
(sugar_extension/CspuzSugarInterface.java): the println templates of both modes are extracted from
the Java source and instantiated into replies; the Python writers/readers are evaluated abstractly
(E8) against them.
"""

from __future__ import annotations

import ast
import itertools
import re
from typing import Any, Dict, List, Optional, Tuple

from ..core import fde
from ..core.classworld import ClassWorld
from ..core.fde import IndexOutOfRange, Obj, Raised, Tag, Undecided
from ..core.findings import Report
from ..core.loader import AnalysisError, Repo, java_unescape, norm
from . import exprmodel as EM

SUGAR = "cspuz/backend/sugar_like.py"
SOLVER = "cspuz/solver.py"
JAVA = Repo.JAVA

# the CSP text grammar understood by Sugar / csugar / cspuz_core (frozen external interface)
SUGAR_NAME = {
    "NEG": "-", "ADD": "+", "SUB": "-", "EQ": "=", "NE": "!=", "LE": "<=", "LT": "<", "GE": ">=", "GT": ">",
    "NOT": "!", "AND": "&&", "OR": "||", "IFF": "iff", "XOR": "xor", "IMP": "=>", "IF": "if",
    "ALLDIFF": "alldifferent",
    "GRAPH_ACTIVE_VERTICES_CONNECTED": "graph-active-vertices-connected",
    "GRAPH_DIVISION": "graph-division",
}
ENTRY = {  # backend name -> (class, external entry point)
    "sugar": ("SugarBackend", "subprocess"),
    "sugar_extended": ("SugarExtendedBackend", "subprocess"),
    "csugar": ("CSugarBackend", "pycsugar.solver"),
    "enigma_csp": ("EnigmaCSPBackend", "enigma_csp.solver"),
    "cspuz_core": ("CspuzCoreBackend", "cspuz_core.solver"),
    "z3": ("Z3Backend", None),
}
NATIVE_ROUTE = {"sugar": False, "z3": False, "sugar_extended": True, "csugar": True, "enigma_csp": True, "cspuz_core": True}


# ------------------------------------------------------------------------------------------
# Java side
# ------------------------------------------------------------------------------------------


class JavaProtocol:
    def __init__(self, repo: Repo):
        src = repo.java_src()
        m = re.search(r"void\s+run\s*\(\s*\)[^{]*\{", src)
        if not m:
            raise AnalysisError("Java wrapper: run() not found")
        body = self._block(src, m.end() - 1)
        m2 = re.search(r"if\s*\(\s*answerKeys\s*==\s*null\s*\)\s*\{", body)
        if not m2:
            raise AnalysisError("Java wrapper: mode dispatch `if (answerKeys == null)` not found")
        ans = self._block(body, m2.end() - 1)
        rest = body[m2.end() - 1 + len(ans) + 2:]
        m3 = re.match(r"\s*else\s*\{", rest)
        if not m3:
            raise AnalysisError("Java wrapper: deduction-mode branch not found")
        ded = self._block(rest, m3.end() - 1)
        self.answer = self._printlns(ans)
        self.deduction = self._printlns(ded)
        lp = re.search(r"void\s+loadProblem\s*\(\s*\)[^{]*\{", src)
        load = self._block(src, lp.end() - 1) if lp else ""
        mk = re.search(r'startsWith\("((?:[^"\\]|\\.)*)"\)', load)
        ms = re.search(r'substring\((\d+)\)\.split\("((?:[^"\\]|\\.)*)"\)', load)
        if not mk or not ms:
            raise AnalysisError("Java wrapper: answer-key line parsing not found")
        self.key_marker = java_unescape(mk.group(1))
        self.key_skip = int(ms.group(1))
        self.key_sep = java_unescape(ms.group(2))
        self.name_index = 1 if re.search(r"seq\.get\(1\)", load) else None

    @staticmethod
    def _block(src: str, open_idx: int) -> str:
        depth = 0
        i = open_idx
        in_str = False
        while i < len(src):
            c = src[i]
            if in_str:
                if c == "\\":
                    i += 1
                elif c == '"':
                    in_str = False
            elif c == '"':
                in_str = True
            elif c == "{":
                depth += 1
            elif c == "}":
                depth -= 1
                if depth == 0:
                    return src[open_idx + 1:i]
            i += 1
        raise AnalysisError("Java wrapper: unbalanced braces")

    @staticmethod
    def _printlns(block: str) -> List[List[Tuple[str, str]]]:
        out = []
        for m in re.finditer(r"System\.out\.println\((.*?)\);", block, re.S):
            parts: List[Tuple[str, str]] = []
            arg = m.group(1)
            pos = 0
            depth = 0
            cur = ""
            pieces = []
            in_str = False
            while pos < len(arg):
                c = arg[pos]
                if in_str:
                    cur += c
                    if c == "\\":
                        cur += arg[pos + 1]
                        pos += 1
                    elif c == '"':
                        in_str = False
                elif c == '"':
                    in_str = True
                    cur += c
                elif c in "([":
                    depth += 1
                    cur += c
                elif c in ")]":
                    depth -= 1
                    cur += c
                elif c == "+" and depth == 0:
                    pieces.append(cur.strip())
                    cur = ""
                else:
                    cur += c
                pos += 1
            pieces.append(cur.strip())
            for p in pieces:
                if p.startswith('"'):
                    parts.append(("lit", java_unescape(p[1:-1])))
                else:
                    parts.append(("var", p))
            out.append(parts)
        return out

    # -- derived protocol facts -----------------------------------------------------------------
    def literals(self, mode: str) -> List[str]:
        return ["".join(v for k, v in t if k == "lit") for t in (self.answer if mode == "answer" else self.deduction)
                if all(k == "lit" for k, _ in t)]

    def line_templates(self, mode: str) -> List[List[Tuple[str, str]]]:
        return [t for t in (self.answer if mode == "answer" else self.deduction) if any(k == "var" for k, _ in t)]


def instantiate(t: List[Tuple[str, str]], name: str, value: str) -> str:
    out = ""
    seen_name = False
    for k, v in t:
        if k == "lit":
            out += v
        elif not seen_name:
            out += name
            seen_name = True
        else:
            out += value
    return out


# ------------------------------------------------------------------------------------------


class Harness:
    def __init__(self, repo: Repo):
        self.repo = repo
        self.cw = ClassWorld([repo.mod("cspuz/backend/backend.py"), repo.mod(SUGAR)])
        g = self.cw.genv
        g["Op"] = Tag("Op")
        self.config = Obj(["Config"], backend_path=None, solver_timeout=None, name="config")
        g["config"] = self.config
        self.calls: List[Tuple[str, Any]] = []
        self.reply: Any = ""
        # id(): objects the harness keeps alive (the variables) have fixed distinct ids; an expression tree built for one
        # conversion is garbage afterwards, and its addresses are handed out again to the next one (CPython does exactly that),
        # so anything remembered under id(e) across conversions is looked up by a stale key
        self._live_ids: Dict[int, int] = {}
        self._temp_ids: Dict[int, int] = {}
        self._keep: List[Any] = []

        def _id(x: Any) -> int:
            k = id(x)
            if k in self._live_ids:
                return self._live_ids[k]
            self._keep.append(x)
            return self._temp_ids.setdefault(k, 1000 + len(self._temp_ids))

        self.cw.ev.funcs["id"] = _id

        def run_subprocess(args: Any, input: Any, timeout: Any = None) -> str:
            self.calls.append(("subprocess", (list(args), input)))
            return self.reply(input) if callable(self.reply) else self.reply

        g["run_subprocess"] = run_subprocess
        for modname in ("pycsugar", "enigma_csp", "cspuz_core"):
            def mk(modname: str):
                def solver(desc: Any) -> str:
                    self.calls.append((modname + ".solver", desc))
                    return self.reply(desc) if callable(self.reply) else self.reply
                return solver
            g[modname + ".solver"] = mk(modname)

    def var(self, cls: str, vid: int, lo: int = 0, hi: int = 0) -> Obj:
        base = "BoolExpr" if cls == "BoolVar" else "IntExpr"
        o = Obj([cls, base, "Expr"], id=vid, lo=lo, hi=hi, op=Tag("Op.VAR"), operands=[], sol=Tag("unset"),
                name=f"{cls}#{vid}")
        self._keep.append(o)
        self._live_ids[id(o)] = len(self._live_ids)
        return o

    def new_conversion(self) -> None:
        """the trees of the previous conversion are dead: their ids are free again"""
        self._temp_ids.clear()

    def tree(self, res: str, op: str, operands: List[Any]) -> Obj:
        return Obj(["BoolExpr" if res == "b" else "IntExpr", "Expr"], op=Tag("Op." + op), operands=list(operands), name=op)


def check_printer(repo: Repo, rep: Report, h: Harness) -> Dict[str, str]:
    rep.rule("SGR-1", "variable declarations and references use one name per (sort, id); Bool and Int names differ; readers invert the naming")
    rep.rule("OPC-4", "every producible operator (natives included) prints as (<Sugar name> <operands...>) with all operands in order; constants and literals print as atoms")
    mod = repo.mod(SUGAR)
    rep.saw(SUGAR, "_convert_expr")
    cv = lambda v: h.cw.call("_convert_variable", v)  # noqa: E731
    ce = lambda e: (h.new_conversion(), h.cw.call("_convert_expr", e))[1]  # noqa: E731
    names: Dict[str, str] = {}
    try:
        b7, i7, i8 = h.var("BoolVar", 7), h.var("IntVar", 7, -2, 5), h.var("IntVar", 8, 0, 0)
        db, di, di8 = cv(b7), cv(i7), cv(i8)
        mb = re.fullmatch(r"\(bool (\S+)\)", db if isinstance(db, str) else "")
        mi = re.fullmatch(r"\(int (\S+) (-?\d+) (-?\d+)\)", di if isinstance(di, str) else "")
        mi8 = re.fullmatch(r"\(int (\S+) (-?\d+) (-?\d+)\)", di8 if isinstance(di8, str) else "")
        if not (mb and mi and mi8):
            rep.finding("SGR-1", SUGAR, "_convert_variable", "declaration syntax",
                        f"declarations are {db!r} / {di!r}; Sugar expects (bool NAME) and (int NAME lo hi)")
        elif (mi.group(2), mi.group(3)) != ("-2", "5"):
            rep.finding("SGR-1", SUGAR, "_convert_variable", "declared domain",
                        f"IntVar with domain [-2, 5] is declared as {di!r}")
        else:
            nb, ni, ni8 = mb.group(1), mi.group(1), mi8.group(1)
            refs = (ce(b7), ce(i7), ce(i8))
            if refs != (nb, ni, ni8):
                rep.finding("SGR-1", SUGAR, "_convert_expr", "variable reference",
                            f"variables declared as {nb}/{ni}/{ni8} are referenced as {refs!r}")
            elif len({nb, ni, ni8}) != 3:
                rep.finding("SGR-1", SUGAR, "_convert_variable", "name collision",
                            f"distinct variables share a name: bool#7 -> {nb}, int#7 -> {ni}, int#8 -> {ni8}")
            else:
                rep.ok("SGR-1", "declaration and reference writers agree; Bool#7, Int#7, Int#8 get three distinct names; domain printed lo hi")
                names = {"b": nb[:-1], "i": ni[:-1]}
    except (Undecided, Raised) as ex:
        rep.undecide("SGR-1", f"variable writers: {ex}")
    # literals / constants / None
    try:
        atoms = [(True, "true"), (False, "false"), (0, "0"), (-3, "-3"), (12, "12"), (None, "*"),
                 (h.tree("b", "BOOL_CONSTANT", [True]), "true"), (h.tree("b", "BOOL_CONSTANT", [False]), "false"),
                 (h.tree("i", "INT_CONSTANT", [-4]), "-4")]
        bad = [(a, ce(a), w) for a, w in atoms if ce(a) != w]
        if bad:
            rep.finding("OPC-4", SUGAR, "_convert_expr", "atoms", f"{_show(bad[0][0])} prints as {bad[0][1]!r}, expected {bad[0][2]!r}")
        else:
            rep.ok("OPC-4", f"{len(atoms)} literal/constant forms print as Sugar atoms")
    except (Undecided, Raised) as ex:
        rep.undecide("OPC-4", f"atoms: {ex}")
    # operators
    by, native = EM.producible_ops(repo)
    rep.extra["producible_ops"] = sorted(by)
    x, y, z = h.var("BoolVar", 1), h.var("BoolVar", 2), h.var("BoolVar", 3)
    p, q, r = h.var("IntVar", 4, 0, 9), h.var("IntVar", 5, 0, 9), h.var("IntVar", 6, 0, 9)
    for op in sorted(by):
        if op in ("VAR", "BOOL_CONSTANT", "INT_CONSTANT"):
            continue
        if op not in SUGAR_NAME:
            raise AnalysisError(f"producible operator Op.{op} has no entry in the Sugar grammar table of the checker")
        try:
            if op in native:
                ars = [5]
                vecs = {5: [2, 1, x, True, 0, 1] if op.endswith("CONNECTED") else [2, 1, p, None, 0, 1, x]}
                res = "b"
            else:
                spec = EM.REF[op]
                res = spec["res"]
                ars = EM.arities_to_test(op, by[op])
                vecs = {}
                for n in ars:
                    kinds = spec["kinds"](n)
                    pool_b, pool_i = [x, y, False], [p, 3, r]
                    vecs[n] = [(pool_b[j % 3] if k in ("b", "B") else pool_i[j % 3]) for j, k in enumerate(kinds)]
            bad = None
            for n in ars:
                vec = vecs[n]
                tree_ = h.tree(res, op, vec)
                got = ce(tree_)
                want = "({} {})".format(SUGAR_NAME[op], " ".join(ce(v) for v in vec))
                if got != want:
                    # another spelling is fine as long as Sugar reads the same meaning from it (e.g. `x` for `(+ x)`)
                    if op not in native and _means_the_same(got, tree_, {"b1": x, "b2": y, "b3": z, "i4": p, "i5": q, "i6": r}):
                        rep.info(f"OPC-4: Op.{op} with {n} operand(s) is printed as {got!r} rather than {want!r}: same meaning")
                        continue
                    bad = (n, got, want)
                    break
            if bad:
                rep.finding("OPC-4", SUGAR, "_convert_expr", f"printing of Op.{op}",
                            f"Op.{op} with {bad[0]} operand(s) prints as {bad[1]!r}; Sugar syntax is {bad[2]!r}")
            else:
                rep.ok("OPC-4", f"Op.{op} prints as ({SUGAR_NAME[op]} ...) with all operands in order (arities {ars})")
        except (Undecided,) as ex:
            rep.undecide("OPC-4", f"Op.{op}: {ex}")
        except Raised as ex:
            rep.finding("OPC-4", SUGAR, "_convert_expr", f"printing of Op.{op}", f"the printer raises {ex.what} for a producible operator")
        except IndexOutOfRange as ex:
            rep.finding("OPC-4", SUGAR, "_convert_expr", f"printing of Op.{op}", f"the printer indexes past the operands: {ex}")
    # nested trees: the text, read with the Sugar grammar, must mean what the tree means (flattening an associative operator is
    # fine, flattening a subtraction is not)
    try:
        em = EM.ExprWorld(repo)
        leaves_i = {"i4": p, "i5": q, "i6": r}
        leaves_b = {"b1": x, "b2": y, "b3": z}
        T = h.tree
        shapes = [
            ("a - (b - c)", T("i", "SUB", [p, T("i", "SUB", [q, r])])), ("(a - b) - c", T("i", "SUB", [T("i", "SUB", [p, q]), r])),
            ("a - (b + c)", T("i", "SUB", [p, T("i", "ADD", [q, r])])), ("a + (b - c)", T("i", "ADD", [p, T("i", "SUB", [q, r])])),
            ("a + (b + c)", T("i", "ADD", [p, T("i", "ADD", [q, r])])), ("-(a - b)", T("i", "NEG", [T("i", "SUB", [p, q])])),
            ("a - (-b)", T("i", "SUB", [p, T("i", "NEG", [q])])), ("a - b - c (one node)", T("i", "SUB", [p, q, r])),
            ("x & (y & z)", T("b", "AND", [x, T("b", "AND", [y, z])])), ("x | (y & z)", T("b", "OR", [x, T("b", "AND", [y, z])])),
            ("x => (y => z)", T("b", "IMP", [x, T("b", "IMP", [y, z])])), ("(x => y) => z", T("b", "IMP", [T("b", "IMP", [x, y]), z])),
            ("x xor (y xor z)", T("b", "XOR", [x, T("b", "XOR", [y, z])])), ("!(x | y)", T("b", "NOT", [T("b", "OR", [x, y])])),
            ("(a - b) == c", T("b", "EQ", [T("i", "SUB", [p, q]), r])), ("if x then a - b else c", T("i", "IF", [x, T("i", "SUB", [p, q]), r])),
        ]
        if "SUB" not in by:
            shapes = [s_ for s_ in shapes if "SUB" not in repr(s_[1].attrs) and " - " not in s_[0]]
        badn = None
        nn = 0
        for label, tree in shapes:
            text = ce(tree)
            sx = sugar_parse(text)
            for iv in itertools.product((-2, 0, 3), repeat=3):
                for bv in itertools.product((False, True), repeat=3):
                    nn += 1
                    val_text = dict(zip(leaves_i, iv)) | dict(zip(leaves_b, bv))
                    got = sugar_eval(sx, val_text)
                    want = _tree_value(tree, {id(p): iv[0], id(q): iv[1], id(r): iv[2], id(x): bv[0], id(y): bv[1], id(z): bv[2]})
                    if got != want or type(got) is not type(want):
                        badn = (label, text, val_text, got, want)
                        break
                if badn:
                    break
            if badn:
                break
        if badn:
            rep.finding("OPC-4", SUGAR, "_convert_expr", "printing of nested expressions",
                        f"the tree {badn[0]} is emitted as {badn[1]!r}, which Sugar reads as {badn[3]!r} under {badn[2]!r}; the tree means {badn[4]!r}")
        else:
            rep.ok("OPC-4", f"{len(shapes)} nested trees: the emitted text, read with the Sugar grammar, means what the tree means ({nn} valuations)", points=nn)
    except (Undecided, SugarSyntax) as ex:
        rep.undecide("OPC-4", f"nested expressions: {ex}")
    except Raised as ex:
        rep.finding("OPC-4", SUGAR, "_convert_expr", "printing of nested expressions", f"the printer raises {ex.what}")
    rep.floor("OPC-4", 18)
    return names


class SugarSyntax(Exception):
    pass


def _means_the_same(text: str, tree: Any, leaves: Dict[str, Any]) -> bool:
    """the text, read with the Sugar grammar, has the tree's reference meaning for every valuation of the leaves over small grids"""
    try:
        sx = sugar_parse(text)
        names_i = [k for k in leaves if k.startswith("i")]
        names_b = [k for k in leaves if k.startswith("b")]
        for iv in itertools.product((-2, 0, 3), repeat=len(names_i)):
            for bv in itertools.product((False, True), repeat=len(names_b)):
                val = dict(zip(names_i, iv)) | dict(zip(names_b, bv))
                by_id = {id(leaves[k]): v for k, v in val.items()}
                got = sugar_eval(sx, val)
                want = _tree_value(tree, by_id)
                if got != want or type(got) is not type(want):
                    return False
        return True
    except (SugarSyntax, KeyError, TypeError, IndexError):
        return False


def sugar_parse(text: str) -> Any:
    toks = text.replace("(", " ( ").replace(")", " ) ").split()
    pos = 0

    def rd() -> Any:
        nonlocal pos
        if pos >= len(toks):
            raise SugarSyntax("unexpected end of text")
        t = toks[pos]
        pos += 1
        if t == "(":
            out = []
            while pos < len(toks) and toks[pos] != ")":
                out.append(rd())
            if pos >= len(toks):
                raise SugarSyntax("missing )")
            pos += 1
            return out
        if t == ")":
            raise SugarSyntax("unexpected )")
        return t

    r_ = rd()
    if pos != len(toks):
        raise SugarSyntax("trailing tokens")
    return r_


def sugar_eval(sx: Any, val: Dict[str, Any]) -> Any:
    """meaning of a Sugar CSP expression (the frozen external grammar): n-ary + && ||, `-` is negation with one operand and a
    left-associated difference otherwise, binary comparisons, iff, xor, =>, if"""
    if isinstance(sx, str):
        if sx in ("true", "false"):
            return sx == "true"
        if sx in val:
            return val[sx]
        try:
            return int(sx)
        except ValueError:
            raise SugarSyntax(f"unknown atom {sx}")
    if not sx or not isinstance(sx[0], str):
        raise SugarSyntax("operator expected")
    opn, args = sx[0], [sugar_eval(a, val) for a in sx[1:]]
    ints = all(isinstance(a, int) and not isinstance(a, bool) for a in args)
    bools = all(isinstance(a, bool) for a in args)
    if opn == "+" and ints:
        return sum(args)
    if opn == "-" and ints and args:
        return -args[0] if len(args) == 1 else args[0] - sum(args[1:])
    if opn in ("=", "!=", "<=", "<", ">=", ">") and ints and len(args) == 2:
        a, b = args
        return {"=": a == b, "!=": a != b, "<=": a <= b, "<": a < b, ">=": a >= b, ">": a > b}[opn]
    if opn == "!" and bools and len(args) == 1:
        return not args[0]
    if opn == "&&" and bools:
        return all(args)
    if opn == "||" and bools:
        return any(args)
    if opn == "iff" and bools and len(args) == 2:
        return args[0] == args[1]
    if opn == "xor" and bools and len(args) == 2:
        return args[0] != args[1]
    if opn == "=>" and bools and len(args) == 2:
        return (not args[0]) or args[1]
    if opn == "if" and len(args) == 3 and isinstance(args[0], bool):
        return args[1] if args[0] else args[2]
    if opn == "alldifferent" and ints:
        return len(set(args)) == len(args)
    raise SugarSyntax(f"ill-formed ({opn} ...) with {len(args)} operand(s)")


def _tree_value(t: Any, val: Dict[int, Any]) -> Any:
    if isinstance(t, (bool, int)):
        return t
    if id(t) in val:
        return val[id(t)]
    opn = t.attrs["op"].name.split(".")[-1]
    xs = [_tree_value(o, val) for o in t.attrs["operands"]]
    return EM.REF[opn]["f"](xs)


def _show(x: Any) -> str:
    if isinstance(x, Obj):
        return f"{x.attrs.get('name')}{x.attrs.get('operands', '')}"
    return repr(x)


def check_protocol(repo: Repo, rep: Report, h: Harness, jp: JavaProtocol) -> None:
    rep.rule("SGR-2", "UNSAT/SAT markers of each mode, as printed by the Java wrapper, are told apart by the Python readers")
    rep.rule("SGR-3", "reply lines instantiated from the Java println templates are parsed into the right variables with the right types")
    rep.rule("SGR-4", "the answer-key line is '#' + space-separated names of exactly the registered keys, as the Java wrapper reads it")
    rep.rule("SGR-5", "CSP description = all declarations, then all constraints (then the key line), one per line")
    rep.rule("SGR-7", "backend name -> class -> external entry point")
    rep.saw(SUGAR)
    rep.saw(JAVA)
    a_lits, d_lits = jp.literals("answer"), jp.literals("deduction")
    a_tmpl, d_tmpl = jp.line_templates("answer"), jp.line_templates("deduction")
    rep.extra["java_protocol"] = {"answer_literals": a_lits, "deduction_literals": d_lits,
                                  "answer_templates": a_tmpl, "deduction_templates": d_tmpl,
                                  "key_marker": jp.key_marker, "key_sep": jp.key_sep}
    if len(a_lits) < 3 or len(d_lits) < 2 or not a_tmpl or not d_tmpl:
        raise AnalysisError("Java wrapper: could not extract both modes' println templates")
    a_sat, a_term, a_unsat = a_lits[0], a_lits[1], a_lits[-1]
    d_unsat, d_sat = d_lits[0], d_lits[1]

    def fresh(cls: str):
        vs = [h.var("IntVar", 0, -2, 5), h.var("BoolVar", 1), h.var("BoolVar", 2), h.var("IntVar", 3, 0, 9), h.var("BoolVar", 4)]
        b = h.cw.new(cls, vs)
        return vs, b

    def decl_names(desc: str) -> Dict[int, str]:
        out = {}
        for line in desc.split("\n"):
            m = re.fullmatch(r"\((bool|int) (\S+)( -?\d+ -?\d+)?\)", line)
            if m:
                out[len(out)] = m.group(2)
        return out

    model = {0: -2, 1: True, 2: False, 3: 10, 4: True}  # a negative and a two-digit integer, both truth values
    jval = lambda v: ("true" if v else "false") if isinstance(v, bool) else str(v)  # noqa: E731

    # ---- answer-finder mode ------------------------------------------------------------------
    for cls in ("SugarBackend", "CspuzCoreBackend"):
        try:
            vs, b = fresh(cls)
            c1, c2 = h.tree("b", "NOT", [vs[1]]), h.tree("b", "LE", [vs[0], 3])
            c0, c3 = h.tree("b", "OR", [vs[1], vs[2]]), h.tree("b", "GE", [vs[3], 1])
            # constraints arrive one at a time and in batches, in any interleaving (Solver posts one batch then single clauses,
            # the Analyzer several batches): every one of them stays posted, in order
            h.cw.method(b, "add_constraint")(c0)
            h.cw.method(b, "add_constraint")([c1, c2])
            h.cw.method(b, "add_constraint")(True)
            h.cw.method(b, "add_constraint")([c3])
            descs: List[str] = []

            def reply_sat(desc: str) -> str:
                descs.append(desc)
                nm = decl_names(desc)
                lines = [a_sat]
                # Java prints all int variables first, then all bool variables
                for i in (0, 3, 1, 2, 4):
                    lines.append(instantiate(a_tmpl[0 if isinstance(model[i], int) and not isinstance(model[i], bool) else -1], nm.get(i, "?"), jval(model[i])))
                lines.append(a_term)
                return "\n".join(lines) + "\n"

            h.reply = reply_sat
            h.calls.clear()
            r = h.cw.method(b, "solve")()
            sols = [v.attrs.get("sol") for v in vs]
            exp_desc = "\n".join([h.cw.call("_convert_variable", v) for v in vs]
                                 + [h.cw.call("_convert_expr", c) for c in (c0, c1, c2, True, c3)])
            if not descs or descs[0] != exp_desc:
                rep.finding("SGR-5", SUGAR, "SugarLikeBackend.solve", "CSP description",
                            f"description sent is {descs[0] if descs else None!r}; expected declarations then constraints: {exp_desc!r}")
            else:
                rep.ok("SGR-5", f"{cls}.solve sends every declaration then every constraint, one per line")
            if r is True and sols == [-2, True, False, 10, True] and all(type(s) is type(m) for s, m in zip(sols, model.values())):
                rep.ok("SGR-3", f"{cls}.solve: SAT reply built from the Java templates is read back into all four variables with bool/int types")
            else:
                rep.finding("SGR-3", SUGAR, "SugarLikeBackend.solve", "answer-mode reply parsing",
                            f"reply {reply_sat(descs[0]) if descs else ''!r} gives result {r!r} and sol {sols!r}; expected True and [-2, True, False, 10, True]")
            # a program whose last declared variable is an integer: the wrapper still prints all integers first, then all booleans, so
            # the line of the highest id is not the last line of the reply
            vs2 = [h.var("BoolVar", 0), h.var("IntVar", 1, 0, 9), h.var("BoolVar", 2), h.var("IntVar", 3, -2, 5)]
            b2 = h.cw.new(cls, vs2)
            model2 = {0: True, 1: 7, 2: False, 3: -1}

            def reply2(desc: str) -> str:
                nm = decl_names(desc)
                lines = [a_sat]
                for i in (1, 3, 0, 2):
                    lines.append(instantiate(a_tmpl[0 if not isinstance(model2[i], bool) else -1], nm.get(i, "?"), jval(model2[i])))
                lines.append(a_term)
                return "\n".join(lines) + "\n"

            h.reply = reply2
            r2 = h.cw.method(b2, "solve")()
            sols2 = [v.attrs.get("sol") for v in vs2]
            if r2 is True and sols2 == [True, 7, False, -1]:
                rep.ok("SGR-3", f"{cls}.solve: variables (bool, int, bool, int) - the reply lists integers first - are all read back")
            else:
                rep.finding("SGR-3", SUGAR, "SugarLikeBackend.solve", "answer-mode reply, last declared variable an integer",
                            f"variables declared as (bool #0, int #1, bool #2, int #3); reply {reply2(chr(10).join(h.cw.call('_convert_variable', v) for v in vs2))!r} "
                            f"gives {r2!r} / {sols2!r}; expected True / [True, 7, False, -1]")
            # the UNSAT reply after a SAT reply on the same backend: the assignment of the earlier reply must not stay in sol
            seen2: List[str] = []
            h.reply = lambda desc: (seen2.append(desc), a_unsat + "\n")[1]
            r3 = h.cw.method(b, "solve")()
            sols3 = [v.attrs.get("sol") for v in vs]
            # the refinement loop solves again and again on ONE backend object: every description declares every variable
            if seen2 and seen2[0] != exp_desc:
                rep.finding("SGR-5", SUGAR, "SugarLikeBackend.solve", "CSP description of a second solve on the same backend",
                            f"the second solve() on one backend object sends {seen2[0]!r}; the first one sent {exp_desc!r} "
                            "(nothing was posted in between: the two descriptions must be the same)")
            else:
                rep.ok("SGR-5", f"{cls}.solve: a second solve on the same backend sends the same declarations and constraints again")
            if r3 is False and sols3 == [None] * 5:
                rep.ok("SGR-3", f"{cls}.solve: the UNSAT reply after a SAT reply returns False and clears every sol")
            else:
                rep.finding("SGR-3", SUGAR, "SugarLikeBackend.solve", "answer-mode replies in sequence",
                            f"the reply {a_unsat!r} after a SAT reply on the same backend gives {r3!r} / {sols3!r}; expected False and every sol None")
            vs, b = fresh(cls)
            h.reply = a_unsat + "\n"
            r = h.cw.method(b, "solve")()
            if r is False:
                rep.ok("SGR-2", f"{cls}.solve: Java's UNSAT line {a_unsat!r} is recognised")
            else:
                rep.finding("SGR-2", SUGAR, "SugarLikeBackend.solve", "answer-mode UNSAT marker",
                            f"the Java wrapper's UNSAT line {a_unsat!r} yields {r!r}")
        except (Undecided,) as ex:
            rep.undecide("SGR-3", f"{cls}.solve: {ex}")
        except (Raised, IndexOutOfRange) as ex:
            rep.finding("SGR-3", SUGAR, "SugarLikeBackend.solve", "answer-mode reply parsing", f"a well-formed reply makes the reader raise: {ex}")

    # ---- deduction mode ----------------------------------------------------------------------
    for cls in ("SugarExtendedBackend", "CSugarBackend"):
        try:
            vs, b = fresh(cls)
            c1 = h.tree("b", "OR", [vs[1], vs[2]])
            h.cw.method(b, "add_constraint")([c1])
            keys = [True, False, True, True, True]
            decided = {0: -2, 2: False, 4: True}  # variable 3 is a key but undecided; a negative integer fact
            descs = []

            def reply_ded(desc: str) -> str:
                descs.append(desc)
                nm = decl_names(desc)
                lines = [d_sat]
                for i in (0, 2, 4):
                    lines.append(instantiate(d_tmpl[0], nm.get(i, "?"), jval(decided[i])))
                return "\n".join(lines) + "\n"

            h.reply = reply_ded
            r = h.cw.method(b, "solve_irrefutably")(keys)
            sols = [v.attrs.get("sol") for v in vs]
            nm = decl_names(descs[0]) if descs else {}
            last = descs[0].split("\n")[-1] if descs else ""
            exp_key = jp.key_marker + jp.key_sep.join(nm[i] for i in (0, 2, 3, 4)) if nm else None
            body = "\n".join(descs[0].split("\n")[:-1]) if descs else ""
            exp_body = "\n".join([h.cw.call("_convert_variable", v) for v in vs] + [h.cw.call("_convert_expr", c1)])
            if last != exp_key or jp.key_skip != len(jp.key_marker):
                rep.finding("SGR-4", SUGAR, "SugarLikeBackend.solve_irrefutably", "answer-key line",
                            f"key line sent is {last!r}; the Java wrapper expects {exp_key!r} for keys #0, #2, #3, #4")
            else:
                rep.ok("SGR-4", f"{cls}: key line names exactly the registered keys in the wrapper's syntax")
            if body != exp_body:
                rep.finding("SGR-5", SUGAR, "SugarLikeBackend.solve_irrefutably", "CSP description",
                            f"description before the key line is {body!r}, expected {exp_body!r}")
            else:
                rep.ok("SGR-5", f"{cls}.solve_irrefutably sends declarations, constraints, then the key line")
            if r is True and sols == [-2, None, False, None, True] and type(sols[0]) is int and sols[2] is False and sols[4] is True:
                rep.ok("SGR-3", f"{cls}.solve_irrefutably: decided keys typed and stored, undecided/non-key variables are None")
            else:
                rep.finding("SGR-3", SUGAR, "SugarLikeBackend.solve_irrefutably", "deduction-mode reply parsing",
                            f"reply {reply_ded(descs[0]) if descs else ''!r} gives result {r!r}, sol {sols!r}; expected True and [-2, None, False, None, True]")
            # a backend whose variable list is not in id order (the flags are positional, the names carry the ids): keys at positions 0 and 2
            pv = [h.var("IntVar", 2, 0, 9), h.var("BoolVar", 0), h.var("BoolVar", 1)]
            pb = h.cw.new(cls, pv)
            descs.clear()
            h.reply = lambda desc: (descs.append(desc), d_sat + "\n")[1]
            h.cw.method(pb, "solve_irrefutably")([True, False, True])
            last = descs[0].split("\n")[-1] if descs else None
            want_names = [h.cw.call("_convert_variable", v) for v in (pv[0], pv[2])]
            want_names = [re.fullmatch(r"\((?:bool|int) (\S+)(?: -?\d+ -?\d+)?\)", w_).group(1) for w_ in want_names]
            if last == jp.key_marker + jp.key_sep.join(want_names):
                rep.ok("SGR-4", f"{cls}: with variables listed as ids (2, 0, 1) and keys at positions 0 and 2 the key line names ids 2 and 1")
            else:
                rep.finding("SGR-4", SUGAR, "SugarLikeBackend.solve_irrefutably", "answer-key line, list order differs from ids",
                            f"variables with ids (2, 0, 1) and key flags [True, False, True] (positional): key line sent is {last!r}, "
                            f"expected {jp.key_marker + jp.key_sep.join(want_names)!r}")
            # no answer key at all: the key line must still be sent (its presence selects deduction mode in the wrapper)
            vs, b = fresh(cls)
            descs.clear()
            h.reply = lambda desc: (descs.append(desc), d_sat + "\n")[1]
            r = h.cw.method(b, "solve_irrefutably")([False] * 5)
            last = descs[0].split("\n")[-1] if descs else None
            if last == jp.key_marker and r is True:
                rep.ok("SGR-4", f"{cls}: with no answer key the (empty) key line {jp.key_marker!r} is still sent, so the wrapper answers in deduction mode")
            else:
                rep.finding("SGR-4", SUGAR, "SugarLikeBackend.solve_irrefutably", "answer-key line without keys",
                            f"with no answer key registered the description ends with {last!r} instead of the key line {jp.key_marker!r}: "
                            "the wrapper then answers in answer-finder format, which the deduction parser misreads")
            # sat with no decided fact at all
            vs, b = fresh(cls)
            h.reply = d_sat + "\n"
            r = h.cw.method(b, "solve_irrefutably")(keys)
            if r is True and [v.attrs.get("sol") for v in vs] == [None] * 5:
                rep.ok("SGR-3", f"{cls}.solve_irrefutably: 'sat' without facts leaves every sol None and returns True")
            else:
                rep.finding("SGR-3", SUGAR, "SugarLikeBackend.solve_irrefutably", "deduction-mode empty reply",
                            f"reply {d_sat!r} alone gives {r!r} / {[v.attrs.get('sol') for v in vs]!r}")
            # replies in sequence on one backend (an incremental session): every reply replaces what the previous one left in sol -
            # a second 'sat' with fewer facts clears the facts it no longer states, 'unsat' states no value at all
            vs, b = fresh(cls)
            h.cw.method(b, "add_constraint")([c1])
            h.reply = reply_ded
            h.cw.method(b, "solve_irrefutably")(keys)
            h.reply = lambda desc: "\n".join([d_sat, instantiate(d_tmpl[0], decl_names(desc).get(4, "?"), "false")]) + "\n"
            r2 = h.cw.method(b, "solve_irrefutably")(keys)
            sols2 = [v.attrs.get("sol") for v in vs]
            h.reply = d_unsat + "\n"
            r3 = h.cw.method(b, "solve_irrefutably")(keys)
            sols3 = [v.attrs.get("sol") for v in vs]
            if r2 is True and sols2 == [None, None, None, None, False] and r3 is False and sols3 == [None] * 5:
                rep.ok("SGR-3", f"{cls}.solve_irrefutably: three replies in sequence (facts, fewer facts, unsat) - each replaces the sol fields of the one before")
            else:
                rep.finding("SGR-3", SUGAR, "SugarLikeBackend.solve_irrefutably", "deduction-mode replies in sequence",
                            f"after a reply deciding variables 0, 2, 4, the reply 'sat' + one fact (variable 4 false) gives {r2!r} / {sols2!r} "
                            f"(expected True / [None, None, None, None, False]); the reply {d_unsat!r} after that gives {r3!r} / {sols3!r} "
                            "(expected False and every sol None: an unsatisfiable program has no facts, values of an earlier reply must not stay)")
            vs, b = fresh(cls)
            h.reply = d_unsat + "\n"
            r = h.cw.method(b, "solve_irrefutably")(keys)
            if r is False:
                rep.ok("SGR-2", f"{cls}.solve_irrefutably: Java's {d_unsat!r} is recognised as unsatisfiable")
            else:
                rep.finding("SGR-2", SUGAR, "SugarLikeBackend.solve_irrefutably", "deduction-mode UNSAT marker",
                            f"the Java wrapper's line {d_unsat!r} yields {r!r}")
        except (Undecided,) as ex:
            rep.undecide("SGR-3", f"{cls}.solve_irrefutably: {ex}")
        except (Raised, IndexOutOfRange) as ex:
            rep.finding("SGR-3", SUGAR, "SugarLikeBackend.solve_irrefutably", "deduction-mode reply parsing",
                        f"a well-formed reply makes the reader raise: {ex}")
    # marker discrimination on the Java literals themselves
    if a_unsat != a_sat and d_unsat != d_sat:
        rep.ok("SGR-2", f"Java markers: {a_sat!r}/{a_unsat!r} and {d_sat!r}/{d_unsat!r}", nontrivial=False)

    # ---- SGR-7 entry points ------------------------------------------------------------------
    smod = repo.mod(SOLVER)
    rep.saw(SOLVER, "_get_backend_by_name")
    from .solverworld import solver_world

    genv = solver_world(repo).genv  # module-level tables of solver.py are evaluated as at import time
    for name, (cls, entry) in ENTRY.items():
        try:
            r = genv["_get_backend_by_name"](name)
            got = r.name.split(".")[-1] if isinstance(r, Tag) else repr(r)
            if got != cls:
                rep.finding("SGR-7", SOLVER, "_get_backend_by_name", f"backend name {name}", f"name {name!r} resolves to {got}, expected {cls}")
                continue
            if entry is None:
                rep.ok("SGR-7", f"{name} -> {cls}")
                continue
            vs, b = fresh(cls)
            h.calls.clear()
            h.reply = "x"
            h.config.attrs["backend_path"] = None
            out = h.cw.method(b, "_call_solver")("DESC")
            kinds = [c[0] for c in h.calls]
            okay = kinds == [entry] and out == "x"
            if entry == "subprocess" and okay:
                args, inp = h.calls[0][1]
                okay = args == ["sugar", "/dev/stdin"] and inp == "DESC"
                h.config.attrs["backend_path"] = "/opt/x/sugar"
                h.calls.clear()
                h.cw.method(b, "_call_solver")("D2")
                okay = okay and h.calls and h.calls[0][1][0] == ["/opt/x/sugar", "/dev/stdin"]
                h.config.attrs["backend_path"] = None
            elif okay:
                okay = h.calls[0][1] == "DESC"
            if okay:
                rep.ok("SGR-7", f"{name} -> {cls} -> {entry} receives the description and its output is returned")
            else:
                rep.finding("SGR-7", SUGAR, f"{cls}._call_solver", f"entry point of {name}",
                            f"{cls}._call_solver called {h.calls!r} and returned {out!r}; expected one call of {entry}")
        except (Undecided, Raised) as ex:
            rep.undecide("SGR-7", f"{name}: {ex}")
    try:
        genv["_get_backend_by_name"]("no-such-backend")
        rep.finding("SGR-7", SOLVER, "_get_backend_by_name", "unknown backend name", "an unknown backend name is accepted")
    except Raised as ex:
        if "ValueError" in ex.what:
            rep.ok("SGR-7", "unknown backend name raises ValueError")
        else:
            rep.finding("SGR-7", SOLVER, "_get_backend_by_name", "unknown backend name", f"raises {ex.what}, not ValueError")
    except Undecided as ex:
        rep.undecide("SGR-7", f"unknown name: {ex}")


def run(repo: Repo, rep: Report) -> None:
    h = Harness(repo)
    jp = JavaProtocol(repo)
    check_printer(repo, rep, h)
    check_protocol(repo, rep, h, jp)
    from . import graphnative

    graphnative.check_native_layout(repo, rep)
    rep.assume("the external solvers implement the Sugar CSP syntax and the reply formats of CspuzSugarInterface.java; "
               "pycsugar / enigma_csp / cspuz_core use the same reply format as the Java wrapper")
