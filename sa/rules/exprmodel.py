"""Shared model of the expression DSL for the operator-chain rules (OPC family).

* ``producible_ops`` computes, from the construction sites in the source, which ``Op`` members can
  occur in a tree, with which arities, and which are native-only.
* ``ExprWorld`` interprets functions/methods of ``cspuz/expr.py``, ``cspuz/constraints.py`` and
  ``cspuz/array.py`` over abstract leaves (E8) and gives the *reference* denotation of the resulting
  trees (``REF``: the meaning the Python data model and the ``Op`` comments give each operator).
"""

from __future__ import annotations

import ast
import itertools
from typing import Any, Callable, Dict, Iterable, List, Optional, Set, Tuple

from ..core import fde
from ..core import guards as G
from ..core import linear as L
from ..core.fde import Lin, Obj, Tag, Undecided
from ..core.loader import AnalysisError, Module, Repo, dotted, norm, qualname, parent

OP_FILES = (
    "cspuz/expr.py", "cspuz/constraints.py", "cspuz/array.py", "cspuz/graph.py", "cspuz/solver.py",
    "cspuz/grid_frame.py", "cspuz/analyzer.py",
)
CONSTRUCTORS = {"BoolExpr", "IntExpr", "_make_bool_expr", "_make_int_expr", "_elementwise", "Expr"}


class Site:
    def __init__(self, file: str, func: str, node: ast.Call, via: str, op: str, operands: Optional[ast.AST]):
        self.file, self.func, self.node, self.via, self.op, self.operands = file, func, node, via, op, operands
        self.native_gated = False
        self.arity_lo: Optional[int] = None
        self.arity_hi: Optional[int] = None  # None = unbounded

    def __repr__(self) -> str:
        return f"{self.file}:{self.node.lineno} {self.via}({self.op})"


def op_member(node: ast.AST) -> Optional[str]:
    if isinstance(node, ast.Attribute) and isinstance(node.value, ast.Name) and node.value.id == "Op":
        return node.attr
    return None


def op_enum_members(repo: Repo) -> List[str]:
    cls = repo.mod("cspuz/expr.py").cls("Op")
    out = []
    for st in cls.body:
        if isinstance(st, ast.Assign) and len(st.targets) == 1 and isinstance(st.targets[0], ast.Name):
            out.append(st.targets[0].id)
    if not out:
        raise AnalysisError("Op enum has no members")
    return out


def construction_sites(repo: Repo) -> List[Site]:
    sites: List[Site] = []
    for m in repo.iter("cspuz/"):
        if m.rel.startswith("cspuz/backend/"):
            continue
        for node in ast.walk(m.tree):
            if not isinstance(node, ast.Call) or not node.args:
                continue
            name = dotted(node.func)
            via = None
            if name is not None and name.split(".")[-1] in CONSTRUCTORS:
                via = name.split(".")[-1]
            elif (
                isinstance(node.func, ast.Attribute)
                and node.func.attr == "__init__"
                and isinstance(node.func.value, ast.Call)
                and dotted(node.func.value.func) == "super"
            ):
                via = "super().__init__"
            if via is None:
                continue
            op = op_member(node.args[0])
            if op is None:
                continue
            operands = node.args[2] if via == "_elementwise" and len(node.args) > 2 else (
                node.args[1] if len(node.args) > 1 else None
            )
            s = Site(m.rel, qualname(node), node, via, op, operands)
            # gating by a use_graph_primitive flag (computed, not listed)
            s.native_gated = _gated(m, node, 3)
            sites.append(s)
    return sites


def _gated_here(node: ast.AST) -> bool:
    p = parent(node)
    while p is not None and not isinstance(p, (ast.FunctionDef, ast.AsyncFunctionDef)):
        if isinstance(p, ast.If) and any(
            isinstance(n, ast.Name) and "use_graph" in n.id and "primitive" in n.id for n in ast.walk(p.test)
        ):
            # must be in the body (true branch) of a positive test
            if _in_body(p, node) and _positive_flag_test(p.test):
                return True
        p = parent(p)
    return False


def _always_exits(body: List[ast.stmt]) -> bool:
    if not body:
        return False
    last = body[-1]
    if isinstance(last, (ast.Return, ast.Raise)):
        return True
    if isinstance(last, ast.If) and last.orelse:
        return _always_exits(last.body) and _always_exits(last.orelse)
    return False


def _negative_flag_test(test: ast.AST) -> bool:
    """`not flag` / `not flag or ...`: the statements after an exit under this test run only with the flag set"""
    if isinstance(test, ast.UnaryOp) and isinstance(test.op, ast.Not):
        return _positive_flag_test(test.operand)
    if isinstance(test, ast.BoolOp) and isinstance(test.op, ast.Or):
        return any(_negative_flag_test(v) for v in test.values)
    return False


def _gated_by_early_exit(node: ast.AST) -> bool:
    """the site comes after `if not use_graph_primitive: ...; return` in one of the statement lists that enclose it"""
    child = node
    p = parent(node)
    while p is not None:
        for field in ("body", "orelse", "finalbody"):
            seq = getattr(p, field, None)
            if isinstance(seq, list) and any(st is child for st in seq):
                for st in seq:
                    if st is child:
                        break
                    if isinstance(st, ast.If) and _negative_flag_test(st.test) and _always_exits(st.body):
                        return True
        if isinstance(p, (ast.FunctionDef, ast.AsyncFunctionDef)):
            return False
        child, p = p, parent(p)
    return False


def _gated(m: Module, node: ast.AST, depth: int) -> bool:
    """under a positive use_graph_*primitive test, directly or because the enclosing private module-level helper is only
    ever called from such a position (helpers extracted from the gated branch)"""
    if _gated_here(node) or _gated_by_early_exit(node):
        return True
    if depth == 0:
        return False
    p = parent(node)
    while p is not None and not isinstance(p, (ast.FunctionDef, ast.AsyncFunctionDef)):
        p = parent(p)
    if p is None or not p.name.startswith("_") or not isinstance(parent(p), ast.Module):
        return False
    calls = [c for c in ast.walk(m.tree) if isinstance(c, ast.Call) and isinstance(c.func, ast.Name) and c.func.id == p.name]
    uses = [n for n in ast.walk(m.tree) if isinstance(n, ast.Name) and n.id == p.name and isinstance(n.ctx, ast.Load)]
    if not calls or len(uses) != len(calls):
        return False  # never called, or passed around as a value
    return all(_gated(m, c, depth - 1) for c in calls)


def _in_body(ifnode: ast.If, node: ast.AST) -> bool:
    for st in ifnode.body:
        for n in ast.walk(st):
            if n is node:
                return True
    return False


def _positive_flag_test(test: ast.AST) -> bool:
    """the test is `flag` or `flag and ...` (flag un-negated)"""
    if isinstance(test, ast.Name):
        return "primitive" in test.id
    if isinstance(test, ast.BoolOp) and isinstance(test.op, ast.And):
        return any(_positive_flag_test(v) for v in test.values)
    return False


def site_arity(repo: Repo, s: Site) -> None:
    """arity interval of the operand list built at a site"""
    o = s.operands
    if o is None:
        s.arity_lo = s.arity_hi = 0
        return
    if isinstance(o, (ast.List, ast.Tuple)) and not any(isinstance(e, ast.Starred) for e in o.elts):
        s.arity_lo = s.arity_hi = len(o.elts)
        return
    # n-ary: look for a dominating guard on len(<operand expr>)
    lo = 0
    fn = None
    p = parent(s.node)
    while p is not None and not isinstance(p, ast.FunctionDef):
        p = parent(p)
    fn = p
    if fn is not None:
        found: List[G.Facts] = []

        def on_expr(n: ast.AST, f: G.Facts) -> None:
            if n is s.node:
                found.append(f)

        w = G.Walker(on_expr=on_expr)
        w.run_function(fn)
        if found:
            lz = L.Linearizer()
            ln = lz.lin(ast.Call(func=ast.Name(id="len", ctx=ast.Load()), args=[o], keywords=[]))
            pr = G.Prover(found[0])
            if ln is not None and pr.ge0(L.add(ln, L.const(-1))):
                lo = 1
    s.arity_lo, s.arity_hi = lo, None


def producible_ops(repo: Repo) -> Tuple[Dict[str, List[Site]], Set[str]]:
    sites = construction_sites(repo)
    by: Dict[str, List[Site]] = {}
    for s in sites:
        site_arity(repo, s)
        by.setdefault(s.op, []).append(s)
    native = {op for op, ss in by.items() if all(x.native_gated for x in ss)}
    return by, native


# ------------------------------------------------------------------------------------------
# reference semantics (the specification side)
# ------------------------------------------------------------------------------------------


def _fold_sub(xs: List[Any]) -> Any:
    acc = xs[0]
    for x in xs[1:]:
        acc = (Lin.of(acc) - x) if (isinstance(acc, Lin) or isinstance(x, Lin)) else acc - x
    return acc


def _alldiff(xs: List[Any]) -> bool:
    return all(xs[i] != xs[j] for i in range(len(xs)) for j in range(i))


# kind: result type, operand kinds (callable of arity -> list of 'b'/'i'), allowed arities (None = any)
REF: Dict[str, Dict[str, Any]] = {
    "NEG": dict(res="i", kinds=lambda n: ["i"] * n, arity=(1, 1), f=lambda xs: -xs[0]),
    "ADD": dict(res="i", kinds=lambda n: ["i"] * n, arity=(1, None), f=lambda xs: fde._sum(xs[1:], xs[0])),
    "SUB": dict(res="i", kinds=lambda n: ["i"] * n, arity=(1, None), f=_fold_sub),
    "EQ": dict(res="b", kinds=lambda n: ["i"] * n, arity=(2, 2), f=lambda xs: xs[0] == xs[1]),
    "NE": dict(res="b", kinds=lambda n: ["i"] * n, arity=(2, 2), f=lambda xs: xs[0] != xs[1]),
    "LE": dict(res="b", kinds=lambda n: ["i"] * n, arity=(2, 2), f=lambda xs: xs[0] <= xs[1]),
    "LT": dict(res="b", kinds=lambda n: ["i"] * n, arity=(2, 2), f=lambda xs: xs[0] < xs[1]),
    "GE": dict(res="b", kinds=lambda n: ["i"] * n, arity=(2, 2), f=lambda xs: xs[0] >= xs[1]),
    "GT": dict(res="b", kinds=lambda n: ["i"] * n, arity=(2, 2), f=lambda xs: xs[0] > xs[1]),
    "NOT": dict(res="b", kinds=lambda n: ["b"] * n, arity=(1, 1), f=lambda xs: not xs[0]),
    "AND": dict(res="b", kinds=lambda n: ["b"] * n, arity=(0, None), f=lambda xs: all(xs)),
    "OR": dict(res="b", kinds=lambda n: ["b"] * n, arity=(0, None), f=lambda xs: any(xs)),
    "IFF": dict(res="b", kinds=lambda n: ["b"] * n, arity=(2, 2), f=lambda xs: xs[0] == xs[1]),
    "XOR": dict(res="b", kinds=lambda n: ["b"] * n, arity=(2, 2), f=lambda xs: xs[0] != xs[1]),
    "IMP": dict(res="b", kinds=lambda n: ["b"] * n, arity=(2, 2), f=lambda xs: (not xs[0]) or xs[1]),
    "IF": dict(res="i", kinds=lambda n: ["b", "i", "i"][:n], arity=(3, 3), f=lambda xs: xs[1] if xs[0] else xs[2]),
    "ALLDIFF": dict(res="b", kinds=lambda n: ["i"] * n, arity=(0, None), f=_alldiff),
    "BOOL_CONSTANT": dict(res="b", kinds=lambda n: ["B"] * n, arity=(1, 1), f=lambda xs: xs[0]),
    "INT_CONSTANT": dict(res="i", kinds=lambda n: ["I"] * n, arity=(1, 1), f=lambda xs: xs[0]),
}
# operators whose integer operands only matter through their mutual order / equality pattern
ORDER_OPS = {"EQ", "NE", "LE", "LT", "GE", "GT", "ALLDIFF"}
INT_GRID = (0, 1, 2)  # complete for order/equality patterns of up to 3 operands
MAX_ARITY = 3


def operand_assignments(op: str, n: int) -> Iterable[List[Any]]:
    """All abstract operand vectors for (op, arity): booleans exhaustively; integers as a grid that
    realises every order/equality pattern (order ops) or as independent symbols (arithmetic)."""
    kinds = REF[op]["kinds"](n)
    if len(kinds) != n:
        return
    doms: List[List[Any]] = []
    for i, k in enumerate(kinds):
        if k in ("b", "B"):
            doms.append([False, True])
        elif k == "I":
            doms.append([-3, 0, 7])
        elif op in ORDER_OPS:
            doms.append(list(INT_GRID))
        else:
            doms.append([Lin.sym(f"o{i}")])
    for t in itertools.product(*doms):
        yield list(t)


def arities_to_test(op: str, sites: List[Site]) -> List[int]:
    out: Set[int] = set()
    # every arity the operator's meaning allows (the constructors are public: `IntExpr(Op.SUB, [a, b, c])` is a legal tree even
    # if no library site builds it), up to MAX_ARITY ...
    if op in REF:
        lo_r, hi_r = REF[op]["arity"]
        out |= set(range(lo_r, (hi_r if hi_r is not None else MAX_ARITY) + 1))
        out = {n for n in out if n <= MAX_ARITY}
    # ... and whatever the library's own construction sites can produce
    for s in sites:
        lo = s.arity_lo or 0
        hi = s.arity_hi
        if hi is None:
            out |= set(range(lo, MAX_ARITY + 1))
        else:
            out |= set(range(lo, hi + 1))
    return sorted(out)


# ------------------------------------------------------------------------------------------
# interpreting the DSL's own constructors over abstract leaves
# ------------------------------------------------------------------------------------------


class ExprWorld:
    """Interprets module-level functions and methods of expr.py / constraints.py on abstract values.
    Trees are ``Obj`` values with attrs op (Tag 'Op.X') and operands; leaves carry attr ``leaf``."""

    def __init__(self, repo: Repo):
        self.repo = repo
        self.ev = fde.Evaluator()
        self.expr_mod = repo.mod("cspuz/expr.py")
        self.cons_mod = repo.mod("cspuz/constraints.py")
        self.genv: Dict[str, Any] = {}
        self._build_env()

    # -- values ------------------------------------------------------------------------------
    def leaf(self, kind: str, name: str) -> Obj:
        classes = ["BoolExpr", "Expr"] if kind == "b" else ["IntExpr", "Expr"]
        # a variable is an expression too: op VAR, no operands (code that looks at `x.op` of an operand must find one)
        o = Obj(classes, leaf=name, kind=kind, name=name, op=Tag("Op.VAR"), operands=[])
        o.resolver = self._resolve_method
        return o

    def term(self, cls: str, op: Any, operands: Any) -> Obj:
        if not isinstance(op, Tag):
            raise Undecided("operator is not an Op member")
        ops = list(self.ev.iterate(operands))
        o = Obj([cls, "Expr"], op=op, operands=ops, name=f"{cls}({op.name})")
        o.resolver = self._resolve_method
        return o

    def _resolve_method(self, obj: Obj, attr: str) -> Any:
        for cls in ("BoolVar", "IntVar", "BoolExpr", "IntExpr", "Expr"):
            if cls in obj.classes:
                q = f"{cls}.{attr}"
                if q in self.expr_mod.funcs:
                    return fde.FunctionValue(self.expr_mod.funcs[q], self.ev, self.genv, self_obj=obj)
        raise Undecided(f"unknown method {attr}")

    def _build_env(self) -> None:
        g = self.genv
        g["Op"] = Tag("Op")
        g["BoolExpr"] = lambda op, operands: self.term("BoolExpr", op, operands)
        g["IntExpr"] = lambda op, operands: self.term("IntExpr", op, operands)
        g["cast"] = lambda t, v: v
        g["TypeError"] = lambda *a: Tag("TypeError")
        g["ValueError"] = lambda *a: Tag("ValueError")
        # flatten_iterator is the repository's own generator function (evaluated, not trusted by name): a one-shot argument is
        # consumed by it, and its result can be walked once
        for mod in (self.expr_mod, self.cons_mod):
            for q, fn in mod.funcs.items():
                if "." not in q:
                    g.setdefault(q, fde.FunctionValue(fn, self.ev, g))
            for st in mod.tree.body:
                if isinstance(st, ast.Assign):
                    for t in st.targets:
                        if isinstance(t, ast.Name):
                            g.setdefault(t.id, Tag(t.id))
        # module-level tables (operator groups, type tuples) are evaluated in source order, as at import time
        for nm in ("BoolArray1D", "BoolArray2D", "IntArray1D", "IntArray2D"):
            g.setdefault(nm, Tag(nm))
        for mod in (self.expr_mod, self.cons_mod):
            for st in mod.tree.body:
                if isinstance(st, (ast.Assign, ast.AnnAssign)) and getattr(st, "value", None) is not None:
                    if isinstance(st.value, ast.Call) and dotted(st.value.func) not in ("tuple", "list", "set", "frozenset", "dict"):
                        continue
                    tgts = st.targets if isinstance(st, ast.Assign) else [st.target]
                    try:
                        self.ev.steps = 0
                        v = self.ev.eval(st.value, g)
                    except (Undecided, Exception):
                        continue
                    for t in tgts:
                        if isinstance(t, ast.Name):
                            g[t.id] = v
        # `from .constraints import cond/then` inside expr.py methods is a no-op here: names are global
        # array classes are not modelled in the scalar world
        for nm in ("BoolArray1D", "BoolArray2D", "IntArray1D", "IntArray2D"):
            g[nm] = Tag(nm)

    def _flatten(self, *args: Any) -> List[Any]:
        out: List[Any] = []
        for a in args:
            if isinstance(a, (list, tuple)):
                for x in a:
                    out.extend(self._flatten(x))
            else:
                out.append(a)
        return out

    def call(self, mod: Module, qual: str, *args: Any, self_obj: Any = None) -> Any:
        fn = mod.func(qual)
        self.ev.steps = 0
        return fde.FunctionValue(fn, self.ev, self.genv, self_obj=self_obj)(*args)

    # -- denotation --------------------------------------------------------------------------
    def denote(self, v: Any, val: Dict[str, Any]) -> Any:
        if isinstance(v, (bool, int, Lin)):
            return v
        if isinstance(v, Obj):
            if "leaf" in v.attrs:
                return val[v.attrs["leaf"]]
            op = v.attrs["op"].name.split(".")[-1]
            if op not in REF:
                raise Undecided(f"no reference semantics for {op}")
            xs = [self.denote(o, val) for o in v.attrs["operands"]]
            spec = REF[op]
            lo, hi = spec["arity"]
            if len(xs) < lo or (hi is not None and len(xs) > hi):
                raise IllFormed(f"{op} with {len(xs)} operands")
            kinds = spec["kinds"](len(xs))
            for x, k in zip(xs, kinds):
                if k in ("b", "B") and not isinstance(x, bool):
                    raise IllFormed(f"{op} applied to non-boolean operand {x!r}")
                if k in ("i", "I") and (isinstance(x, bool) or not isinstance(x, (int, Lin))):
                    raise IllFormed(f"{op} applied to non-integer operand {x!r}")
            if op in ORDER_OPS and any(isinstance(x, Lin) for x in xs):
                raise Undecided("order operator on symbolic operand")
            return spec["f"](xs)
        raise Undecided(f"cannot denote {v!r}")


class IllFormed(Exception):
    pass
