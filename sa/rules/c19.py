"""C19 - problem generation is sound and reproducible under the deterministic PRNG.

RNG-1  randomness confinement: inside cspuz/generator only srandom.py may use `random`/`numpy.random`/
       `secrets`/`os.urandom`/`time`; only deterministic_random.py touches its global generator.
RNG-2  srandom dispatch: each of randint/choice/shuffle/random forwards its arguments unchanged to the
       deterministic module when enabled and to Python's `random` otherwise.
RNG-3/5 drandom.randint: accepted draws are exactly x < limit with limit the largest multiple of the
       width w = b-a+1 below the generator's range; the result is a + x % w (scripted generator).
RNG-4  bit-width abstract interpretation of XorShift.next: all state words and the output stay below
       2**32 = _XORSHIFT_DOMAIN_SIZE.
RNG-6/7 shuffle is a Fisher-Yates bijection between draw scripts and permutations; choice indexes with
       randint(0, len-1); random() = next()/range.
GEN-1  generate_problem returns only a problem for which the supplied solver reported SAT and the
       uniqueness test accepted that very answer (all scripted callback behaviours up to 3 neighbours).
GEN-2/3 ArrayBuilder2D.candidates: in-range cells, values from the choice set (or moved from the current
       board), point symmetry and the adjacency option preserved; PUR: copy_with_update never mutates.
"""

from __future__ import annotations

import ast
import itertools
from typing import Any, Dict, List, Optional, Set, Tuple

from ..core import fde
from ..core.classworld import ClassWorld
from ..core.fde import IndexOutOfRange, Obj, Raised, Tag, Undecided
from ..core.findings import Report
from ..core.loader import AnalysisError, Repo, dotted, norm, qualname, short

GEN = "cspuz/generator/"
SR, DR, CORE, BUILDER, SEG = (GEN + n for n in ("srandom.py", "deterministic_random.py", "core.py", "builder.py", "segmentation.py"))
FORBIDDEN = {"random", "numpy", "numpy.random", "secrets", "time"}


def confinement(repo: Repo, rep: Report) -> None:
    rep.rule("RNG-1", "only srandom.py uses Python's random/numpy.random/secrets/time/os.urandom inside cspuz/generator; only deterministic_random.py owns the global generator")
    n = 0
    for m in repo.iter(GEN):
        rep.saw(m.rel)
        aliases: Dict[str, str] = {}
        for node in ast.walk(m.tree):
            if isinstance(node, ast.Import):
                for a in node.names:
                    if a.name.split(".")[0] in FORBIDDEN:
                        aliases[a.asname or a.name.split(".")[0]] = a.name
            elif isinstance(node, ast.ImportFrom) and node.module and node.module.split(".")[0] in FORBIDDEN and not node.level:
                for a in node.names:
                    aliases[a.asname or a.name] = node.module + "." + a.name
        uses = []
        for node in ast.walk(m.tree):
            if isinstance(node, ast.Name) and isinstance(node.ctx, ast.Load) and node.id in aliases:
                uses.append(node)
            elif isinstance(node, ast.Attribute) and dotted(node) in ("os.urandom",):
                uses.append(node)
        if m.rel == SR:
            n += 1
            rep.ok("RNG-1", f"{m.rel} is the one module allowed to use {sorted(aliases.values())}", nontrivial=False)
            continue
        n += 1
        if aliases or uses:
            seen = set()
            for u in uses or [m.tree]:
                par = getattr(u, "_parent", None)
                cons = short(par) if par is not None and not isinstance(par, ast.Module) else f"import {sorted(aliases.values())}"
                q = qualname(u) if uses else "<module>"
                if (q, cons) in seen:
                    continue
                seen.add((q, cons))
                rep.finding("RNG-1", m.rel, q, cons,
                            f"{m.rel} draws from {sorted(set(aliases.values()))} directly: with the deterministic PRNG enabled the result still "
                            "depends on Python's global random state", getattr(u, "lineno", None))
        else:
            rep.ok("RNG-1", f"{m.rel} uses no ambient randomness source")
        if m.rel != DR:
            for node in ast.walk(m.tree):
                if isinstance(node, ast.Attribute) and node.attr == "_rng":
                    rep.finding("RNG-1", m.rel, qualname(node), short(node), "the deterministic generator's state is accessed outside deterministic_random.py", node.lineno)
    if n < 5:
        raise AnalysisError("generator modules vanished")


def dispatch(repo: Repo, rep: Report) -> None:
    rep.rule("RNG-2", "srandom.randint/choice/shuffle/random forward unchanged to drandom when enabled, to Python's random otherwise")
    mod = repo.mod(SR)
    rep.saw(SR)
    for name, args in (("randint", (3, 9)), ("choice", (["a", "b"],)), ("shuffle", ([1, 2, 3],)), ("random", ())):
        for flag in (True, False):
            cw = ClassWorld([mod])
            log: List[Any] = []
            for side in ("drandom", "pyrandom"):
                # the two generator modules as objects, so that `module.f(...)` and `pick_module().f(...)` both resolve
                cw.genv[side] = Obj(["module"], name=side, **{
                    f: (lambda side, f: lambda *a: (log.append((side, f, a)), Tag(f"result-of-{side}.{f}"))[1])(side, f)
                    for f in ("randint", "choice", "shuffle", "random", "seed")})
            cw.genv["_use_deterministic_prng"] = flag
            try:
                r = cw.call(name, *args)
            except (Undecided, Raised) as ex:
                rep.undecide("RNG-2", f"{name}: {ex}")
                continue
            side = "drandom" if flag else "pyrandom"
            want_r = Tag(f"result-of-{side}.{name}") if name != "shuffle" else None
            if log == [(side, name, tuple(args))] and (r == want_r or name == "shuffle"):
                rep.ok("RNG-2", f"srandom.{name} with deterministic={flag} -> {side}.{name}{args}")
            else:
                rep.finding("RNG-2", SR, name, f"{name} dispatch deterministic={flag}",
                            f"srandom.{name}{args} with the deterministic PRNG {'on' if flag else 'off'} calls {log!r} and returns {r!r}; expected one call of {side}.{name} with the same arguments")
    # use_deterministic_prng seeds the generator
    try:
        cw = ClassWorld([mod])
        log = []
        cw.genv["drandom"] = Obj(["module"], name="drandom", seed=lambda s_: log.append(s_))
        cw.call("use_deterministic_prng", True, 42)
        on = cw.genv.get("_use_deterministic_prng")
        # the function assigns a global: evaluated through its own environment copy, so read the flag through the getter
        if log != [42]:
            rep.finding("RNG-2", SR, "use_deterministic_prng", "seeding", f"use_deterministic_prng(True, 42) seeds with {log!r}")
        else:
            # every enabling call seeds, whatever the calls before it were (a bench loop re-seeds before each puzzle)
            seqs = [([(True, 1), (True, 2)], [1, 2]), ([(True, 5), (False, None), (True, 5)], [5, 5]), ([(True, None)], [0]),
                    ([(False, 9), (True, 7), (True, 7)], [7, 7])]
            bad_s = None
            for calls_, want in seqs:
                cw = ClassWorld([mod])
                log = []
                cw.genv["drandom"] = Obj(["module"], name="drandom", seed=lambda s_, log=log: log.append(s_))
                for en, sd in calls_:
                    if sd is None:
                        cw.call("use_deterministic_prng", en)
                    else:
                        cw.call("use_deterministic_prng", en, sd)
                if log != want:
                    bad_s = f"after the calls {['use_deterministic_prng' + str(c) for c in calls_]} the generator was seeded with {log!r}, expected {want!r}"
                    break
            if bad_s:
                rep.finding("RNG-2", SR, "use_deterministic_prng", "seeding", bad_s + ": the same seed no longer gives the same sequence")
            else:
                rep.ok("RNG-2", "use_deterministic_prng(True, s) seeds the deterministic generator with s on every call (default 0), also when already enabled")
    except (Undecided, Raised) as ex:
        rep.undecide("RNG-2", f"use_deterministic_prng: {ex}")


# ------------------------------------------------------------------------------------------


def bitwidth(repo: Repo, rep: Report) -> Optional[int]:
    rep.rule("RNG-4", "bit-width abstract interpretation: XorShift state words and output stay < 2**32; the domain constant equals that bound")
    mod = repo.mod(DR)
    rep.saw(DR, "XorShift.next")
    init, nxt = mod.func("XorShift.__init__"), mod.func("XorShift.next")
    BIG = 10 ** 6

    def width(e: ast.AST, env: Dict[str, int]) -> int:
        if isinstance(e, ast.Constant) and isinstance(e.value, int) and e.value >= 0:
            return e.value.bit_length()
        if isinstance(e, ast.Name):
            if e.id in env:
                return env[e.id]
            if e.id in consts:
                return consts[e.id]
            return BIG
        if isinstance(e, ast.Attribute) and isinstance(e.value, ast.Name) and e.value.id == "self":
            return env.get("self." + e.attr, BIG)
        if isinstance(e, ast.BinOp):
            a, b = width(e.left, env), width(e.right, env)
            if isinstance(e.op, (ast.BitXor, ast.BitOr)):
                return max(a, b)
            if isinstance(e.op, ast.BitAnd):
                return min(a, b)
            if isinstance(e.op, ast.LShift) and isinstance(e.right, ast.Constant):
                return a + e.right.value
            if isinstance(e.op, ast.RShift) and isinstance(e.right, ast.Constant):
                return max(0, a - e.right.value)
            if isinstance(e.op, ast.Mod) and isinstance(e.right, ast.Constant) and e.right.value > 0:
                return (e.right.value - 1).bit_length()
            if isinstance(e.op, ast.Add):
                return max(a, b) + 1
            return BIG
        return BIG

    # module-level non-negative integer constants (a named mask) are read through
    consts: Dict[str, int] = {}
    for st in mod.tree.body:
        if isinstance(st, ast.Assign) and len(st.targets) == 1 and isinstance(st.targets[0], ast.Name):
            try:
                v = fde.Evaluator().eval(st.value, {})
            except Exception:
                continue
            if isinstance(v, int) and not isinstance(v, bool) and v >= 0:
                consts[st.targets[0].id] = v.bit_length()

    def assign(st: ast.Assign, env: Dict[str, int]) -> bool:
        """width transfer of one assignment (plain or simultaneous tuple form); False if outside the vocabulary"""
        t = st.targets[0]
        pairs: List[Tuple[ast.AST, ast.AST]]
        if isinstance(t, ast.Tuple) and isinstance(st.value, ast.Tuple) and len(t.elts) == len(st.value.elts):
            pairs = list(zip(t.elts, st.value.elts))
        else:
            pairs = [(t, st.value)]
        ws = [width(v, env) for _t, v in pairs]  # right-hand sides first: the tuple form is simultaneous
        for (tt, _v), w_ in zip(pairs, ws):
            if isinstance(tt, ast.Attribute) and isinstance(tt.value, ast.Name) and tt.value.id == "self":
                env["self." + tt.attr] = w_
            elif isinstance(tt, ast.Name):
                env[tt.id] = w_
            else:
                return False
        return True

    env: Dict[str, int] = {"seed": BIG}
    for st in init.body:
        if isinstance(st, ast.Assign):
            assign(st, env)
    state = {k: v for k, v in env.items() if k.startswith("self.")}
    if not state or max(state.values()) >= BIG:
        # some state word is not bounded for arbitrary seeds: look for a seed whose output leaves [0, 2**32)
        try:
            cw = ClassWorld([mod])
            for seed in (0, 1, 2 ** 31, 2 ** 32 - 1, 2 ** 32, 2 ** 32 + 5, 1700000000123, 2 ** 40 + 3, -1, -(2 ** 33)):
                g = cw.new("XorShift", seed)
                for k in range(4):
                    cw.ev.steps = 0
                    v = cw.method(g, "next")()
                    if not (isinstance(v, int) and 0 <= v < 2 ** 32):
                        rep.finding("RNG-4", DR, "XorShift.__init__", "state width",
                                    f"XorShift({seed}).next() call #{k + 1} returns {v!r}, outside [0, 2**32): the state words are not confined to 32 bits "
                                    f"for every seed (widths after __init__: {state}), so the rejection sampling built on _XORSHIFT_DOMAIN_SIZE is wrong "
                                    "(or does not terminate)", init.lineno)
                        return None
        except (Undecided, Raised) as ex:
            rep.undecide("RNG-4", f"initial state widths unknown: {state}; evaluation: {ex}")
            return None
        rep.undecide("RNG-4", f"initial state widths unknown: {state} (no seed with an out-of-range output found)")
        return None
    bound = max(state.values())
    # inductive step: from widths <= bound, one call of next() keeps them <= bound
    env2 = {k: bound for k in state}
    ret_w = None
    for st in nxt.body:
        if isinstance(st, ast.Assign):
            if not assign(st, env2):
                rep.undecide("RNG-4", f"assignment outside the bit-width vocabulary: {short(st)}")
                return None
        elif isinstance(st, ast.Return) and st.value is not None:
            ret_w = width(st.value, env2)
        elif isinstance(st, ast.Expr) and isinstance(st.value, ast.Constant):
            continue
        else:
            rep.undecide("RNG-4", f"statement outside the bit-width vocabulary: {short(st)}")
            return None
    after = max(v for k, v in env2.items() if k.startswith("self."))
    if after > bound or ret_w is None or ret_w > bound:
        rep.finding("RNG-4", DR, "XorShift.next", "state width",
                    f"starting from state words below 2**{bound}, one step yields words below 2**{after} and an output below 2**{ret_w}: "
                    f"the generator's range is not the 2**{bound} the sampling code assumes", nxt.lineno)
        return None
    dom = mod.toplevel_assign("_XORSHIFT_DOMAIN_SIZE")
    try:
        domv = fde.Evaluator().eval(dom, {}) if dom is not None else None
    except Undecided:
        domv = None
    if domv != 2 ** bound:
        rep.finding("RNG-4", DR, "<module>", "_XORSHIFT_DOMAIN_SIZE", f"_XORSHIFT_DOMAIN_SIZE = {domv!r} but next() ranges over [0, 2**{bound})")
        return None
    rep.ok("RNG-4", f"XorShift: state and output widths <= {bound} bits (inductive); _XORSHIFT_DOMAIN_SIZE == 2**{bound}")
    return bound


def drandom_world(repo: Repo, script: List[int]):
    mod = repo.mod(DR)
    cw = ClassWorld([mod])
    it = iter(script)
    used: List[int] = []

    def nxt() -> int:
        try:
            v = next(it)
        except StopIteration:
            raise Undecided("generator script exhausted")
        used.append(v)
        return v

    cw.genv["_rng"] = Obj(["XorShift"], next=nxt, name="_rng")
    return cw, used


def sampling(repo: Repo, rep: Report, bits: Optional[int]) -> None:
    rep.rule("RNG-3", "randint(a, b): accept exactly x < (largest multiple of w=b-a+1 within the range); return a + x % w; a > b rejected")
    rep.rule("RNG-6", "shuffle is a bijection from draw scripts to permutations (Fisher-Yates with randint(0, i)); choice = cand[randint(0, len-1)], empty rejected")
    rep.rule("RNG-7", "random() = next() / range, in [0, 1)")
    rep.saw(DR)
    D = 2 ** (bits or 32)
    bad = None
    n = 0
    try:
        for a, b in ((0, 0), (5, 7), (-3, 2), (0, 9), (1, 6), (0, D - 1), (-D // 2, D // 2 - 1)):
            w = b - a + 1
            limit = D - D % w
            probes = sorted(x for x in {0, 1, w - 1, w, limit - 1, 12345 % limit} if 0 <= x < limit)
            for x in probes:
                n += 1
                cw, used = drandom_world(repo, [x, 0, 0])
                r = cw.call("randint", a, b)
                if r != a + x % w or used != [x]:
                    bad = f"randint({a}, {b}) with generator output {x}: returns {r!r} after {len(used)} draw(s), expected {a + x % w} after 1"
                    break
            if bad:
                break
            if limit < D:
                for x in sorted({limit, D - 1}):
                    n += 1
                    cw, used = drandom_world(repo, [x, 7 % limit, 0])
                    r = cw.call("randint", a, b)
                    if used != [x, 7 % limit] or r != a + (7 % limit) % w:
                        bad = (f"randint({a}, {b}): output {x} lies beyond the last full block of width {w} (limit {limit}) and must be "
                               f"rejected; got {r!r} after draws {used}")
                        break
            if bad:
                break
        for a, b in ((3, 2), (0, -1)):
            cw, used = drandom_world(repo, [0, 0])
            try:
                r = cw.call("randint", a, b)
                bad = bad or f"randint({a}, {b}) with an empty interval returns {r!r}"
            except Raised as ex:
                if "ValueError" not in ex.what:
                    bad = bad or f"randint({a}, {b}) raises {ex.what}"
        cw, used = drandom_world(repo, [0, 0])
        try:
            r = cw.call("randint", 0, D)
            bad = bad or f"randint(0, {D}) (wider than the generator range) returns {r!r}"
        except Raised:
            pass
    except Undecided as ex:
        rep.undecide("RNG-3", str(ex))
        bad = "undecided"
    except Raised as ex:
        bad = f"randint({a}, {b}) on a legal interval raises {ex.what}"
    if bad and bad != "undecided":
        rep.finding("RNG-3", DR, "randint", "randint", bad, repo.mod(DR).func("randint").lineno)
    elif not bad:
        rep.ok("RNG-3", f"randint: {n} (interval, generator output) probes at the block boundaries", points=n)
    # choice / shuffle with a scripted randint
    try:
        mod = repo.mod(DR)
        bad = None
        for k in range(1, 5):
            cand = [f"c{i}" for i in range(k)]
            for idx in range(k):
                cw = ClassWorld([mod])
                calls: List[Any] = []
                cw.genv["randint"] = lambda a, b, idx=idx: (calls.append((a, b)), idx)[1]
                r = cw.call("choice", list(cand))
                if r != cand[idx] or calls != [(0, k - 1)]:
                    bad = f"choice over {k} candidates with randint -> {idx}: returns {r!r} after calls {calls}"
                    break
            if bad:
                break
        cw = ClassWorld([mod])
        cw.genv["randint"] = lambda a, b: 0
        try:
            r = cw.call("choice", [])
            bad = bad or f"choice([]) returns {r!r}"
        except Raised as ex:
            if "ValueError" not in ex.what:
                bad = bad or f"choice([]) raises {ex.what}"
        if bad:
            rep.finding("RNG-6", DR, "choice", "choice", bad)
        else:
            rep.ok("RNG-6", "choice: cand[randint(0, len-1)] for 1..4 candidates; empty raises ValueError")
        bad = None
        import math
        from collections import Counter

        class _Need(Exception):
            def __init__(self, a: int, b: int):
                self.a, self.b = a, b

        for n_ in (0, 1, 2, 3, 4):
            counts: Counter = Counter()
            pending: List[Tuple[int, ...]] = [()]
            explored = 0
            while pending and explored < 5000:
                sc = pending.pop()
                explored += 1
                cw = ClassWorld([mod])
                pos = [0]

                def ri(a: int, b: int, sc=sc, pos=pos) -> int:
                    if pos[0] >= len(sc):
                        raise _Need(a, b)
                    v = sc[pos[0]]
                    pos[0] += 1
                    return v

                cw.genv["randint"] = ri
                seq = list(range(n_))
                try:
                    cw.call("shuffle", seq)
                except _Need as nd:
                    if nd.b - nd.a > 8 or nd.b < nd.a:
                        bad = f"shuffle of {n_} items requests randint({nd.a}, {nd.b})"
                        break
                    pending.extend(sc + (v,) for v in range(nd.a, nd.b + 1))
                    continue
                if sorted(seq) != list(range(n_)):
                    bad = f"shuffle of {n_} items yields {seq}, not a permutation"
                    break
                counts[tuple(seq)] += 1
            if bad:
                break
            if len(counts) != math.factorial(n_) or len(set(counts.values())) > 1:
                bad = (f"shuffle of {n_} items: over all {sum(counts.values())} equally likely draw sequences the {math.factorial(n_)} permutations "
                       f"occur {sorted(counts.values())} times (not uniform)")
                break
        if bad:
            rep.finding("RNG-6", DR, "shuffle", "shuffle", bad, repo.mod(DR).func("shuffle").lineno)
        else:
            rep.ok("RNG-6", "shuffle: draw scripts <-> permutations is a bijection for 0..4 items")
    except Undecided as ex:
        rep.undecide("RNG-6", str(ex))
    except Raised as ex:
        rep.finding("RNG-6", DR, "choice/shuffle", "choice/shuffle", f"choice or shuffle of a non-empty sequence raises {ex.what}")
    try:
        bad = None
        for x in (0, 1, D // 2, D - 1):
            cw, used = drandom_world(repo, [x])
            r = cw.call("random")
            if not (isinstance(r, float) and r == x / D and 0 <= r < 1):
                bad = f"random() with generator output {x} returns {r!r}, expected {x / D}"
                break
        if bad:
            rep.finding("RNG-7", DR, "random", "random", bad)
        else:
            rep.ok("RNG-7", "random() = next()/2**32 at 0, 1, mid, max")
    except Undecided as ex:
        rep.undecide("RNG-7", str(ex))
    # seed: same seed -> same generator object state (structural)
    try:
        mod = repo.mod(DR)
        cw = ClassWorld([mod])
        a = cw.new("XorShift", 7)
        b = cw.new("XorShift", 7)
        c = cw.new("XorShift", 8)
        sa = {k: v for k, v in a.attrs.items() if k.startswith("_")}
        sb = {k: v for k, v in b.attrs.items() if k.startswith("_")}
        sc = {k: v for k, v in c.attrs.items() if k.startswith("_")}
        seq_a = [cw.method(a, "next")() for _ in range(4)]
        seq_b = [cw.method(b, "next")() for _ in range(4)]
        if sa == sb and sa != sc and seq_a == seq_b:
            rep.ok("RNG-7", "XorShift(seed) state depends on the seed only; equal seeds give equal streams")
        else:
            rep.finding("RNG-7", DR, "XorShift.__init__", "seeding", "equal seeds do not give equal generator states/streams, or the seed is ignored")
    except (Undecided, Raised) as ex:
        rep.undecide("RNG-7", f"seeding: {ex}")


    # re-seeding restarts every stream: seed(s), some draws from each of the four functions, seed(s) again, the same draws
    rep.rule("RNG-10", "after seed(s) every sampling function draws from the newly seeded generator: the same seed gives the same interleaved "
                       "sequence of randint / choice / shuffle / random values, however often the generator was used or re-seeded before")
    try:
        mod = repo.mod(DR)
        cw = ClassWorld([mod])
        cw.genv["_rng"] = cw.new("XorShift", 0)  # as at import

        def draws() -> List[Any]:
            out: List[Any] = [cw.call("random"), cw.call("randint", 0, 9), cw.call("choice", ["a", "b", "c", "d", "e"])]
            seq = [1, 2, 3, 4, 5]
            cw.call("shuffle", seq)
            out.append(tuple(seq))
            out += [cw.call("random"), cw.call("randint", -5, 5)]
            return out

        cw.call("random")  # the generator has been used before the first seeding
        cw.call("seed", 5)
        first = draws()
        cw.call("seed", 6)
        other = draws()
        cw.call("seed", 5)
        again = draws()
        if first == again and first != other:
            rep.ok("RNG-10", "seed(5) / draws / seed(6) / draws / seed(5) / draws: the two seed-5 sequences are equal, the seed-6 one differs")
        else:
            k = next((i for i, (x, y) in enumerate(zip(first, again)) if x != y), None)
            names = ["random()", "randint(0, 9)", "choice", "shuffle", "random()", "randint(-5, 5)"]
            rep.finding("RNG-10", DR, "seed", "re-seeding",
                        (f"after re-seeding with the same seed draw #{k} ({names[k]}) gives {again[k]!r} instead of {first[k]!r}: that function still "
                         "draws from a generator that seed() no longer controls") if k is not None else
                        "different seeds give the same sequence: the seed is ignored")
    except (Undecided, IndexOutOfRange) as ex:
        rep.undecide("RNG-10", str(ex))
    except Raised as ex:
        rep.finding("RNG-10", DR, "seed", "re-seeding", f"raises {ex.what}")


# ------------------------------------------------------------------------------------------


def generation(repo: Repo, rep: Report) -> None:
    rep.rule("GEN-1", "generate_problem returns None or a problem whose own solver call reported SAT and whose answer passed the uniqueness test")
    mod = repo.mod(CORE)
    rep.saw(CORE, "generate_problem")
    bad = None
    n = 0
    try:
        # every behaviour of the callbacks on up to 4 solver calls: (sat, unique) per call, two annealing coin values
        for script in itertools.product([(False, False), (False, True), (True, False), (True, True)], repeat=4):
            for coin, timeout_at in ((0.0, None), (0.999, None), (0.0, 1), (0.0, 2), (0.999, 1)):
                # timeout_at: the solver callback raises subprocess.TimeoutExpired on that call (config.solver_timeout expired): the run may
                # fail with it, or go on - but a problem whose solver call timed out was never reported SAT
                for solve_initial in (False, True):
                    n += 1
                    cw = ClassWorld([mod])
                    calls: List[Tuple[Any, bool, Any]] = []
                    uniq_calls: List[Any] = []
                    counter = [0]

                    def solver(p: Any) -> Tuple[Any, ...]:
                        i = len(calls)
                        sat, _u = script[min(i, len(script) - 1)]
                        ans = Tag(f"answer-{i}")
                        if timeout_at is not None and i == timeout_at:
                            calls.append((p, "timeout", None))
                            raise Raised("subprocess.TimeoutExpired(solver, timeout)")
                        calls.append((p, sat, ans))
                        return (sat, ans)

                    def uniqueness(*answer: Any) -> bool:
                        uniq_calls.append(answer)
                        for i, (p, sat, ans) in enumerate(calls):
                            if len(answer) == 1 and answer[0] == ans:
                                return script[min(i, len(script) - 1)][1]
                        return True  # asked about an answer that is not from any solver call: accepting exposes the bug

                    def neighbours(p: Any) -> List[Any]:
                        out = []
                        for _ in range(2):
                            counter[0] += 1
                            out.append(Tag(f"problem-{counter[0]}"))
                        return out

                    cw.genv["srandom.random"] = lambda: coin
                    cw.genv["srandom"] = Tag("srandom")
                    cw.genv["sys.stderr"] = Tag("stderr")
                    try:
                        r = cw.call("generate_problem", solver, initial_problem=Tag("problem-0"), neighbor_generator=neighbours,
                                    score=lambda *a: 1, uniqueness=uniqueness, max_steps=2, solve_initial_problem=solve_initial)
                    except Raised as ex:
                        if timeout_at is not None and "TimeoutExpired" in ex.what:
                            continue  # the timeout ends the run: nothing was returned
                        raise
                    if r is None:
                        if timeout_at is None and any(sat and script[min(i, 3)][1] and i >= (1 if solve_initial else 0) and i < len(calls)
                                                      for i, (p, sat, ans) in enumerate(calls)):
                            bad = f"callback script {script}, coin {coin}: a neighbour was SAT and unique but None was returned"
                            break
                        continue
                    rec = [(i, sat) for i, (p, sat, ans) in enumerate(calls) if p == r]
                    okay = bool(rec) and all(sat is True for _, sat in rec) and any(script[min(i, 3)][1] for i, _ in rec) and \
                        any((calls[i][2],) in uniq_calls for i, _ in rec)
                    if not okay:
                        bad = (f"callback script {script}, coin {coin}, solver timeout on call {timeout_at}, solve_initial_problem={solve_initial}: returned {r!r}; "
                               f"solver calls {[(str(p), s) for p, s, a in calls]}, uniqueness asked about {uniq_calls}")
                        break
                if bad:
                    break
            if bad:
                break
    except Undecided as ex:
        rep.undecide("GEN-1", str(ex))
        return
    except Raised as ex:
        bad = f"generate_problem raises {ex.what}"
    if bad:
        rep.finding("GEN-1", CORE, "generate_problem", "returned problem", bad, mod.func("generate_problem").lineno)
    else:
        rep.ok("GEN-1", f"generate_problem: {n} scripted callback behaviours; every returned problem was SAT and its own answer unique", points=n)


def builders(repo: Repo, rep: Report) -> None:
    rep.rule("GEN-2", "ArrayBuilder2D.candidates: cells in range, new values from the choice set (or swapped from the current board), symmetry partner = point reflection, adjacency option respected by value-setting updates")
    rep.rule("PUR-2", "copy_with_update / with_update / neighbour generation never mutate the previous problem")
    mod = repo.mod(BUILDER)
    rep.saw(BUILDER)
    import copy

    bad = None
    n = 0
    try:
        for (H, W) in ((1, 3), (2, 2), (2, 3), (3, 3)):
            king = [(dy, dx) for dy in (-1, 0, 1) for dx in (-1, 0, 1) if (dy, dx) != (0, 0)]
            square2 = [(dy, dx) for dy in range(-2, 3) for dx in range(-2, 3) if (dy, dx) != (0, 0)]
            # the adjacency option is a flag or an explicit list of forbidden offsets (king moves, the 5x5 square generate_nurikabe builds)
            for symmetry, disallow, use_move in list(itertools.product((False, True), repeat=3)) + [(True, king, False), (True, square2, False),
                                                                                                    (False, king, True), (True, square2, True)]:
                for pattern in range(3):
                    cw = ClassWorld([mod])
                    draws = itertools.cycle([0, 1, 2, 5, 3, 7, 4, 1, 6])
                    cw.genv["srandom.randint"] = lambda a, b: a + next(draws) % (b - a + 1)
                    cw.genv["srandom.choice"] = lambda xs: xs[next(draws) % len(xs)]
                    cw.genv["srandom.shuffle"] = lambda xs: None
                    choice = [0, 1, 2]
                    b = cw.new("ArrayBuilder2D", H, W, choice, 0, disallow_adjacent=disallow, symmetry=symmetry, use_move=use_move)
                    cur = [[0] * W for _ in range(H)]
                    if pattern >= 1:
                        cur[0][0] = 1
                        if symmetry:
                            cur[H - 1][W - 1] = 2
                    if pattern >= 1 and symmetry and isinstance(disallow, list):
                        cur[H - 1][W - 1] = 0  # the partner may sit at a forbidden offset: start from a board that respects the option
                        cur[0][0] = 0
                    if pattern == 2 and W >= 3 and not disallow:
                        cur[0][W - 1] = 2
                        if symmetry:
                            cur[H - 1][0] = 1
                    before = copy.deepcopy(cur)
                    cands = cw.method(b, "candidates")(cur)
                    if cur != before:
                        bad = f"candidates() mutated the current board {before} -> {cur}"
                        break
                    for upd in cands:
                        n += 1
                        nxt = cw.method(b, "copy_with_update")(cur, upd)
                        if cur != before:
                            bad = f"copy_with_update mutated the previous board ({before} -> {cur}) for update {upd}"
                            break
                        if nxt is cur or any(r1 is r2 for r1, r2 in zip(nxt, cur)):
                            bad = f"copy_with_update returns a board sharing rows with the previous one (update {upd})"
                            break
                        cells = [(y, x) for (y, x, v) in upd]
                        if any(not (0 <= y < H and 0 <= x < W) for y, x in cells):
                            bad = f"{H}x{W} sym={symmetry} adj={disallow} move={use_move}: update {upd} addresses a cell outside the board"
                            break
                        present = {v for row in cur for v in row}
                        if any(v not in choice and v not in present for (_, _, v) in upd):
                            bad = f"update {upd} writes a value outside the choice set {choice}"
                            break
                        is_move = sorted(v for (_, _, v) in upd) == sorted(cur[y][x] for (y, x, _) in upd) and len(upd) >= 2
                        if symmetry:
                            nd_cur = {(y, x) for y in range(H) for x in range(W) if cur[y][x] != 0}
                            sym_cur = nd_cur == {(H - 1 - y, W - 1 - x) for (y, x) in nd_cur}
                            nd = {(y, x) for y in range(H) for x in range(W) if nxt[y][x] != 0}
                            if sym_cur and nd != {(H - 1 - y, W - 1 - x) for (y, x) in nd}:
                                bad = (f"{H}x{W} symmetric builder, current {cur}: update {upd} gives {nxt}, whose non-default cells are "
                                       "not point-symmetric")
                                break
                        if disallow and not is_move:
                            offs = [(1, 0), (0, 1), (-1, 0), (0, -1)] if disallow is True else list(disallow)
                            nd_cur = {(y, x) for y in range(H) for x in range(W) if cur[y][x] != 0}
                            ok_cur = not any((y + dy, x + dx) in nd_cur for (y, x) in nd_cur for dy, dx in offs)
                            nd = {(y, x) for y in range(H) for x in range(W) if nxt[y][x] != 0}
                            if ok_cur and any((y + dy, x + dx) in nd for (y, x) in nd for dy, dx in offs):
                                bad = f"{H}x{W} disallow_adjacent={'True' if disallow is True else 'offset list of ' + str(len(offs))} (symmetry={symmetry}) builder, current {cur}: value-setting update {upd} gives non-default cells at a forbidden offset: {nxt}"
                                break
                        if nxt == cur:
                            bad = f"update {upd} does not change the board {cur}"
                            break
                    if bad:
                        break
                if bad:
                    break
            if bad:
                break
    except Undecided as ex:
        rep.undecide("GEN-2", str(ex))
        return
    except (Raised, IndexOutOfRange) as ex:
        bad = f"candidates/copy_with_update raises {ex}"
    if bad:
        rule = "PUR-2" if "mutated" in bad or "sharing" in bad else "GEN-2"
        rep.finding(rule, BUILDER, "ArrayBuilder2D.candidates" if rule == "GEN-2" else "ArrayBuilder2D.copy_with_update", "ArrayBuilder2D updates", bad)
    else:
        rep.ok("GEN-2", f"ArrayBuilder2D: {n} proposed updates over 4 boards x 8 option sets x 3 current boards satisfy range/value/symmetry/adjacency", points=n)
        rep.ok("PUR-2", "ArrayBuilder2D.candidates/copy_with_update leave the previous board untouched and share no row with it")
    # reproducibility: candidate order must not depend on the iteration order of a set of strings (hash salting)
    rep.rule("RNG-8", "candidate enumeration never iterates over a set holding strings (str hashes are salted per process: the order is not reproducible across runs)")
    try:
        cw = ClassWorld([mod])
        cw.genv["srandom.shuffle"] = lambda xs: None
        cw.genv["srandom.randint"] = lambda a, b: a
        cw.genv["srandom.choice"] = lambda xs: xs[0]
        c = cw.new("Choice", ["..", "^1", "v2", "^1"], "..")
        cw.method(c, "candidates")("..")
        cw.method(c, "initial")()
        ab = cw.new("ArrayBuilder2D", 2, 2, ["..", "^1", "<0"], "..", symmetry=True)
        cw.method(ab, "candidates")(cw.method(ab, "initial")())
        if cw.ev.order_events:
            rep.finding("RNG-8", BUILDER, "Choice.__init__", "set-ordered candidates",
                        f"candidate values pass through a set of strings ({cw.ev.order_events[0]}...): their order - hence the shuffled sequence and the generated problem - "
                        "changes between interpreter runs for the same deterministic seed")
        else:
            rep.ok("RNG-8", "Choice / ArrayBuilder2D with string values: no iteration over a set of strings")
    except (Undecided, Raised) as ex:
        rep.undecide("RNG-8", str(ex))
    # Choice + build_neighbor_generator
    try:
        cw = ClassWorld([mod])
        cw.genv["srandom.shuffle"] = lambda xs: xs.reverse()
        cw.genv["srandom.randint"] = lambda a, b: a
        cw.genv["srandom.choice"] = lambda xs: xs[0]
        c = cw.new("Choice", [1, 2, 3], 1)
        ab = cw.new("ArrayBuilder2D", 1, 2, [0, 1], 0)
        pattern = [c, (ab, 5)]
        init, gen = cw.call("build_neighbor_generator", pattern)
        want_init = [1, ([[0, 0]], 5)]
        snapshot = copy.deepcopy(init)
        nbrs = list(gen(init))
        ok_n = init == want_init == snapshot and len(nbrs) == 2 + 2
        for nb in nbrs:
            diffs = (nb[0] != init[0]) + (nb[1][0] != init[1][0])
            if diffs != 1 or nb[1][1] != 5 or nb[0] not in (1, 2, 3) or any(v not in (0, 1) for row in nb[1][0] for v in row) or not isinstance(nb[1], tuple):
                ok_n = False
            if nb[1][0] is init[1][0] and nb[1][0] != init[1][0]:
                ok_n = False
        if ok_n and init == snapshot:
            rep.ok("PUR-2", "build_neighbor_generator: nested list/tuple pattern, each neighbour differs in exactly one builder, constants and the current problem untouched")
        else:
            rep.finding("PUR-2", BUILDER, "build_neighbor_generator", "neighbour generation",
                        f"pattern [Choice, (ArrayBuilder2D, 5)]: initial {init!r} (snapshot {snapshot!r}), neighbours {nbrs!r}")
    except (Undecided, Raised) as ex:
        rep.undecide("PUR-2", f"build_neighbor_generator: {ex}")



def _ambient_aliases(tree: ast.AST) -> Dict[str, str]:
    aliases: Dict[str, str] = {}
    for node in ast.walk(tree):
        if isinstance(node, ast.Import):
            for a in node.names:
                if a.name.split(".")[0] in ("random", "secrets") or a.name in ("numpy.random",):
                    aliases[a.asname or a.name.split(".")[0]] = a.name
        elif isinstance(node, ast.ImportFrom) and node.module and not node.level and (
                node.module.split(".")[0] in ("random", "secrets") or node.module == "numpy.random"):
            for a in node.names:
                aliases[a.asname or a.name] = node.module + "." + a.name
    return aliases


def bench_generators(repo: Repo, rep: Report) -> None:
    """RNG-9: the generator entry points whose output bench/generator.py pins under use_deterministic_prng(True, seed=0) must draw
    every random number through srandom: call-graph reachability inside the puzzle module from each pinned generate_* function;
    a reachable function that reads Python's `random` / numpy.random / secrets makes the pinned output depend on the global state."""
    rep.rule("RNG-9", "the puzzle generators pinned by bench/generator.py reach no use of Python's random / numpy.random / secrets "
                      "(call graph inside the puzzle module); every draw goes through srandom")
    bench = "bench/generator.py"
    if not repo.has(bench):
        rep.undecide("RNG-9", f"{bench} vanished")
        return
    bm = repo.mod(bench)
    rep.saw(bench)
    mod_alias: Dict[str, str] = {}
    for node in ast.walk(bm.tree):
        if isinstance(node, ast.Import):
            for a in node.names:
                if a.name.startswith("cspuz.puzzle."):
                    mod_alias[a.asname or a.name] = a.name.split(".")[-1]
        elif isinstance(node, ast.ImportFrom) and node.module == "cspuz.puzzle":
            for a in node.names:
                mod_alias[a.asname or a.name] = a.name
    entries: Set[Tuple[str, str]] = set()
    for node in ast.walk(bm.tree):
        if isinstance(node, ast.Attribute) and isinstance(node.value, ast.Name) and node.value.id in mod_alias and node.attr.startswith("generate"):
            entries.add((mod_alias[node.value.id], node.attr))
    if len(entries) < 3:
        raise AnalysisError(f"RNG-9: only {len(entries)} pinned generators found in {bench}")
    for modname, fn in sorted(entries):
        file = f"cspuz/puzzle/{modname}.py"
        if not repo.has(file) or fn not in repo.mod(file).funcs:
            raise AnalysisError(f"anchor vanished: {file}::{fn}")
        m = repo.mod(file)
        rep.saw(file, fn)
        aliases = _ambient_aliases(m.tree)
        # reachability over module-level function names (nested functions and lambdas are part of their parent's body)
        top = {q: f for q, f in m.funcs.items() if "." not in q}
        seen_f: Set[str] = set()
        todo = [fn]
        while todo:
            q = todo.pop()
            if q in seen_f or q not in top:
                continue
            seen_f.add(q)
            for node in ast.walk(top[q]):
                if isinstance(node, ast.Name) and node.id in top and node.id not in seen_f:
                    todo.append(node.id)
        bad = None
        for q in sorted(seen_f):
            for node in ast.walk(top[q]):
                if isinstance(node, ast.Name) and isinstance(node.ctx, ast.Load) and node.id in aliases:
                    par = getattr(node, "_parent", None)
                    bad = (q, short(par) if par is not None else node.id, getattr(node, "lineno", None), aliases[node.id])
                    break
            if bad:
                break
        if bad:
            rep.finding("RNG-9", file, bad[0], bad[1],
                        f"{fn} (pinned by {bench} under the deterministic PRNG) reaches `{bad[1]}` in {bad[0]}, which draws from {bad[3]}: "
                        "the pinned output depends on Python's global random state", bad[2])
        else:
            rep.ok("RNG-9", f"{file}::{fn}: {len(seen_f)} reachable module functions, no ambient randomness")
    # information: other puzzle generators that call generate_problem and also draw ambient randomness (not pinned, not a violation)
    mixed = []
    for m in repo.iter("cspuz/puzzle/"):
        al = _ambient_aliases(m.tree)
        if not al:
            continue
        for q, f in m.funcs.items():
            if "." in q or not q.startswith("generate"):
                continue
            names = {n.id for n in ast.walk(f) if isinstance(n, ast.Name)}
            if "generate_problem" in names and names & set(al):
                mixed.append(f"{m.rel}::{q}")
    if mixed:
        rep.info("generators outside the pinned set that call generate_problem and also read Python's random directly "
                 f"(their arguments to generate_problem are not reproducible under the deterministic PRNG): {mixed}")


def run(repo: Repo, rep: Report) -> None:
    confinement(repo, rep)
    bench_generators(repo, rep)
    dispatch(repo, rep)
    bits = bitwidth(repo, rep)
    sampling(repo, rep, bits)
    generation(repo, rep)
    builders(repo, rep)
    rep.assume("uniformity is decided as: accepted draws form whole blocks of the interval width, output is a + x % w, and the generator's "
               "range is the assumed power of two; the statistical quality of xorshift itself is not decided; the solver is a caller-supplied callback")
